"""C01 — Reader returns calibrated voltages aligned with the probe geometry.
Proofs in coq/C01; correspondence and oracle against the real spikeglx.Reader
(imported through PYTHONPATH, so IBLNPX_REPO selects the copy under test)."""
import base64
import glob
import hashlib
import json
import logging
import os
import shutil
import signal
import time
import traceback
import warnings
from pathlib import Path

from fractions import Fraction

import numpy as np

import common

PROP = "C01"
HEADER = "From Coq Require Import ZArith List.\nImport ListNotations.\nFrom IBL.C01 Require Import Run."
TRUSTED = [
    "Coq 8.16.1 kernel + vm_compute (no native_compute); all C01 theorems: Closed under the global context",
    "hand-written model coq/C01/Model.v of spikeglx.Reader.__getitem__/read/read_samples and of the branch of "
    "mtscomp.Reader.__getitem__ they reach, tied to the code under test by this run's correspondence",
    "element types abstract in the theorems (cal : A -> G -> V); the single IEEE operation float32(x) * s2v[g] is "
    "evaluated by NumPy in the harness for each output cell and compared bitwise",
    "raw_channel_order and channel_conversion_sample2v are taken from the Reader as data (their construction is "
    "C08/C09); this check tests on the implementation that the order is the stable (shank,row,-col) sort of the "
    "unsorted geometry and the identity with sort=False",
    "cbin: chunk k of the compressed file decompresses to rows [b_k, b_k+1) of the original (C02); bisect_right on "
    "the sorted chunk bounds = number of leading bounds <= x; mtscomp's internal assertions are not modelled",
    "harness/pC01.py generators (metas, files, selectors), canonicaliser and oracle",
    "extraction (Require Extraction, ExtrOcamlBasic only), harness/driver.ml, ocamlfind ocamlopt; a sample of the "
    "same cases is re-evaluated by the kernel (vm_compute)",
]

ERR_CODE = {"IndexError": 1, "ValueError": 2, "NotImplementedError": 3, "OSError": 4}


# --------------------------------------------------------------------------
# metadata: fixtures and synthetic
# --------------------------------------------------------------------------
def fixture_metas():
    root = common.REPO / "src" / "tests" / "fixtures"
    return sorted(glob.glob(str(root / "**" / "*.meta"), recursive=True))


def meta_facts(text):
    """What the harness itself needs from a meta text (parsed here, not with the code under test):
    nc, fs, probe generation code of the Coq model, site-map encoding + table, NP2.4_shank, maxint."""
    import re
    kv = {}
    for line in text.splitlines():
        if "=" in line:
            k, v = line.split("=", 1)
            kv[k.replace("~", "")] = v.strip()
    imec = kv.get("typeThis") == "imec"
    fs = float(kv["imSampRate"] if imec else kv["niSampRate"])
    if "typeEnabled" in kv:
        gen = 0                                   # 3A
    else:
        try:
            pt = int(float(kv.get("imDatPrb_type", "")))
        except ValueError:
            pt = None
        gen = {0: 0, 21: 1, 1030: 1, 24: 2, 2013: 2, 1100: 3}.get(pt, -1)
    if "snsShankMap" in kv:
        enc, txt = 0, kv["snsShankMap"]
    elif "snsGeomMap" in kv:
        enc, txt = 1, kv["snsGeomMap"]
    else:
        enc, txt = 2, ""
    sites = [[int(float(x)) for x in m.split(":")]
             for m in re.findall(r"([0-9]+:[0-9]+:[0-9]+:[0-9]+)", txt)]
    split = int(float(kv["NP2.4_shank"])) if "NP2.4_shank" in kv else -1
    if imec:
        maxint = int(float(kv["imMaxInt"])) if "imMaxInt" in kv else 512
    else:
        maxint = int(float(kv.get("imMaxInt", 32768)))
    return {"nc": int(float(kv["nSavedChans"])), "fs": fs, "gen": gen,
            "nidq": kv.get("typeThis") == "nidq" and "snsApLfSy" not in kv, "enc": enc, "sites": sites,
            "split": split, "maxint": maxint}


def patch_meta_text(text, ns, nc, fs):
    """fileSizeBytes / fileTimeSecs of a meta text set for an (ns, nc) int16 file."""
    out, seen = [], set()
    for l in text.splitlines():
        if l.startswith("fileSizeBytes="):
            l = "fileSizeBytes=%d" % (ns * nc * 2)
            seen.add("size")
        elif l.startswith("fileTimeSecs="):
            l = "fileTimeSecs=%s" % np.format_float_positional(ns / fs, trim="-")
            seen.add("time")
        out.append(l)
    if "size" not in seen:
        out.append("fileSizeBytes=%d" % (ns * nc * 2))
    if "time" not in seen:
        out.append("fileTimeSecs=%s" % np.format_float_positional(ns / fs, trim="-"))
    return "\n".join(out) + "\n"


NP1_GAINS = [50, 125, 250, 500, 1000, 1500, 2000, 3000]


def synth_meta(rng, kind, nch, nsync=1, sites=None, gains=None, layout=None, era3a=None):
    """Small synthetic SpikeGLX meta text: permuted site map, non-uniform IMRO gains.
    kind in 3A, 3B2, 3B2geom, NP2.1, NP2.4, NPultra, lf, nidq.  Returns (text, fs, nc)."""
    L = []
    if kind == "nidq":
        mn, ma, xa, dw = layout or rng.choice([(0, 0, 1, 1), (2, 1, 1, 1), (0, 3, 2, 1), (4, 0, 0, 1), (1, 2, 3, 1),
                                               (0, 0, 8, 0), (3, 3, 0, 0), (2, 0, 1, 2)])
        fs = 30003.0003
        rmax, mag, mng = rng.choice(["5", "2.5", "10"]), rng.choice([2, 4, 10]), rng.choice([200, 100, 50])
        i2v = float(rmax) / 32768
        exp = [i2v / mng] * mn + [i2v / mag] * ma + [i2v] * xa + [1.0] * dw
        L += ["acqMnMaXaDw=%d,%d,%d,%d" % (mn, ma, xa, dw), "nSavedChans=%d" % (mn + ma + xa + dw),
              "niAiRangeMax=%s" % rmax, "niAiRangeMin=-5",
              "niMAGain=%d" % mag, "niMNGain=%d" % mng,
              "niSampRate=%r" % fs, "snsMnMaXaDw=%d,%d,%d,%d" % (mn, ma, xa, dw),
              "snsSaveChanSubset=all", "typeThis=nidq", "~snsShankMap=(1,2,0)"]
        if era3a if era3a is not None else rng.random() < 0.25:
            L.insert(0, "typeEnabled=imec,nidq")      # nidq file of the 3A era: the meta carries a probe version
        return "\n".join(L) + "\n", fs, mn + ma + xa + dw, exp
    fs = rng.choice([30000.0, 30000.390639481, 29999.757983, 2500.0])
    lf = kind == "lf"
    base = "3B2" if lf else kind
    nshank = 4 if base == "NP2.4" else 1
    ncol = 8 if base == "NPultra" else 2
    nrow = {"NPultra": 48, "NP2.4": 640, "NP2.1": 640}.get(base, 480)
    # distinct sites, random order on disk (interleaved shanks for NP2.4)
    sites_given = sites
    if sites is None:
        sites = set()
        while len(sites) < nch:
            sites.add((rng.randrange(nshank), rng.randrange(ncol), rng.randrange(min(nrow, 2 + nch))))
        sites = list(sites)
        rng.shuffle(sites)
        if base == "NP2.4" and nch % 2 == 0:
            # far end of the row range on the even shanks (rows up to nrow-1 next to row 0 of the following
            # shank): a packed sort key with too small a per-shank stride orders these wrongly (C01-r10seed1).
            # No extra draw, so the random stream of every other case is unchanged.
            sites = [(s, c, nrow - 1 - r) if s % 2 == 0 else (s, c, r) for (s, c, r) in sites]
        if rng.random() < 0.25:      # the usual layout: already sorted on disk
            sites.sort(key=lambda s: (s[0], s[2], s[1]))
    if base == "NP2.4" and sites_given is None and rng.random() < 0.4:
        L.append("NP2.4_shank=%d" % rng.choice(sites)[0])      # a split (single shank) file
    L += ["acqApLfSy=%d,%d,%d" % (nch, nch if base in ("3A", "3B2", "3B2geom") else 0, nsync),
          "imSampRate=%r" % fs, "nSavedChans=%d" % (nch + nsync),
          "snsApLfSy=%s" % ("0,%d,%d" % (nch, nsync) if lf else "%d,0,%d" % (nch, nsync)),
          "snsSaveChanSubset=0:%d" % (nch + nsync - 1), "typeThis=imec"]
    if base == "3A":
        L += ["typeEnabled=imec", "imProbeOpt=3", "imProbeSN=513180821", "imAiRangeMax=0.6", "imAiRangeMin=-0.6"]
    else:
        ptype = {"3B2": 0, "3B2geom": 0, "NP2.1": rng.choice([21, 1030]), "NP2.4": rng.choice([24, 2013]),
                 "NPultra": 1100}[base]
        L += ["imDatPrb_type=%d" % ptype, "imDatPrb_port=1", "imDatPrb_slot=2", "imDatPrb_sn=18005116811"]
        if base in ("3B2", "3B2geom"):
            L += ["imAiRangeMax=0.6", "imAiRangeMin=-0.6"] + (["imMaxInt=512"] if rng.random() < 0.5 else [])
        elif base == "NPultra":
            L += ["imAiRangeMax=0.6", "imAiRangeMin=-0.6", "imMaxInt=512"]
        else:
            maxint = rng.choice([8192, 2048])
            L += ["imAiRangeMax=0.5", "imAiRangeMin=-0.5", "imMaxInt=%d" % maxint]
    if base in ("3A", "3B2", "3B2geom", "NPultra"):
        if gains is None:
            gains = [(rng.choice(NP1_GAINS), rng.choice(NP1_GAINS)) for _ in range(nch)]
        imro = "".join("(%d 0 0 %d %d 1)" % (i, g[0], g[1]) for i, g in enumerate(gains))
        L.append("~imroTbl=(0,%d)%s" % (nch, imro))
        exp = [0.6 / 512 / g[1 if lf else 0] for g in gains] + [1.0] * nsync
    else:
        imro = "".join("(%d %d 0 0 %d)" % (i, sites[i][0], i) for i in range(nch))
        L.append("~imroTbl=(%d,%d)%s" % (24 if base == "NP2.4" else 21, nch, imro))
        exp = [0.5 / maxint / 80] * nch + [1.0] * nsync
    if base == "3B2geom":
        # 2023-04 format: x/y in um.  NP1 x = 11/27/43/59 by (col, row parity), y = 20 * row
        def xy(s):
            sh, col, row = s
            x = [27, 59][col] if row % 2 == 0 else [11, 43][col]
            return sh, x, 20 * row
        L.append("~snsGeomMap=(PRB_1_4_0480_1_C,1,0,70)" + "".join("(%d:%d:%d:1)" % xy(s) for s in sites))
    else:
        L.append("~snsShankMap=(%d,%d,%d)" % (nshank, ncol, nrow) +
                 "".join("(%d:%d:%d:1)" % s for s in sites))
    return "\n".join(L) + "\n", fs, nch + nsync, exp


class Recording:
    """A mock recording on disk + everything the harness knows about it.
    opts (all optional): access 'direct' | 'symlink_files' (every file is a link, with its own
    hashed target name in a store folder) | 'symlink_dir' (reached through a link to the folder) |
    'relative' (relative path, after a chdir); meta_ns: the number of samples the .meta CLAIMS
    (fileTimeSecs/fileSizeBytes) when it differs from the ns frames physically present;
    extra_bytes: trailing bytes of an incomplete frame; ignore_warnings, open_later: constructor
    options (open=False, then .open())."""

    def __init__(self, tdir, name, meta_text, fs, ns, nc, D, cbin, chunk_samples, label, flat=None, opts=None):
        self.label, self.ns, self.nc, self.D, self.cbin = label, ns, nc, D, cbin
        self.flat = flat            # None, or dict(nsync=.., dtype=..): a flat binary without .meta
        self.as_str = False
        self.opts = dict(opts or {})
        o = self.opts
        d = Path(tdir) / name
        d.mkdir(parents=True, exist_ok=True)
        self.dir = d
        if flat is not None:
            stem = "flat"
            self.meta_file = None
        else:
            stem = "rec.imec0.ap" if "typeThis=nidq" not in meta_text else "rec.nidq"
            self.meta_file = d / (stem + ".meta")
            self.meta_file.write_text(patch_meta_text(meta_text, o.get("meta_ns", ns), nc, fs))
        self.bin_file = d / (stem + ".bin")
        D.tofile(self.bin_file)
        self.file = self.bin_file
        self.bounds = []
        files = [self.bin_file] + ([self.meta_file] if self.meta_file else [])
        if cbin:
            import mtscomp
            mtscomp.tqdm = lambda it, **kw: it      # no progress bars on stderr
            cb = d / (stem + ".cbin")
            mtscomp.compress(self.bin_file, out=cb, outmeta=d / (stem + ".ch"), sample_rate=fs, n_channels=nc,
                             dtype=np.int16, chunk_duration=chunk_samples / fs, n_threads=1,
                             check_after_compress=False)
            self.ch_file = d / (stem + ".ch")
            if o.get("keep_bin"):       # .bin and .cbin side by side: the .meta entry point picks the .bin
                self.cbin = False
                files = [self.bin_file, self.meta_file]
            else:
                self.bin_file.unlink()
                self.file = cb
                files = [cb, self.ch_file, self.meta_file]
            if o.get("ch_file_arg"):    # compression header under another name, given to the constructor
                other = d / "header_elsewhere.json"
                self.ch_file.rename(other)
                self.ch_file = other
        elif o.get("extra_bytes"):
            with open(self.bin_file, "ab") as f:
                f.write(bytes((7 * k + 1) % 251 for k in range(o["extra_bytes"])))
        if o.get("meta_file_arg") and self.meta_file is not None:   # meta under another name, given explicitly
            (d / "elsewhere").mkdir()
            other = d / "elsewhere" / "session.meta"
            self.meta_file.rename(other)
            self.meta_file = other
        acc = o.get("access", "direct")
        if acc == "symlink_files":
            store = d / "objects"
            store.mkdir()
            for k, f in enumerate(files):
                target = store / hashlib.sha1((name + f.name).encode()).hexdigest()[:12]
                f.rename(target)
                # absolute and relative link targets alternate
                os.symlink(target if k % 2 == 0 else Path("objects") / target.name, f)
        elif acc == "symlink_dir":
            link = Path(tdir) / (name + "_lnk")
            os.symlink(d, link, target_is_directory=True)
            self.file = link / self.file.name

    def open(self, sort):
        import spikeglx
        if getattr(self, "file_sha1", None) is None:
            self.file_sha1 = hashlib.sha1(Path(self.file).read_bytes()).hexdigest()
        cwd = os.getcwd()
        try:
            with time_limit(60):
                return self._open(spikeglx, sort)
        finally:
            os.chdir(cwd)

    def _open(self, spikeglx, sort):
        o = self.opts
        f = self.file
        if o.get("access") == "relative":
            os.chdir(self.dir.parent)
            f = Path(self.dir.name) / self.file.name
        if o.get("access") == "via_meta":      # the .meta file as the entry point
            f = self.meta_file
        f = str(f) if self.as_str else f
        kw = {"sort": sort}
        if o.get("ignore_warnings") is not None:
            kw["ignore_warnings"] = o["ignore_warnings"]
        if o.get("open_later") or o.get("never_open"):
            kw["open"] = False
        if o.get("meta_file_arg"):
            kw["meta_file"] = str(self.meta_file) if o.get("meta_file_str") else self.meta_file
        if o.get("ch_file_arg"):
            kw["ch_file"] = self.ch_file
        if self.flat is not None:
            if not self.flat.get("guess"):      # otherwise nc / ns / fs / nsync are guessed from the size
                kw.update(nc=self.nc, ns=self.ns, fs=30000, nsync=self.flat["nsync"])
            if self.flat.get("s2v") is not None:
                kw["s2v"] = self.flat["s2v"]
            sr = spikeglx.Reader(f, dtype=self.flat["dtype"], **kw)
        else:
            sr = spikeglx.Reader(f, **kw)
        if o.get("open_later"):
            sr.open()
        return sr


# --------------------------------------------------------------------------
# selectors
# --------------------------------------------------------------------------
# ('int', i, 'py'|'np') | ('slice', a, b, c) | ('list', [..], 'list'|'array')
def to_py(s):
    if s[0] == "int":
        return int(s[1]) if s[2] == "py" else np.int64(s[1])
    if s[0] == "slice":
        return slice(s[1], s[2], s[3])
    if s[2] == "list":
        return list(s[1])
    if s[2] == "array32":
        return np.array(s[1], dtype=np.int32)
    if s[2] == "uint16" and all(v >= 0 for v in s[1]):
        return np.array(s[1], dtype=np.uint16)
    if s[2] == "strided":           # a non-contiguous view
        a = np.zeros(2 * len(s[1]), dtype=np.int64)
        a[::2] = s[1]
        return a[::2]
    return np.array(s[1], dtype=np.int64)


def enc_sel(s):
    if s[0] == "int":
        return [0, s[1]]
    if s[0] == "slice":
        out = [1]
        for v in s[1:4]:
            out += [0, 0] if v is None else [1, v]
        return out
    return [2, len(s[1])] + list(s[1])


def sel_str(s):
    if s[0] == "int":
        return ("%d" if s[2] == "py" else "np.int64(%d)") % s[1]
    if s[0] == "slice":
        return "slice(%s,%s,%s)" % s[1:4]
    return ("%s" if s[2] == "list" else "np.array(%s)" if s[2] == "array" else "np.array(%s)<" + s[2] + ">") % (
        list(s[1]),)


def gen_int(rng, n, np_ok=True):
    v = rng.choice([0, 1, -1, n - 1, n, -n, -n - 1, n + 3, rng.randrange(-n - 2, n + 3),
                    rng.randrange(0, max(1, n)), rng.randrange(0, max(1, n)), rng.randrange(-n, 1)])
    return ("int", v, "np" if (np_ok and rng.random() < 0.12) else "py")


def gen_bound(rng, n):
    return rng.choice([None, None, 0, 1, -1, 2, -2, 3, n, -n, n + 1, -n - 1, n - 1, n // 2,
                       rng.randrange(-n - 3, n + 4), rng.randrange(0, n + 1)])


def gen_slice(rng, n, maxlen=None):
    while True:
        st = rng.choice([None, None, None, 1, -1, -1, 2, -2, 3, -3, n, -n, n + 1, rng.randrange(-5, 6)])
        if st == 0 and rng.random() < 0.6:
            continue
        s = ("slice", gen_bound(rng, n), gen_bound(rng, n), st)
        if maxlen is not None and st != 0 and len(range(*slice(*s[1:]).indices(n))) > maxlen:
            a = rng.randrange(0, n)
            s = ("slice", a, a + rng.randrange(0, maxlen + 1), rng.choice([None, 1, 2]))
        return s


def gen_list(rng, n, maxlen=8):
    if n >= 3 and rng.random() < 0.2:
        # runs and near-runs: endpoints of a consecutive run with a disturbed / permuted / repeated
        # interior, descending and wrapped (negative) runs — lists that "look like" a slice
        k = rng.randrange(3, min(n, max(3, maxlen)) + 1)
        a = rng.randrange(0, n - k + 1)
        l = list(range(a, a + k))
        mode = rng.choice(["run", "disturb", "swap", "repeat", "desc", "neg", "negdisturb"])
        if mode == "disturb":
            l[rng.randrange(1, k - 1)] = rng.randrange(-n, n)
        elif mode == "swap" and k >= 4:
            l[1], l[2] = l[2], l[1]
        elif mode == "repeat":
            l[rng.randrange(1, k - 1)] = l[0]
        elif mode == "desc":
            l = l[::-1]
        elif mode == "neg":
            l = [v - n for v in l]
        elif mode == "negdisturb":
            l[rng.randrange(1, k - 1)] = rng.randrange(-n, 0)
        return ("list", l, rng.choice(["list", "array", "array32", "strided"]))
    k = rng.choice([0, 1, 1, 2, 2, 3, rng.randrange(0, maxlen + 1)])
    bad = rng.random() < 0.08
    l = [rng.randrange(-n, n) if n > 0 else 0 for _ in range(k)]
    if k and rng.random() < 0.3:
        l[rng.randrange(k)] = rng.choice([0, n - 1, -1, -n])
    if k >= 2 and rng.random() < 0.3:
        l[-1] = l[0]
    if bad and k:
        l[rng.randrange(k)] = rng.choice([n, -n - 1, n + 5])
    return ("list", l, rng.choice(["list", "list", "array", "array", "array32", "uint16", "strided"]))


def gen_sel(rng, n, maxlen=None, lists=True):
    r = rng.random()
    if r < 0.22:
        return gen_int(rng, n)
    if r < 0.75 or not lists:
        return gen_slice(rng, n, maxlen)
    return gen_list(rng, n, maxlen or 8)


def n_selected(s, n):
    """how many positions Python/NumPy would select (upper bound; errors -> 0)"""
    if s[0] == "int":
        return 1
    if s[0] == "slice":
        return 0 if s[3] == 0 else len(range(*slice(*s[1:]).indices(n)))
    return len(s[1])


# --------------------------------------------------------------------------
# implementation runner / canonicaliser
# --------------------------------------------------------------------------
TIMEOUTS = [0]


class HarnessTimeout(Exception):
    """an implementation call did not return within the limit (Python-level loop)"""


class time_limit:
    """SIGALRM watchdog around calls into the implementation (main thread only; a hang inside C code
    cannot be interrupted this way — none of the anchored code releases control to C for long)."""

    def __init__(self, seconds=30):
        self.seconds = seconds

    def _raise(self, *a):
        raise HarnessTimeout("no return within %d s" % self.seconds)

    def __enter__(self):
        try:
            self.old = signal.signal(signal.SIGALRM, self._raise)
            signal.setitimer(signal.ITIMER_REAL, self.seconds)
            self.on = True
        except Exception:   # noqa  (not in the main thread)
            self.on = False
        return self

    def __exit__(self, *a):
        if self.on:
            signal.setitimer(signal.ITIMER_REAL, 0)
            signal.signal(signal.SIGALRM, self.old)
        return False


def observe(f, keep=None):
    """Outcome of an implementation call, canonicalised; nothing in here can raise.
    keep: dict receiving the raw returned data array (for the aliasing check)."""
    if TIMEOUTS[0] >= 5:        # the implementation hangs: stop calling it, every call counts as a failure
        return ("err", "HarnessTimeout")
    try:
        with warnings.catch_warnings(), time_limit(20):
            warnings.simplefilter("ignore")
            r = f()
    except HarnessTimeout:
        TIMEOUTS[0] += 1
        return ("err", "HarnessTimeout")
    except BaseException as e:      # noqa  (SystemExit / KeyboardInterrupt raised by the code under test included)
        return ("err", type(e).__name__)
    try:
        if keep is not None:
            d = r[0] if isinstance(r, tuple) and len(r) == 2 else r
            keep["raw"] = d if isinstance(d, np.ndarray) else None
        if r is None:
            return ("none",)
        if isinstance(r, tuple):    # read_samples / read(sync=True): (data, sync)
            if len(r) != 2:
                return ("ok", (), "tuple of %d" % len(r), None)
            r = r[0]
        if not isinstance(r, (np.ndarray, np.generic)):
            return ("ok", (), "not an ndarray: " + type(r).__name__, None)
        a = np.asarray(r)
        if a.dtype != np.float32:
            return ("ok", tuple(a.shape), str(a.dtype), None)
        return ("ok", tuple(a.shape), "float32", np.ascontiguousarray(a).reshape(-1).view(np.uint32).copy())
    except Exception as e:      # noqa
        return ("ok", (), "uncanonicalisable result (%s: %s)" % (type(e).__name__, e), None)


class ImplProblem(Exception):
    """An attribute of the reader is missing / raises / has an unexpected type or shape."""


def snapshot(sr, rec):
    """Every attribute of the reader the harness looks at, read once, validated, converted to
    plain values.  Raises ImplProblem (turned into a property failure by the caller)."""
    def get(name, f):
        try:
            with warnings.catch_warnings(), time_limit(20):
                warnings.simplefilter("ignore")
                return f()
        except BaseException as e:      # noqa
            raise ImplProblem("reader.%s raised %s: %s" % (name, type(e).__name__, e))

    def vec(name, v, n, kinds):
        if not isinstance(v, np.ndarray):
            raise ImplProblem("reader.%s is %s, not an ndarray" % (name, type(v).__name__))
        if v.ndim != 1 or v.shape[0] != n:
            raise ImplProblem("reader.%s has shape %s, expected (%d,)" % (name, v.shape, n))
        if v.dtype.kind not in kinds:
            raise ImplProblem("reader.%s has dtype %s" % (name, v.dtype))
        return v
    snap = {}
    for name in ("ns", "nc"):
        v = get(name, lambda: getattr(sr, name))
        if isinstance(v, bool) or not isinstance(v, (int, np.integer)):
            raise ImplProblem("reader.%s is %r, not an int" % (name, v))
        snap[name] = int(v)
    if (snap["ns"], snap["nc"]) != (rec.ns, rec.nc):
        raise ImplProblem("reader shape %s differs from the file's %s" % ((snap["ns"], snap["nc"]), (rec.ns, rec.nc)))
    nc = rec.nc
    typ = get("type", lambda: sr.type)
    if typ not in ("ap", "lf", "nidq", "samples"):
        raise ImplProblem("reader.type is %r" % (typ,))
    snap["type"] = typ
    nsync = get("nsync", lambda: sr.nsync)
    if isinstance(nsync, bool) or not isinstance(nsync, (int, np.integer)) or not 0 <= int(nsync) <= nc:
        raise ImplProblem("reader.nsync is %r" % (nsync,))
    snap["nsync"] = int(nsync)
    conv = get("channel_conversion_sample2v", lambda: sr.channel_conversion_sample2v)
    if not isinstance(conv, dict) or typ not in conv:
        raise ImplProblem("reader.channel_conversion_sample2v is %s without key %r" % (type(conv).__name__, typ))
    snap["s2v"] = vec("channel_conversion_sample2v[%r]" % typ, conv[typ], nc, "f").copy()
    snap["sample2volts"] = vec("sample2volts", get("sample2volts", lambda: sr.sample2volts), nc, "f").copy()
    snap["range_volts"] = vec("range_volts", get("range_volts", lambda: sr.range_volts), nc, "f").copy()
    has_order = get("raw_channel_order", lambda: hasattr(sr, "raw_channel_order"))
    snap["order"] = None
    if has_order:
        o = vec("raw_channel_order", get("raw_channel_order", lambda: sr.raw_channel_order), nc, "iu")
        snap["order"] = [int(x) for x in o]
    g = get("geometry", lambda: sr.geometry)
    snap["geometry"] = None
    if g is not None:
        if not isinstance(g, dict):
            raise ImplProblem("reader.geometry is %s, not a dict" % type(g).__name__)
        for k in ("shank", "row", "col"):
            if k not in g:
                raise ImplProblem("reader.geometry has no key %r" % k)
        if not isinstance(g["col"], np.ndarray) or g["col"].ndim != 1:
            raise ImplProblem("reader.geometry['col'] is not a 1-D ndarray")
        n = int(g["col"].shape[0])
        if rec.flat is None and n > nc:
            raise ImplProblem("reader.geometry has %d sites for %d channels" % (n, nc))
        snap["geometry"] = {k: vec("geometry[%r]" % k, g[k], n, "fiu").copy() for k in g}
    if rec.opts.get("never_open"):
        if get("is_open", lambda: sr.is_open):
            raise ImplProblem("a reader constructed with open=False is open")
        snap["bounds"] = [0, rec.ns]
    elif rec.cbin:
        b = get("_raw.chunk_bounds", lambda: [int(x) for x in sr._raw.chunk_bounds])
        if len(b) < 2 or b[0] != 0 or b[-1] != rec.ns or any(x > y for x, y in zip(b, b[1:])):
            raise ImplProblem("compressed reader chunk bounds %s are not 0..ns non-decreasing" % (b[:8],))
        snap["bounds"] = b
    return snap


def same_selector(a, b):
    if isinstance(a, np.ndarray) or isinstance(b, np.ndarray):
        return (isinstance(a, np.ndarray) and isinstance(b, np.ndarray) and a.dtype == b.dtype and
                a.shape == b.shape and bool(np.array_equal(a, b)))
    return type(a) is type(b) and a == b


def run_impl(sr, case, keep=None):
    """keep: dict; receives "raw" (returned array object) and "args_modified" (a selector object
    the caller passed was changed in place by the call)."""
    api, sels = case["api"], case["sels"]
    p = [to_py(s) for s in sels]
    if api == "read":
        obs = observe(lambda: sr.read(p[0], p[1], sync=False), keep)
    elif api == "read_samples" and case.get("defaults"):
        # read_samples() / read(): first_sample=0, last_sample=10000, channels=None / nsel=slice(0, 10000)
        obs = observe((lambda: sr.read()) if case["defaults"] == "read" else (lambda: sr.read_samples()), keep)
    elif api == "read_samples":
        s = sels[0]
        obs = observe(lambda: sr.read_samples(s[1], s[2], p[1] if len(p) > 1 else None), keep)
    elif api == "getitem1":
        obs = observe(lambda: sr[p[0]], keep)
    else:
        obs = observe(lambda: sr[tuple(p)], keep)      # getitem2 / getitemk
    if keep is not None:
        try:
            keep["args_modified"] = not all(same_selector(x, to_py(s)) for x, s in zip(p, sels))
        except Exception:   # noqa
            keep["args_modified"] = True
    return obs


def enc_case(rec, order, case):
    api, sels = case["api"], case["sels"]
    head = [(10 if rec.opts.get("never_open") else 0) +
            (0 if api in ("read", "read_samples") else (1 if api == "getitem1" else 2)),
            1 if rec.cbin else 0, len(rec.bounds)] + list(rec.bounds) + [rec.ns, rec.nc] + list(order)
    if api == "read":
        return head + enc_sel(sels[0]) + enc_sel(sels[1])
    if api == "read_samples":
        return head + enc_sel(sels[0]) + (enc_sel(sels[1]) if len(sels) > 1 else enc_sel(("slice", None, None, None)))
    if api == "getitem1":
        return head + enc_sel(sels[0])
    out = head + [len(sels)]
    for s in sels:
        out += enc_sel(s)
    return out


def calibrate(D, s2v, si, ci, gi):
    """The one IEEE operation of the property, by NumPy: float32(raw) * volts-per-bit, in the
    arithmetic `darray *= s2v[csel]` uses (float32 array times float32/float64 factors)."""
    x = D[si, ci].astype(np.float32)
    return (x.astype(s2v.dtype) * s2v[gi]).astype(np.float32)


def decode_model(out):
    if not out:
        return ("bad",)
    if out[0] == 1:
        return ("err", out[1])
    if out[0] == 2:
        return ("none",)
    if out[0] != 0:
        return ("bad",)
    rd, cd, nr, ncol = out[1:5]
    shape = (() if rd else (nr,)) + (() if cd else (ncol,))
    cells = np.array(out[5:], dtype=np.int64).reshape(-1, 3)
    return ("ok", shape, cells)


def compare_model(rec, s2v, obs, mod):
    """None if the implementation's observation equals the model's prediction."""
    if mod[0] == "bad":
        return "model could not decode the case"
    if obs[0] != mod[0]:
        return "implementation %s, model %s" % (obs[:2], mod[:2])
    if obs[0] == "err":
        if ERR_CODE.get(obs[1], 99) != mod[1]:
            return "implementation raised %s, model error code %d" % (obs[1], mod[1])
        return None
    if obs[0] == "none":
        return None
    if tuple(obs[1]) != tuple(mod[1]):
        return "shape: implementation %s, model %s" % (obs[1], mod[1])
    if obs[2] != "float32":
        return "dtype %s" % obs[2]
    cells = mod[2]
    if cells.shape[0] != obs[3].size:
        return "cell count: implementation %d, model %d" % (obs[3].size, cells.shape[0])
    if cells.shape[0] == 0:
        return None
    ref = calibrate(rec.D, s2v, cells[:, 0], cells[:, 1], cells[:, 2]).view(np.uint32)
    bad = np.flatnonzero(ref != obs[3])
    if bad.size:
        k = int(bad[0])
        return "cell %d: implementation bits %#x, float32(D[%d,%d])*s2v[%d] bits %#x (%d cells differ)" % (
            k, int(obs[3][k]), cells[k, 0], cells[k, 1], cells[k, 2], int(ref[k]), bad.size)
    return None


# --------------------------------------------------------------------------
# property oracle (independent of the Coq model)
# --------------------------------------------------------------------------
def expected_order(geom_unsorted, nc, sort):
    """shank, then row, then descending column (stable); sync / non-site columns stay last."""
    order = list(range(nc))
    if geom_unsorted is not None and sort:
        n = int(geom_unsorted["col"].size)
        key = [(float(geom_unsorted["shank"][i]), float(geom_unsorted["row"][i]), -float(geom_unsorted["col"][i]))
               for i in range(n)]
        order[:n] = sorted(range(n), key=lambda i: key[i])
    return order


def selector_class(rec, case):
    api, sels = case["api"], case["sels"]
    if rec.cbin and sels and sels[0][0] == "int" and sels[0][2] == "np":
        return "np_integer_sample"
    if rec.cbin and sels and sels[0][0] == "slice" and sels[0][3] is not None and sels[0][3] < 0:
        return "negative_step"
    return "other"


def in_property_domain(rec, case):
    api, sels = case["api"], case["sels"]
    if api == "getitemk" or not sels:
        return False
    if rec.opts.get("never_open"):
        return False                      # the open guard (C01_open_guard): model only
    if len(sels) == 2 and sels[0][0] == "list" and sels[1][0] == "list":
        return False                      # two index lists: outer gather, see C01_read_outer
    if rec.cbin and sels[0][0] == "list":
        return False                      # sample index lists are for uncompressed files only
    return True


def oracle(rec, CS, obs, case):
    """Property predicate on the implementation: the result is what NumPy indexing of the whole
    calibrated, geometry-ordered array CS gives (values bitwise, shape, and — on uncompressed
    files — the exception class for an invalid selector).  Returns None or a description."""
    api, sels = case["api"], case["sels"]
    p = [to_py(s) for s in sels]
    if api == "read_samples":
        p[0] = slice(sels[0][1], sels[0][2])
    item = p[0] if api == "getitem1" else (tuple(p) if len(p) == 2 else (p[0], slice(None)))
    if api == "read_samples" and len(p) == 1:
        item = (p[0], slice(None))
    try:
        exp = CS[item]
    except Exception as e:      # noqa
        if rec.cbin:
            return None         # invalid selector on a compressed file: not covered by the property
        if obs[0] != "err":
            return "NumPy raises %s, the reader returned %s" % (type(e).__name__, obs[:2])
        nbad = sum(1 for s, n in zip(sels, (rec.ns, rec.nc)) if sel_invalid(s, n))
        if nbad <= 1 and obs[1] != type(e).__name__:
            return "NumPy raises %s, the reader raised %s" % (type(e).__name__, obs[1])
        return None
    exp = np.asarray(exp)
    if obs[0] != "ok":
        return "NumPy indexing gives shape %s, the reader gave %s" % (exp.shape, obs[:2])
    if tuple(obs[1]) != tuple(exp.shape):
        return "NumPy indexing gives shape %s, the reader shape %s" % (exp.shape, obs[1])
    if obs[2] != "float32":
        return "result dtype %s" % obs[2]
    eb = np.ascontiguousarray(exp).reshape(-1).view(np.uint32)
    bad = np.flatnonzero(eb != obs[3])
    if bad.size:
        return "%d of %d cells differ from float32(raw) * volts-per-bit of the geometry-ordered array" % (
            bad.size, eb.size)
    return None


def sel_invalid(s, n):
    if s[0] == "int":
        return not (-n <= s[1] < n)
    if s[0] == "slice":
        return s[3] == 0
    return any(not (-n <= v < n) for v in s[1])


# --------------------------------------------------------------------------
# case generation
# --------------------------------------------------------------------------
def rand_D(nprng, ns, nc):
    D = nprng.integers(-32768, 32768, size=(ns, nc), dtype=np.int64).astype(np.int16)
    # extremes and small values somewhere in every file
    flat = D.reshape(-1)
    ext = np.array([32767, -32768, -32767, 0, 1, -1], dtype=np.int16)
    pos = nprng.choice(flat.size, size=min(flat.size, ext.size), replace=False)
    flat[pos] = ext[:pos.size]
    return D


def gen_cases(rng, ns, nc, cbin, n, big):
    """n cases for a recording of ns x nc."""
    cases = []
    maxr = 6 if big else None
    maxc = 12 if big else None
    for _ in range(n):
        r = rng.random()
        if r < 0.5:
            api = "read"
        elif r < 0.58:
            api = "read_samples"
        elif r < 0.72:
            api = "getitem1"
        elif r < 0.96:
            api = "getitem2"
        else:
            api = "getitemk"
        if api == "read_samples":
            a = rng.randrange(0, ns)
            b = rng.randrange(a + 1, ns + 1)
            if big:
                b = min(b, a + 6)
            sels = [("slice", a, b, None)]
            if rng.random() < 0.6:
                sels.append(gen_sel(rng, nc, maxc))
            elif big:
                sels[0] = ("slice", a, min(b, a + 3), None)
        elif api == "getitem1":
            sels = [gen_sel(rng, ns, 3 if big else None)]
            if sels[0][0] == "list" and rng.random() < 0.5:
                sels = [("list", [rng.randrange(-ns, ns) for _ in range(rng.choice([2, 2, 3, 1]))], sels[0][2])]
        elif api == "getitemk":
            k = rng.choice([0, 1, 3, 3, 4])
            sels = [gen_sel(rng, ns if i == 0 else nc, 3, lists=False) for i in range(k)]
        else:
            wide_rows = rng.random() < 0.5
            nsel = gen_sel(rng, ns, None if (wide_rows or not big) else maxr)
            csel = gen_sel(rng, nc, maxc if (wide_rows or not big) else None)
            if big and n_selected(nsel, ns) * n_selected(csel, nc) > 5000:
                nsel = gen_sel(rng, ns, maxr)
            sels = [nsel, csel]
        cases.append({"api": api, "sels": sels})
    return cases


def sweep_cases(ns, nc, vals):
    """every slice over vals^3 as the sample selector, a few column selectors"""
    cases = []
    k = 0
    csels = [("slice", None, None, None), ("int", nc - 1, "py"), ("slice", None, None, -1), ("list", [nc - 1, 0], "list"),
             ("slice", 1, None, 2)]
    for a in vals:
        for b in vals:
            for c in vals:
                cases.append({"api": ("read", "getitem2")[k % 2], "sels": [("slice", a, b, c), csels[k % len(csels)]]})
                k += 1
    for i in range(-ns - 2, ns + 2):
        cases.append({"api": "getitem2", "sels": [("int", i, "py"), csels[k % len(csels)]]})
        cases.append({"api": "getitem1", "sels": [("int", i, "py")]})
        k += 1
    for a in vals:
        for c in vals:
            cases.append({"api": "read", "sels": [("int", 0, "py"), ("slice", a, None, c)]})
            cases.append({"api": "read", "sels": [("slice", None, None, None), ("slice", None, a, c)]})
    return cases


def build_recordings(ctx, tdir):
    rng = ctx.rng
    nprng = np.random.default_rng(rng.randrange(2 ** 32))
    recs = []
    # fixtures (full-size channel counts)
    metas = fixture_metas()
    ns_choices = [1, 2, 3, 5, 8, 13, 21, 32, 64]
    for k, m in enumerate(metas):
        text = Path(m).read_text()
        mf = meta_facts(text)
        nc, fs = mf["nc"], mf["fs"]
        for cbin in (False, True):
            ns = rng.choice(ns_choices[2:])
            label = "fixture:%s" % Path(m).relative_to(common.REPO / "src" / "tests" / "fixtures")
            chunk = max(1, -(-ns // rng.choice([1, 2, 3, 4, 5, 6])))
            recs.append(dict(name="f%d_%d" % (k, cbin), text=text, fs=fs, ns=ns, nc=nc, cbin=cbin, chunk=chunk,
                             label=label, big=nc > 64))
    # synthetic
    kinds = ["3A", "3B2", "3B2geom", "NP2.1", "NP2.4", "NPultra", "lf", "nidq"]
    nsyn = 5 if ctx.thorough() else 1
    for rep in range(nsyn):
        for kind in kinds:
            for nch in (rng.choice([2, 3, 4, 5]), rng.choice([7, 9, 12, 16, 24])):
                text, fs, nc, exp = synth_meta(rng, kind, nch, nsync=1)
                for cbin in (False, True):
                    ns = rng.choice(ns_choices)
                    chunk = max(1, -(-ns // rng.choice([1, 2, 3, 4, 5, 6])))
                    recs.append(dict(name="s%d_%s_%d_%d" % (rep, kind, nch, cbin), text=text, fs=fs, ns=ns, nc=nc,
                                     cbin=cbin, chunk=chunk, label="synthetic:%s:%d" % (kind, nch), big=False,
                                     exp_s2v=exp))
    # structured layouts whose sort permutation is NOT an involution (so that a stored inverse
    # permutation shows) and, where the probe type has per-channel gains, all-distinct gains (so
    # that gains gathered with the wrong index show); in every tier
    mixed = [(NP1_GAINS[i % 8], NP1_GAINS[(3 * i + 1) % 8]) for i in range(12)]
    structured = [
        # NP2.4: imro cycling through the 4 shanks, 3 rows each (a 4x3 transpose)
        ("NP2.4", 12, [(i % 4, 0, i // 4) for i in range(12)], None),
        # NP2.1: three 4-channel blocks written in the order 2,0,1 (a 3-cycle of blocks)
        ("NP2.1", 12, [(0, i % 2, ((i // 4 + 2) % 3) * 2 + (i % 4) // 2) for i in range(12)], None),
        # NPultra: two sites per row written in ascending column (sorting wants descending), rows
        # rotated by 1 of 4 (reversal within rows composed with a rotation: order 4), mixed AP/LF gains
        ("NPultra", 8, [(0, 3 * (i % 2) + 2, (i // 2 + 1) % 4) for i in range(8)], mixed[:8]),
        # 3B2 / lf: rows rotated by 3, mixed gains
        ("3B2", 12, [(0, 0, (i + 3) % 12) for i in range(12)], mixed),
        ("lf", 12, [(0, 1, (i + 5) % 12) for i in range(12)], mixed),
    ]
    for kind, nch, sites, gains in structured:
        text, fs, nc, exp = synth_meta(rng, kind, nch, nsync=1, sites=list(sites), gains=gains)
        for cbin in (False, True):
            ns = rng.choice([8, 13, 21])
            recs.append(dict(name="t_%s_%d" % (kind, cbin), text=text, fs=fs, ns=ns, nc=nc, cbin=cbin,
                             chunk=rng.choice([2, 3, 5]), label="structured:%s:%d" % (kind, nch), big=False,
                             exp_s2v=exp, structured=True))
    # long recordings: ns > 64 and more than 6 chunks
    longs = [(97, 8), (300, 7)] if not ctx.thorough() else \
        [(97, 8), (300, 7), (65, 1), (129, 10), (1000, 37), (2000, 33), (513, 64), (777, 100)]
    for ns, chunk in longs:
        kind = rng.choice(["3B2", "NP2.4", "NPultra", "nidq"])
        text, fs, nc, exp = synth_meta(rng, kind, rng.choice([3, 5, 8]), nsync=1)
        for cbin in (False, True):
            recs.append(dict(name="l_%d_%d" % (ns, cbin), text=text, fs=fs, ns=ns, nc=nc, cbin=cbin, chunk=chunk,
                             label="long:%s:%d" % (kind, ns), big=False, exp_s2v=exp))
    # nidq layouts over the whole grid MN x MA x XA x DW (zero counts included: no digital word,
    # analog only, digital only), gains != 1; tiny recordings, a few calls each
    grid = [(mn, ma, xa, dw) for mn in (0, 2, 3) for ma in (0, 2, 3) for xa in (0, 1, 2, 8) for dw in (0, 1, 2)
            if mn + ma + xa + dw > 0]
    for k, lay in enumerate(grid):
        text, fs, nc, exp = synth_meta(rng, "nidq", 0, layout=lay, era3a=(k % 5 == 2))
        cb = (k % 3 == 0)
        recs.append(dict(name="g_%d" % k, text=text, fs=fs, ns=rng.choice([2, 3, 5]), nc=nc, cbin=cb, chunk=2,
                         label="nidqgrid:%d,%d,%d,%d" % lay, big=False, exp_s2v=exp, ncases=2))
    # imec streams saved WITHOUT the sync channel (snsApLfSy = N,0,0 / 0,N,0)
    for kind in ("3B2", "lf", "NP2.4", "NPultra", "3A", "NP2.1"):
        text, fs, nc, exp = synth_meta(rng, kind, rng.choice([4, 6, 9]), nsync=0)
        recs.append(dict(name="ns_%s" % kind, text=text, fs=fs, ns=rng.choice([3, 8, 13]), nc=nc,
                         cbin=(kind in ("lf", "NP2.4")), chunk=3, label="nosync:%s" % kind, big=False,
                         exp_s2v=exp, ncases=12))
    # (a) how the file is reached: links to files with their own target names, a linked folder,
    #     relative path after chdir; (b) constructor options on files whose meta duration disagrees
    #     with the frames physically present (appended frames, truncated copy, incomplete last
    #     frame), ignore_warnings on/off, open=False then open().  The expected array is always the
    #     calibrated array of the WHOLE frames present (C11: floor(size / frame size)).
    k = 0
    variants = []
    for acc in ("symlink_files", "symlink_dir", "relative"):
        for cb in (False, True):
            variants.append(dict(access=acc, cbin=cb))
    for mism in ("appended", "truncated", "partial"):
        for iw in (False, True):
            for cb in (False, True):
                if mism == "partial" and cb:
                    continue
                variants.append(dict(mismatch=mism, ignore_warnings=iw, cbin=cb))
    variants += [dict(open_later=True, cbin=False), dict(open_later=True, cbin=True, ignore_warnings=True),
                 dict(access="symlink_files", mismatch="appended", ignore_warnings=True, open_later=True, cbin=False),
                 dict(access="relative", mismatch="truncated", ignore_warnings=True, cbin=True)]
    for v in variants:
        kind = ["3B2", "NP2.4", "NPultra", "nidq", "lf", "3A"][k % 6]
        text, fs, nc, exp = synth_meta(rng, kind, rng.choice([4, 6, 9]), nsync=1)
        ns = rng.choice([17, 24, 40])
        opts = {kk: v[kk] for kk in ("access", "ignore_warnings", "open_later") if kk in v}
        mism = v.get("mismatch")
        if mism == "appended":
            opts["meta_ns"] = ns - rng.choice([1, 5, ns - 1])
        elif mism == "truncated":
            opts["meta_ns"] = ns + rng.choice([1, 7, 1000])
        elif mism == "partial":
            opts["meta_ns"] = ns + rng.choice([0, 1, -3])
            opts["extra_bytes"] = rng.choice([1, nc, 2 * nc - 1])
        recs.append(dict(name="o_%d" % k, text=text, fs=fs, ns=ns, nc=nc, cbin=v["cbin"], chunk=rng.choice([5, 9]),
                         label="opened:%s:%s" % (kind, ",".join("%s=%s" % kv for kv in sorted(opts.items()))),
                         big=False, exp_s2v=exp, ncases=12, opts=opts))
        k += 1
    # round-4 audit: the .meta file as the entry point (.bin, .cbin, both side by side: the .bin wins),
    # meta / compression header under other names given through meta_file= / ch_file=, a reader that is
    # never opened (open guard), a meta without any gain information (the constructor refuses it)
    extra = [dict(access="via_meta", cbin=False), dict(access="via_meta", cbin=True),
             dict(access="via_meta", cbin=True, keep_bin=True), dict(meta_file_arg=True, cbin=False),
             dict(meta_file_arg=True, ch_file_arg=True, cbin=True), dict(ch_file_arg=True, cbin=True),
             dict(never_open=True, cbin=False), dict(never_open=True, cbin=True),
             dict(meta_file_arg=True, meta_file_str=True, cbin=False),
             dict(meta_file_arg=True, meta_file_str=True, ch_file_arg=True, cbin=True),
             dict(meta_file_arg=True, meta_file_str=True, access="symlink_dir", cbin=True),
             dict(meta_file_arg=True, access="relative", cbin=False),
             dict(access="via_meta", meta_ns_delta=-3, ignore_warnings=True, cbin=False)]
    for j, v in enumerate(extra):
        kind = ["NP2.4", "3B2", "nidq", "NPultra", "lf", "NP2.1"][j % 6]
        text, fs, nc, exp = synth_meta(rng, kind, rng.choice([4, 6, 9]), nsync=1)
        ns = rng.choice([11, 19, 30])
        opts = {kk: v[kk] for kk in ("access", "keep_bin", "meta_file_arg", "meta_file_str", "ch_file_arg",
                                     "never_open", "ignore_warnings") if kk in v}
        if "meta_ns_delta" in v:
            opts["meta_ns"] = ns + v["meta_ns_delta"]
        recs.append(dict(name="e_%d" % j, text=text, fs=fs, ns=ns, nc=nc, cbin=v["cbin"], chunk=4,
                         label="entry:%s:%s" % (kind, ",".join("%s=%s" % kv for kv in sorted(opts.items()))),
                         big=False, exp_s2v=exp, ncases=10, opts=opts))
    text, fs, nc, exp = synth_meta(rng, "nidq", 0, layout=(1, 1, 1, 1))
    text = "\n".join(l for l in text.splitlines() if not l.startswith(("niMNGain", "niMAGain"))) + "\n"
    recs.append(dict(name="e_nogain", text=text, fs=fs, ns=5, nc=nc, cbin=False, chunk=2, label="entry:nidq:no gain keys",
                     big=False, ncases=2, opts={"expect_open_error": True}))
    # a full-size (385-channel) recording behind file links: there a reader that loses the .meta does not
    # fail, it silently becomes a flat 385-channel reader
    m385 = [m for m in metas if meta_facts(Path(m).read_text())["nc"] == 385]
    if m385:
        m = m385[len(m385) // 2]
        text = Path(m).read_text()
        for cb in (False, True):
            recs.append(dict(name="o385_%d" % cb, text=text, fs=meta_facts(text)["fs"], ns=6, nc=385, cbin=cb, chunk=3,
                             label="opened:fixture385:access=symlink_files", big=True,
                             opts={"access": "symlink_files"}))
    # flat binaries without a .meta file: Reader(file, nc=, ns=, fs=) — no geometry, no permutation
    S2V_AP = 2.34375e-06
    flats = [("int16", 1, 7, {}), ("int16", 0, 5, {}), ("float32", 0, 4, {}), ("int16", 2, 9, {}),
             ("int16", 1, 6, {"s2v": 1.5e-6}), ("float32", 0, 3, {"s2v": 0.25}),
             # nc / ns / fs / nsync guessed from the file size: 384 columns (no sync) or 385 (one sync column)
             ("int16", 0, 384, {"guess": True}), ("int16", 1, 385, {"guess": True})]
    for k, (dtype, nsync, nc, more) in enumerate(flats):
        f0 = more.get("s2v", S2V_AP if dtype == "int16" else 1.0)
        exp = [f0] * nc
        for j in range(nsync):
            exp[nc - 1 - j] = 1.0
        recs.append(dict(name="flat_%d" % k, text=None, fs=30000.0, ns=rng.choice([5, 13, 32] if nc < 300 else [3, 5, 7]),
                         nc=nc, cbin=False, chunk=1,
                         label="flat:%s:nsync%d%s" % (dtype, nsync, "".join(":%s" % kk for kk in more)),
                         big=nc > 300, exp_s2v=exp, flat=dict({"nsync": nsync, "dtype": dtype}, **more)))
    # the sweep recordings: tiny, every slice triple
    for cbin in (False, True):
        text, fs, nc, exp = synth_meta(rng, "NP2.4", 4)
        recs.append(dict(name="sweep_%d" % cbin, text=text, fs=fs, ns=5, nc=nc, cbin=cbin, chunk=2,
                         label="sweep:NP2.4:4", big=False, sweep=True, exp_s2v=exp))
    out = []
    for r in recs:
        D = rand_D(nprng, r["ns"], r["nc"])
        if r.get("flat") and r["flat"]["dtype"] != "int16":
            D = D.astype(r["flat"]["dtype"])
        rec = Recording(tdir, r["name"], r["text"], r["fs"], r["ns"], r["nc"], D, r["cbin"], r["chunk"], r["label"],
                        flat=r.get("flat"), opts=r.get("opts"))
        rec.as_str = rng.random() < 0.3
        rec.big = r["big"]
        rec.sweep = r.get("sweep", False)
        rec.exp_s2v = r.get("exp_s2v")
        rec.structured = r.get("structured", False)
        rec.ncases = r.get("ncases")
        rec.text = r["text"]
        rec.fs = r["fs"]
        rec.chunk = r["chunk"]
        out.append(rec)
    return out


GEN_CODE = {None: -1, 1: 0, 2: 1, 2.4: 2, "NPultra": 3}


def order_query(rec, sort):
    """Input of the Coq model's api 3 (raw_channel_order through C08's geometry model), from
    the meta text alone: probe generation, encoding, parsed site table, NP2.4_shank key."""
    mf = meta_facts(rec.meta_file.read_text())
    return [6, 1 if mf["nidq"] else 0, mf["gen"], mf["enc"], 1 if sort else 0, mf["split"], rec.nc,
            len(mf["sites"])] + \
        [v for st in mf["sites"] for v in st]


def model_orders(ctx, recs, stats):
    """raw_channel_order predicted by the Coq model (C08 geometry + reader_order) for every
    (recording, sort); identical meta texts are evaluated once."""
    queries, keys = [], {}
    for rec in recs:
        rec.model_order = {}
        if rec.flat is not None:
            continue
        for sort in (True, False):
            q = order_query(rec, sort)
            k = tuple(q)
            if k not in keys:
                keys[k] = len(queries)
                queries.append(q)
            rec.model_order[sort] = k
    outs = run_model(ctx, queries)
    for rec in recs:
        for sort, k in list(rec.model_order.items()):
            o = outs[keys[k]]
            rec.model_order[sort] = (list(k), o[1:] if o and o[0] == 1 else None)
    stats["order_queries"] = len(queries)
    return queries, outs


def model_gains(ctx, recs, stats):
    """volts-per-bit vector predicted by the Coq model (C09's meta-file model) for every recording
    with a meta file: list of (tag, m, s) per on-disk channel + range + maxint, or None."""
    queries, owners = [], []
    for rec in recs:
        rec.model_gain = None
        if rec.flat is None:
            queries.append([4] + [ord(ch) for ch in rec.meta_file.read_text()])
            owners.append(rec)
    for rec in recs:
        rec.model_guess = None
        if rec.flat is not None and rec.flat.get("guess"):
            queries.append([5, int(Path(rec.file).stat().st_size)])
            owners.append(rec)
    outs = run_model(ctx, queries)
    for rec, o in zip(owners, outs):
        if rec.flat is not None:
            rec.model_guess = tuple(o[1:4]) if o and o[0] == 1 and len(o) == 4 else None
            continue
        if o and o[0] == 1 and len(o) >= 5 and len(o) == 5 + 3 * o[4]:
            rec.model_gain = {"range": Fraction(o[1], 10 ** o[2]), "maxint": o[3],
                              "conv": [tuple(o[5 + 3 * i: 8 + 3 * i]) for i in range(o[4])]}
    stats["gain_queries"] = len(queries)
    return queries, outs


def gain_model_mismatch(rec, s2v):
    """None if the implementation's volts-per-bit vector is the model's (range/maxint/gain to a
    relative 1e-6; exactly 1.0 where the model says 1)."""
    m = rec.model_gain
    if m is None:
        return "the meta-file model returns no volts-per-bit vector"
    if len(m["conv"]) != len(s2v):
        return "model has %d entries, implementation %d" % (len(m["conv"]), len(s2v))
    for c, (x, (tag, gm, gs)) in enumerate(zip(s2v, m["conv"])):
        x = float(x)
        if tag == 1:
            ok = x == 1.0
            e = 1.0
        elif gm == 0:
            ok, e = not np.isfinite(x), float("inf")
        else:
            e = float(m["range"] / m["maxint"] / Fraction(gm, 10 ** gs))
            ok = np.isfinite(x) and abs(x - e) <= 1e-6 * abs(e)
        if not ok:
            return "on-disk channel %d: implementation %r, model %s (range %s / maxint %s%s)" % (
                c, x, e, m["range"], m["maxint"], "" if tag == 1 else " / gain %s" % Fraction(gm, 10 ** gs))
    return None


def s2v_clauses(rec, snap, maxint):
    """the volts-per-bit observables, all in ON-DISK channel order"""
    bad = []
    s2v, nc = snap["s2v"], rec.nc
    if not (s2v.dtype == snap["sample2volts"].dtype and np.array_equal(s2v, snap["sample2volts"])):
        bad.append("Reader.sample2volts is not channel_conversion_sample2v[type] (volts per bit by on-disk channel)")
    if rec.flat is None:
        if not np.array_equal(snap["range_volts"], s2v * maxint):
            bad.append("Reader.range_volts is not the on-disk volts-per-bit vector times maxint")
        sync_idx = list(range(nc - snap["nsync"], nc))
        if snap["type"] in ("ap", "lf") and not all(float(s2v[i]) == 1.0 for i in sync_idx):
            bad.append("sync channel has a conversion factor different from 1")
        if rec.exp_s2v is not None and not np.allclose(s2v.astype(np.float64), rec.exp_s2v, rtol=1e-5, atol=0):
            bad.append("volts-per-bit vector differs from range/maxint/gain of the on-disk channel")
    else:
        if not np.array_equal(s2v, np.asarray(rec.exp_s2v)):
            bad.append("flat reader: volts-per-bit vector is not s2v with 1.0 on the sync channels")
        if snap["order"] is not None:
            bad.append("flat reader has a channel order")
    return bad


def geometry_clauses(ctx, rec, snap, snap_u, sort, desc, maxint):
    """column i of a sorted reader = entry i of its geometry = entry order[i] of the unsorted geometry;
    (shank,row,-col) non-decreasing; order is a permutation; unsorted reader: identity.
    Works on validated snapshots only."""
    nc = rec.nc
    order = snap["order"]
    bad = []
    if order is None:
        raise ImplProblem("reader has no raw_channel_order")
    if sorted(order) != list(range(nc)):
        bad.append("raw_channel_order is not a permutation of the on-disk channels")
    g, gu = snap["geometry"], snap_u["geometry"]
    exp = expected_order(gu, nc, sort)
    if order != exp:
        bad.append("raw_channel_order is not the stable (shank,row,-col) order of the on-disk geometry"
                   if sort else "raw_channel_order is not the identity with sort=False")
    if (g is None) != (gu is None):
        bad.append("geometry present only with one sort setting")
    elif g is not None:
        n = int(g["col"].size)
        if n != int(gu["col"].size) or set(g) != set(gu):
            bad.append("sorted and unsorted geometry differ in size or keys")
        elif all(0 <= c < n for c in order[:n]):
            for k in g:
                if k == "ind":
                    continue
                if not np.array_equal(g[k], gu[k][order[:n]], equal_nan=True):
                    bad.append("geometry['%s'] entry i is not the on-disk site order[i]" % k)
            keys = [(float(g["shank"][i]), float(g["row"][i]), -float(g["col"][i])) for i in range(n)]
            if sort and any(keys[i] > keys[i + 1] for i in range(n - 1)):
                bad.append("geometry not ordered by shank, row, descending column")
        if order[n:] != list(range(n, nc)):
            bad.append("non-site (sync) columns moved")
    bad += s2v_clauses(rec, snap, maxint)
    for b in bad:
        ctx.fail(b, desc, {"kind": "geometry", "file": "cbin" if rec.cbin else "bin"})
    return exp


def d_b64(rec):
    if getattr(rec, "_b64", None) is None:
        rec._b64 = base64.b64encode(np.ascontiguousarray(rec.D).tobytes()).decode()
    return rec._b64


def describe(rec, sort, case):
    return {"label": rec.label, "flat": rec.flat, "opts": rec.opts, "as_str": rec.as_str, "meta_text": rec.text, "fs": rec.fs, "ns": rec.ns, "nc": rec.nc,
            "cbin": rec.cbin, "chunk": rec.chunk, "sort": sort, "api": case["api"] if case else None,
            "sels": case["sels"] if case else None,
            "call": call_str(case) if case else None, "D_dtype": str(rec.D.dtype), "D_int16_b64": d_b64(rec)}


def call_str(case):
    api, sels = case["api"], case["sels"]
    ss = [sel_str(s) for s in sels]
    if api == "read":
        return "sr.read(%s, %s, sync=False)" % (ss[0], ss[1])
    if api == "read_samples" and case.get("defaults"):
        return "sr.%s()[0]" % case["defaults"]
    if api == "read_samples":
        return "sr.read_samples(%s, %s%s)[0]" % (sels[0][1], sels[0][2], (", " + ss[1]) if len(ss) > 1 else "")
    if api == "getitem1":
        return "sr[%s]" % ss[0]
    return "sr[%s]" % ", ".join(ss) if len(ss) != 1 else "sr[(%s,)]" % ss[0]


def model_eligible(rec, case):
    """np.integer sample selectors on .cbin take a code path (mtscomp's fallback) that the
    model does not describe; they go to the oracle only (known finding F-C01-c)."""
    api, sels = case["api"], case["sels"]
    if rec.cbin and sels and sels[0][0] == "int" and sels[0][2] == "np":
        return False
    if api == "getitemk" and any(s[0] == "int" and s[2] == "np" for s in sels):
        return False
    if rec.flat is not None and len(sels) == 2 and sel_invalid(sels[0], rec.ns) and sel_invalid(sels[1], rec.nc):
        return False      # no channel order on a flat reader: the sample selector's error comes first there
    return True


def sync_pair(sr, case, obs):
    """read(nsel, csel) / read_samples(...) with the default sync=True: the first element is the
    sync=False result bit for bit, the second is read_sync(nsel) (whose content is C10's)."""
    sels = case["sels"]
    p = [to_py(x) for x in sels]
    nsel = p[0] if case["api"] == "read" else slice(sels[0][1], sels[0][2])

    def both():
        if case["api"] == "read":
            return sr.read(p[0], p[1])
        return sr.read_samples(sels[0][1], sels[0][2], p[1] if len(p) > 1 else None)
    try:
        with warnings.catch_warnings(), time_limit(20):
            warnings.simplefilter("ignore")
            ref = sr.read_sync(nsel)
        ref_err = None
    except BaseException as e:      # noqa
        ref, ref_err = None, type(e).__name__
    try:
        with warnings.catch_warnings(), time_limit(20):
            warnings.simplefilter("ignore")
            r = both()
        err = None
    except BaseException as e:      # noqa
        r, err = None, type(e).__name__
    if obs[0] == "err":
        return None if err is not None else "sync=False raises %s but sync=True returned" % obs[1]
    if err is not None:
        return None if (ref_err is not None) else "sync=True raised %s although read_sync and the data read succeed" % err
    if ref_err is not None:
        return "read_sync raises %s but read(sync=True) returned" % ref_err
    if not (isinstance(r, tuple) and len(r) == 2):
        return "read(sync=True) did not return a pair"
    d = observe(lambda: r[0])
    if d[0] != "ok" or tuple(d[1]) != tuple(obs[1]) or d[2] != obs[2] or not np.array_equal(d[3], obs[3]):
        return "data element of read(sync=True) differs from the sync=False result"
    a, b = np.asarray(r[1]), np.asarray(ref)
    if a.shape != b.shape or a.dtype != b.dtype or not np.array_equal(a, b):
        return "second element of read(sync=True) differs from read_sync(nsel)"
    return None


def guarded(ctx, what, desc, f, tags=None):
    """Run a harness step that looks at implementation output; an unexpected exception in it is
    reported as a disagreement with the input (never a traceback / harness crash)."""
    try:
        return f()
    except ImplProblem as e:
        ctx.fail(str(e), desc, dict(tags or {}, kind="attribute"))
    except Exception as e:      # noqa
        tb = traceback.format_exc(limit=4)
        ctx.disagree("%s: unexpected %s: %s (the implementation returned something the harness cannot "
                     "interpret)\n%s" % (what, type(e).__name__, e, tb[-600:]), desc, dict(tags or {}, kind="harness"))
    return None


def check_recording(ctx, rec, stats, work):
    rng = ctx.rng
    readers = {}
    ftag = {"file": "cbin" if rec.cbin else "bin"}
    try:
        for sort in (True, False):
            readers[sort] = rec.open(sort)
    except BaseException as e:      # noqa
        if rec.opts.get("expect_open_error"):
            stats["open_refused_as_modelled"] = stats.get("open_refused_as_modelled", 0) + 1
            if rec.model_gain is not None:
                ctx.disagree("the reader refuses a meta for which the meta-file model gives a gain vector",
                             describe(rec, None, None), dict(ftag, kind="open"))
        else:
            ctx.fail("Reader could not open the mock recording: %r" % (e,), describe(rec, None, None),
                     dict(ftag, kind="open", meta_file="str" if rec.opts.get("meta_file_str") else "default",
                          error=type(e).__name__))
        for r in readers.values():
            try:
                r.close()
            except BaseException:   # noqa
                pass
        return
    try:
        if rec.opts.get("expect_open_error"):
            ctx.disagree("the reader opened a recording whose meta has no gain information (the meta-file "
                         "model returns no volts-per-bit vector)", describe(rec, None, None), dict(ftag, kind="open"))
            return
        maxint = meta_facts(rec.text)["maxint"] if rec.flat is None else None
        snaps = {}
        for sort in (True, False):
            snaps[sort] = guarded(ctx, "reading the reader's attributes", describe(rec, sort, None),
                                  lambda: snapshot(readers[sort], rec), ftag)
        if snaps[True] is None or snaps[False] is None:
            return
        if rec.cbin:
            rec.bounds = snaps[True]["bounds"]
        for sort in (True, False):
            sr, snap = readers[sort], snaps[sort]
            desc0 = describe(rec, sort, None)
            s2v = snap["s2v"]
            if rec.flat is not None:
                if sort is False:
                    continue                      # no geometry, sort has no effect
                exp_order = list(range(rec.nc))
                order = exp_order
                for b in s2v_clauses(rec, snap, None):
                    ctx.fail(b, desc0, {"kind": "flat"})
                if rec.flat.get("guess"):
                    got = (snap["nc"], snap["ns"], snap["nsync"])
                    stats["guess_compared"] = stats.get("guess_compared", 0) + 1
                    if rec.model_guess != got:
                        ctx.disagree("shape guessed from the file size: implementation (nc, ns, nsync) = %s, model %s"
                                     % (got, rec.model_guess), desc0, {"kind": "guess"})
            else:
                exp_order = guarded(ctx, "geometry clauses", desc0,
                                    lambda: geometry_clauses(ctx, rec, snap, snaps[False], sort, desc0, maxint), ftag)
                if exp_order is None:
                    continue
                impl_order = snap["order"]
                q, order = rec.model_order[sort]
                if order is None:
                    ctx.disagree("meta outside the geometry model's domain (model returned None)",
                                 desc0, {"kind": "order"})
                    order = impl_order
                elif order != impl_order:
                    k = next((i for i, (a, b) in enumerate(zip(order, impl_order)) if a != b), 0)
                    ctx.disagree("raw_channel_order: implementation and Coq model (C08 geometry index + "
                                 "reader_order) differ at column %d (model %s, implementation %s)" % (
                                     k, order[k:k + 4], impl_order[k:k + 4]), desc0, {"kind": "order"})
                stats["order_compared"] += 1
                if sort:
                    why = gain_model_mismatch(rec, s2v)
                    stats["gain_compared"] += 1
                    if why:
                        ctx.disagree("volts-per-bit vector: implementation and Coq model (C09 meta-file model) "
                                     "differ: " + why, desc0, {"kind": "gain"})
            noninv = any(order[order[j]] != j for j in range(rec.nc))
            nonuni = len(set(float(x) for x in s2v[:rec.nc - snap["nsync"]])) > 1
            stats["readers_noninvolutive_order"] += noninv
            stats["readers_noninvolutive_order_and_nonuniform_gains"] += noninv and nonuni
            stats["max_ns"] = max(stats["max_ns"], rec.ns)
            stats["max_chunks"] = max(stats["max_chunks"], len(rec.bounds) - 1)
            if getattr(rec, "structured", False) and sort and not noninv:
                ctx.disagree("harness: structured layout did not give a non-involutive order", desc0)
            # the whole calibrated array in the order the property promises (gains by ON-DISK channel)
            CS = rec.D.astype(np.float32)[:, exp_order]
            CS = (CS.astype(s2v.dtype) * s2v[exp_order]).astype(np.float32)
            if rec.sweep:
                vals = [None, -7, -6, -5, -4, -2, -1, 0, 1, 2, 4, 5, 6, 7] if ctx.thorough() else \
                    [None, -6, -5, -2, -1, 0, 1, 2, 4, 5, 6]
                cases = sweep_cases(rec.ns, rec.nc, vals) if sort else []
            else:
                n = (60 if ctx.thorough() else 12) if rec.big else (150 if ctx.thorough() else 30)
                if rec.ncases:
                    n = rec.ncases * (3 if ctx.thorough() else 1)
                cases = gen_cases(rng, rec.ns, rec.nc, rec.cbin, n, rec.big)
                if rec.flat is not None:
                    # read_samples / read(sync=True) need the meta (read_sync; see notes F-C01-e): not used here
                    cases = [c for c in cases if c["api"] != "read_samples"]
                elif rec.ns * rec.nc <= 3000:
                    # the calls with every argument left at its default: read_samples() and read()
                    for dflt in ("read_samples", "read"):
                        cases.append({"api": "read_samples", "sels": [("slice", 0, 10000, None)], "defaults": dflt})
            state = {"prev": None}
            for case in cases:
                do_sync = (rec.flat is None and not rec.opts.get("never_open") and
                           case["api"] in ("read", "read_samples") and rng.random() < 0.35)
                guarded(ctx, "examining " + call_str(case), describe(rec, sort, case),
                        lambda: one_case(ctx, rec, sr, sort, case, CS, s2v, order, do_sync, stats, work, state), ftag)
            # the reader and the file are unchanged by the reads
            guarded(ctx, "re-reading the reader's attributes", desc0,
                    lambda: unchanged_clauses(ctx, rec, sr, snap, desc0), ftag)
    finally:
        for r in readers.values():
            try:
                r.close()
            except BaseException:   # noqa
                pass


def read_sync_raises(sr, nsel):
    try:
        with warnings.catch_warnings(), time_limit(20):
            warnings.simplefilter("ignore")
            sr.read_sync(nsel)
        return None
    except BaseException as e:      # noqa
        return type(e).__name__


def snap_equal(a, b):
    for k in ("s2v", "sample2volts", "range_volts"):
        if not (a[k].dtype == b[k].dtype and np.array_equal(a[k], b[k], equal_nan=True)):
            return "reader.%s" % ("channel_conversion_sample2v" if k == "s2v" else k)
    if a["order"] != b["order"]:
        return "reader.raw_channel_order"
    if (a["geometry"] is None) != (b["geometry"] is None):
        return "reader.geometry"
    if a["geometry"] is not None:
        if set(a["geometry"]) != set(b["geometry"]):
            return "reader.geometry keys"
        for k in a["geometry"]:
            if not np.array_equal(a["geometry"][k], b["geometry"][k], equal_nan=True):
                return "reader.geometry[%r]" % k
    return None


def unchanged_clauses(ctx, rec, sr, snap0, desc):
    """after all the reads: same attributes, same bytes on disk"""
    snap1 = snapshot(sr, rec)
    why = snap_equal(snap0, snap1)
    if why:
        ctx.fail("%s changed while reading (state mutated in place)" % why, desc,
                 {"kind": "purity", "file": "cbin" if rec.cbin else "bin"})
    if hashlib.sha1(Path(rec.file).read_bytes()).hexdigest() != rec.file_sha1:
        ctx.fail("the recording file was modified by reading", desc,
                 {"kind": "purity", "file": "cbin" if rec.cbin else "bin"})


def one_case(ctx, rec, sr, sort, case, CS, s2v, order, do_sync, stats, work, state=None):
    keep = {}
    obs = run_impl(sr, case, keep)
    if keep.get("args_modified"):
        ctx.fail("the call modified a selector object passed by the caller — " + call_str(case),
                 describe(rec, sort, case), {"kind": "purity", "file": "cbin" if rec.cbin else "bin"})
    if state is not None:
        prev = state.get("prev")
        if prev is not None:
            arr, bits, pcase = prev
            try:
                now = np.ascontiguousarray(arr).reshape(-1).view(np.uint32)
                changed = now.shape != bits.shape or not np.array_equal(now, bits)
            except Exception:   # noqa
                changed = True
            if changed:
                ctx.fail("an array returned by an earlier call (%s) changed when %s was executed: results "
                         "share memory with reader state" % (call_str(pcase), call_str(case)),
                         describe(rec, sort, pcase), {"kind": "purity", "file": "cbin" if rec.cbin else "bin"})
        raw = keep.get("raw")
        state["prev"] = (raw, obs[3].copy(), case) if (raw is not None and obs[0] == "ok" and obs[3] is not None
                                                        and raw.dtype == np.float32) else None
    if case["api"] == "read_samples" and obs[0] == "err":
        # read_samples = read(slice, channels, sync=True): when read_sync itself (C10's, e.g. nidq with 0 or
        # >= 2 digital words) raises that exception, the data part is examined through sync=False
        sels = case["sels"]
        if read_sync_raises(sr, slice(sels[0][1], sels[0][2])) == obs[1]:
            alt = {"api": "read", "sels": [sels[0], sels[1] if len(sels) > 1 else ("slice", None, None, None)]}
            obs2 = run_impl(sr, alt)
            if obs2[0] != "err":
                obs = obs2
                stats["read_samples_blocked_by_read_sync"] = stats.get("read_samples_blocked_by_read_sync", 0) + 1
    ftag = {"file": "cbin" if rec.cbin else "bin"}
    stats["api"][case["api"]] = stats["api"].get(case["api"], 0) + 1
    out = obs[0] if obs[0] != "err" else obs[1]
    stats["outcome"][out] = stats["outcome"].get(out, 0) + 1
    for s in case["sels"][:2]:
        kind = s[0] if s[0] != "slice" else ("slice_neg" if (s[3] or 1) < 0 else "slice")
        stats["selector"][kind] = stats["selector"].get(kind, 0) + 1
    stats["file"][ftag["file"]] += 1
    stats["sorted" if sort else "unsorted"] += 1
    if in_property_domain(rec, case):
        why = oracle(rec, CS, obs, case)
        stats["oracle_evaluations"] += 1
        if why:
            ctx.fail(why + " — " + call_str(case), describe(rec, sort, case),
                     dict(ftag, kind="read", api=case["api"], selector=selector_class(rec, case)))
    if model_eligible(rec, case):
        work.append((rec, sort, case, obs, s2v, enc_case(rec, order, case)))
    if do_sync and TIMEOUTS[0] < 5:
        why = sync_pair(sr, case, obs)
        stats["sync_pair_checks"] += 1
        if why:
            ctx.fail(why + " — " + call_str(case), describe(rec, sort, case),
                     dict(ftag, kind="sync_pair", api=case["api"]))
    if obs[0] == "ok" and obs[3] is not None and obs[3].size >= 2:
        stats["nontrivial"].add((rec.label, rec.cbin, sort, call_str(case)))


def run_model(ctx, inputs, nproc=4):
    """The extracted model on all inputs.  The binary may be in the middle of a rebuild by a
    concurrent check (exec fails with 'Permission denied' / 'Text file busy'): retry."""
    last = None
    for attempt in range(6):
        try:
            return common.Extracted(PROP).run_many(inputs, nproc=nproc) if inputs else []
        except Exception as e:      # noqa
            last = e
            time.sleep(3 + 4 * attempt)
    raise RuntimeError("the extracted model could not be run after 6 attempts: %s" % (last,))


def run(ctx):
    TIMEOUTS[0] = 0
    os.environ["TQDM_DISABLE"] = "1"
    logging.disable(logging.CRITICAL)
    common.proof_obligations(ctx, whitelist=sorted(common.STDLIB_AXIOMS), coqchk_admit=["IBL.C01.SyncSweep"])
    stats = {"gain_compared": 0, "order_compared": 0, "sync_pair_checks": 0, "api": {}, "outcome": {}, "selector": {}, "file": {"bin": 0, "cbin": 0}, "sorted": 0, "unsorted": 0,
             "oracle_evaluations": 0, "nontrivial": set(), "recordings": 0, "kinds": {},
             "readers_noninvolutive_order": 0, "readers_noninvolutive_order_and_nonuniform_gains": 0,
             "max_ns": 0, "max_chunks": 0}
    work = []
    tdir = common.tmpdir("C01_")
    try:
        recs = build_recordings(ctx, tdir)
        oq, oo = model_orders(ctx, recs, stats)
        gq, go = model_gains(ctx, recs, stats)
        oq, oo = oq + gq, oo + go
        for rec in recs:
            check_recording(ctx, rec, stats, work)
            stats["recordings"] += 1
            stats["kinds"][rec.label.split(":")[0]] = stats["kinds"].get(rec.label.split(":")[0], 0) + 1
    finally:
        shutil.rmtree(tdir, ignore_errors=True)
    # ---- model on every eligible case (extracted), implementation compared cell by cell
    inputs = [w[5] for w in work]
    model_out = run_model(ctx, inputs)
    for (rec, sort, case, obs, s2v, _), out in zip(work, model_out):
        try:
            why = compare_model(rec, s2v, obs, decode_model(out))
        except Exception as e:      # noqa
            why = "comparison impossible (%s: %s)" % (type(e).__name__, e)
        if why:
            ctx.disagree("model and implementation differ: %s — %s" % (why, call_str(case)),
                         describe(rec, sort, case),
                         {"kind": "read", "file": "cbin" if rec.cbin else "bin", "api": case["api"],
                          "selector": selector_class(rec, case)})
    # ---- the same `run`, evaluated by the kernel on a sample (ties the extraction to the definitions)
    # the order queries take part in the kernel sample too
    nwork = len(inputs)
    inputs = inputs + oq
    model_out = model_out + oo
    idx = [i for i in range(len(inputs)) if len(inputs[i]) + len(model_out[i]) < 1500]
    small = sorted(idx, key=lambda i: len(inputs[i]) + len(model_out[i]))
    pick = list(dict.fromkeys(small[:30] + ctx.rng.sample(idx, min(len(idx), 90 if ctx.thorough() else 50))))
    terms = [common.flat_cases_term(i, inputs[i], model_out[i]) for i in pick]
    bad = common.coq_mismatches(PROP, HEADER, terms, shard=40) if terms else []
    for i in bad:
        ctx.disagree("kernel-evaluated model differs from the extracted model",
                     describe(*work[i][:3]) if i < nwork else {"order_query": inputs[i]})
    ctx.coverage["model_evaluations_extracted"] = len(inputs)
    ctx.coverage["model_evaluations_kernel"] = len(pick)
    samples = []
    for (rec, sort, case, obs, _, _), out in list(zip(work, model_out))[:: max(1, len(work) // 7)]:
        samples.append({"recording": rec.label, "cbin": rec.cbin, "ns": rec.ns, "nc": rec.nc, "sort": sort,
                        "call": call_str(case), "implementation": [str(x) for x in obs[:2]],
                        "model": out[:8]})
    nontrivial = len(stats.pop("nontrivial"))
    return common.finish(
        ctx, TRUSTED,
        rule="mock recordings (every fixture .meta and synthetic metas with permuted site maps and non-uniform "
             "gains; random int16 incl. extremes; .bin and .cbin with 1-6 chunks; sort on/off) x selector pairs "
             "(ints, slices over boundary values incl. negative/zero steps, index lists/arrays, np.int64, "
             "tuples of wrong length) through Reader.read / read_samples / __getitem__; every case: NumPy-"
             "indexing oracle on the implementation + Coq model (cells as (sample, disk channel, gain index), "
             "one float multiplication by NumPy, bitwise); non-trivial = result with >= 2 cells; distinct by "
             "(recording, sort, call)",
        samples=samples, evaluations=len(work), distinct_nontrivial=nontrivial,
        extra={"input_distribution": stats, "exhaustive": False},
        assumptions=["lossless chunk decompression (C02)", "raw_channel_order / s2v taken from the reader as data"])


def replay(ctx, data):
    os.environ["TQDM_DISABLE"] = "1"
    logging.disable(logging.CRITICAL)
    inp = data.get("input") or (data.get("correspondence_disagreements") or [{}])[0].get("input")
    if not inp or not inp.get("label"):
        print(json.dumps(data, indent=1)[:3000])
        return 1
    if not inp.get("sels"):      # a clause about the reader itself (order / geometry): use a neutral call
        inp = dict(inp, api="read", sels=[("slice", None, None, None), ("slice", None, None, None)])
        print("recorded failure:", data.get("what") or (data.get("correspondence_disagreements") or [{}])[0].get("what"))
    case = {"api": inp["api"], "sels": [tuple(s) for s in inp["sels"]]}
    tdir = common.tmpdir("C01_")
    try:
        D = np.frombuffer(base64.b64decode(inp["D_int16_b64"]), dtype=np.dtype(inp.get("D_dtype", "int16"))
                          ).reshape(inp["ns"], inp["nc"]).copy()
        rec = Recording(tdir, "replay", inp["meta_text"], inp["fs"], inp["ns"], inp["nc"], D, inp["cbin"],
                        inp["chunk"], inp["label"], flat=inp.get("flat"), opts=inp.get("opts"))
        rec.as_str = bool(inp.get("as_str"))
        print("how the recording is reached / opened:", rec.opts or "directly, default options")
        rec.text, rec.exp_s2v = inp["meta_text"], None
        try:
            sr, su = rec.open(inp["sort"]), rec.open(False)
            snap, snap_u = snapshot(sr, rec), snapshot(su, rec)
        except Exception as e:      # noqa
            print("the reader cannot be opened / examined: %s: %s" % (type(e).__name__, e))
            return 1
        if rec.cbin:
            rec.bounds = snap["bounds"]
        s2v = snap["s2v"]
        attr_bad = []
        if rec.flat is not None:
            order = exp_order = list(range(rec.nc))
        else:
            attr_bad = s2v_clauses(rec, snap, meta_facts(rec.text)["maxint"])
            impl_order = snap["order"] or []
            o = run_model(ctx, [order_query(rec, inp["sort"])], nproc=1)[0]
            order = o[1:] if o and o[0] == 1 else impl_order
            print("raw_channel_order: model == implementation:", order == impl_order)
            exp_order = expected_order(snap_u["geometry"], rec.nc, inp["sort"])
            if impl_order != exp_order:
                attr_bad.append("raw_channel_order is not the (shank,row,-col) order of the on-disk geometry")
        print("reader attribute clauses failing:", attr_bad or "none")
        CS = rec.D.astype(np.float32)[:, exp_order]
        CS = (CS.astype(s2v.dtype) * s2v[exp_order]).astype(np.float32)
        obs = run_impl(sr, case)
        print("call:", call_str(case), "on", rec.label, "cbin" if rec.cbin else "bin", "ns=%d nc=%d sort=%s" % (
            rec.ns, rec.nc, inp["sort"]))
        print("implementation:", obs[:3], None if len(obs) < 4 or obs[3] is None else obs[3][:8])
        why = oracle(rec, CS, obs, case) if in_property_domain(rec, case) else None
        print("property oracle (NumPy indexing of the calibrated array):", why or "holds")
        dis = None
        if model_eligible(rec, case):
            out = run_model(ctx, [enc_case(rec, order, case)], nproc=1)[0]
            dis = compare_model(rec, s2v, obs, decode_model(out))
            print("model:", out[:12], "->", dis or "agrees with the implementation")
        if rec.flat is None and case["api"] in ("read", "read_samples"):
            sp = sync_pair(sr, case, obs)
            print("read(sync=True) pair:", sp or "consistent with read(sync=False) and read_sync")
            why = why or sp
        if rec.flat is None and order != snap["order"]:
            dis = dis or "channel order differs"
        sr.close()
        su.close()
        return 1 if (why or dis or attr_bad) else 0
    except Exception as e:      # noqa
        print("replay could not be completed: %s: %s" % (type(e).__name__, e))
        return 1
    finally:
        shutil.rmtree(tdir, ignore_errors=True)
