"""Stand-in for the two pyfftw entry points used by ibldsp.voltage.decompress_destripe_cbin
(pyfftw is not installed in this sandbox).  NumPy rfft/irfft along the last axis, same call
protocol: FFTW(input, output, axes=(1,), direction=...) returns a callable obj(arr) -> transform.
Single precision in / out like the real stencils (float32 <-> complex64)."""
import numpy as np


def empty_aligned(shape, dtype="float64", **kwargs):
    return np.empty(shape, dtype=dtype)


class FFTW:
    def __init__(self, input_array, output_array, axes=(-1,), direction="FFTW_FORWARD", threads=1, **kw):
        self.axes = axes
        self.direction = direction
        self.n_in = input_array.shape
        self.n_out = output_array.shape
        self.out_dtype = output_array.dtype

    def __call__(self, arr=None, *a, **kw):
        ax = self.axes[0]
        if self.direction == "FFTW_FORWARD":
            return np.fft.rfft(arr, axis=ax).astype(self.out_dtype)
        return np.fft.irfft(arr, n=self.n_out[ax], axis=ax).astype(self.out_dtype)
