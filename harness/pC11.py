"""C11 — truncated / inconsistent binaries: proofs in coq/C11 (Flocq binary64 model of
Reader.open, Reader.ns, OnlineReader.ns), correspondence and property oracle against
spikeglx.Reader / spikeglx.OnlineReader on real files of every truncated length."""
import contextlib
import io
import warnings
import json
import logging
import math
import os
import random
import shutil
import sys
from pathlib import Path

import numpy as np

import common

PROP = "C11"
HEADER = "From Coq Require Import ZArith List.\nImport ListNotations.\nFrom IBL.C11 Require Import Run."
AXIOMS = ["ClassicalDedekindReals.sig_forall_dec", "ClassicalDedekindReals.sig_not_dec",
          "FunctionalExtensionality.functional_extensionality_dep", "Classical_Prop.classic"]
TRUSTED = [
    "Coq 8.16.1 kernel + vm_compute (no native_compute); Flocq 4.1 BinarySingleNaN as the definition of IEEE-754 "
    "binary64 round-to-nearest-even; standard-library real-number axioms (sig_forall_dec, sig_not_dec, "
    "functional_extensionality_dep, classic) as listed per theorem",
    "hand-written model coq/C11/Model.v of spikeglx.Reader.open / Reader.ns / OnlineReader.ns / Reader.rl, tied to "
    "/repo/src by this run's correspondence (outcome class, ns, shape, warning, rewritten fileTimeSecs and rl bit-exact)",
    "host facts: CPython float = IEEE binary64 RNE; int/int true division correctly rounded; np.round = rint; "
    "np.memmap refuses a mapping longer than the file; mtscomp.Reader.shape is what the .ch file announces",
    "harness/pC11.py generator, canonicaliser and oracle; sparse files stand in for multi-GB recordings",
    "extraction (Require Extraction, ExtrOcamlBasic only; Z, positive kept inductive), harness/driver.ml, "
    "ocamlfind ocamlopt; a sample of the same cases is re-evaluated by the kernel (vm_compute)",
]

FS_TEXTS = ["30000", "2500", "30000.123", "2500.0208333", "30003.0003", "30000.390639481"]
FS_QUICK = FS_TEXTS[:4]

NIDQ_META = """acqMnMaXaDw=0,0,{na},1
appVersion=20190327
fileCreateTime=2019-08-15T17:37:20
fileName=D:/data/c_g0_t0.nidq.bin
{size_line}{time_line}firstSample=0
gateMode=Immediate
nSavedChans={nc}
niAiRangeMax=5
niAiRangeMin=-5
niMAGain=1
niMNGain=200
niMuxFactor=1
niSampRate={fs}
snsMnMaXaDw=0,0,{na},1
snsSaveChanSubset=all
trigMode=Immediate
typeImEnabled=2
typeNiEnabled=1
typeThis=nidq
userNotes=
~snsChanMap=(0,0,1,1,1)(XA0;0:0)(XD0;1:1)
~snsShankMap=(1,2,0)
"""

_IMEC_TEMPLATE = None


def imec_template():
    global _IMEC_TEMPLATE
    if _IMEC_TEMPLATE is None:
        f = common.REPO / "src" / "tests" / "fixtures" / "sample3B_g0_t0.imec1.ap.meta"
        _IMEC_TEMPLATE = [l for l in f.read_text().splitlines()
                          if not l.startswith(("fileSizeBytes=", "fileTimeSecs=", "imSampRate="))]
    return _IMEC_TEMPLATE


def meta_text(kind, nc, fs_text, fts_text, size_val):
    size_line = "" if size_val is None else "fileSizeBytes=%d\n" % size_val
    time_line = "" if fts_text is None else "fileTimeSecs=%s\n" % fts_text
    if kind == "nidq":
        return NIDQ_META.format(na=nc - 1, nc=nc, fs=fs_text, size_line=size_line, time_line=time_line)
    assert nc == 385
    lines = list(imec_template())
    return "\n".join(lines[:4]) + "\n" + size_line + time_line + "imSampRate=%s\n" % fs_text + \
        "\n".join(lines[4:]) + "\n"


def ftext(x):
    """positional, shortest round-trip text of a float, as a SpikeGLX meta file would hold it"""
    t = np.format_float_positional(float(x), trim="-")
    assert float(t) == float(x)
    return t


def f2me(x):
    """exact (m, e) with x = m * 2^e"""
    if x == 0:
        return 0, 0
    m, e = math.frexp(x)
    return int(m * (1 << 53)), e - 53


def enc_float(x):
    """same canonical encoding as coq/C11/Run.v enc_float"""
    x = float(x)
    if x != x:
        return [2, 0, 0, 0]
    s = 1 if math.copysign(1.0, x) < 0 else 0
    if x == 0:
        return [0, s, 0, 0]
    if math.isinf(x):
        return [1, s, 0, 0]
    m, e = math.frexp(abs(x))
    e -= 53
    m = int(m * (1 << 53))
    if e < -1074:
        m >>= (-1074 - e)
        e = -1074
    return [3, s, m, e]


class WarnCatcher(logging.Handler):
    def __init__(self):
        super().__init__(level=logging.WARNING)
        self.n = 0

    def emit(self, record):
        if "checkout" in record.getMessage():
            self.n += 1


_CATCH = WarnCatcher()


def setup_logging():
    lg = logging.getLogger("ibllib")
    if _CATCH not in lg.handlers:
        lg.addHandler(_CATCH)
    lg.propagate = False
    lg.setLevel(logging.WARNING)


# KeyError has no counterpart in the model (since repair 381463f no modelled path raises it):
# code 4 can never equal a model output, so a KeyError is always a disagreement (and an oracle failure in-domain)
EXC_CODE = {"ValueError": 1, "OverflowError": 2, "TypeError": 3, "KeyError": 4, "AssertionError": 5}


DTYPES = {"int16": 2, "uint16": 2, "int8": 1, "uint8": 1, "int32": 4, "float32": 4, "int64": 8, "float64": 8}


def isz_of(c):
    return DTYPES[c.get("dtype", "int16")]


def fbytes(c):
    """bytes per frame"""
    return isz_of(c) * c["nc"]


class Data:
    """deterministic content; file of length n = first n bytes"""

    def __init__(self, rng, n):
        self.buf = rng.randbytes(n)

    def frames(self, ns, nc, dtype="int16"):
        return np.frombuffer(self.buf[:ns * nc * DTYPES[dtype]], dtype=np.dtype(dtype)).reshape(ns, nc)


def values_ok(full, sr, data, m, nc, dtype, order=None):
    """do the values read (volts, float32) equal the first m frames of the file?"""
    s2v = np.asarray(sr.sample2volts, dtype=np.float64)
    fr = data.frames(m, nc, dtype)
    if order is not None:
        fr, s2v = fr[:, order], s2v[order]
    if dtype == "int16":
        return np.array_equal(np.rint(full.astype(np.float64) / s2v).astype(np.int64), fr.astype(np.int64))
    if dtype.startswith("float"):
        return True         # random bytes are mostly NaN/inf/denormal floats: shape only
    want = fr.astype(np.float32).astype(np.float64)
    return bool(np.allclose(full.astype(np.float64) / s2v, want, rtol=1e-5, atol=0.5))


def reader_kwargs(c):
    kw = {"ignore_warnings": bool(c["iw"])}
    if c.get("dtype", "int16") != "int16":
        kw["dtype"] = c["dtype"] if c.get("dtype_as", "str") == "str" else np.dtype(c["dtype"])
    return kw


def observe_reader(sr, c, data, obs):
    """everything the property talks about, from an opened reader"""
    ns, nc = int(sr.ns), int(sr.nc)
    obs["ns"], obs["nc"] = ns, nc
    shp = tuple(int(x) for x in sr.shape)
    obs["shape"] = shp
    obs["rl"] = float(sr.rl)
    fa = sr.meta.get("fileTimeSecs") if sr.meta is not None else None
    obs["fts_after"] = None if fa is None else float(fa)
    bad = []
    # reads: whole array, last frame, over-long slice; values against the file prefix
    try:
        if c.get("sparse"):
            if ns > 0:
                last = sr[ns - 1, :]
                if last.shape != (nc,) or np.any(last != 0):
                    bad.append("last frame of the exposed array is not the file's content")
                over = sr[max(0, ns - 2):ns + 7, :]
                if over.shape != (min(ns, 2), nc):
                    bad.append("slice reaching past the end is not clipped to the exposed frames")
        else:
            full = sr[:, :] if ns > 0 else np.zeros((0, nc), np.float32)
            if full.shape != (ns, nc):
                bad.append("full read has shape %s, exposed shape is %s" % (full.shape, (ns, nc)))
            elif ns * nc * isz_of(c) <= len(data.buf):
                order = getattr(sr, "raw_channel_order", np.arange(nc))
                dt = c.get("dtype", "int16")
                if not values_ok(full, sr, data, ns, nc, dt, order):
                    bad.append("values read are not the file's prefix")
                if ns > 0:
                    last = sr[ns - 1, :]
                    if last.shape != (nc,) or not np.array_equal(last, full[-1], equal_nan=True):
                        bad.append("last exposed frame differs from the file")
                    over = sr[0:ns + 9, :]
                    if over.shape != (ns, nc):
                        bad.append("slice reaching past the end is not clipped to the exposed frames")
            else:
                bad.append("reader exposes more data than the file holds")
    except Exception as e:      # the property: no read raises
        bad.append("read raised %s" % type(e).__name__)
    obs["read_bad"] = bad


def impl_flat(td, c, data):
    """c: reader, iw, kind, nc, nbytes, fs_text, fts_text|None, size_val|None, sparse"""
    import spikeglx
    stem = "c_g0_t0.nidq" if c["kind"] == "nidq" else "c_g0_t0.imec1.ap"
    fbin = td / (stem + ".bin")
    fmeta = td / (stem + ".meta")
    for f in td.iterdir():
        f.unlink()
    if c.get("sparse"):
        with open(fbin, "wb") as fid:
            fid.truncate(c["nbytes"])
    else:
        fbin.write_bytes(data.buf[:c["nbytes"]])
    kw = reader_kwargs(c)
    if c.get("meta_arg"):          # the meta file under an unrelated name, given through meta_file=
        fmeta = td / "elsewhere_described.meta"
        kw["meta_file"] = fmeta if c["meta_arg"] == "path" else Path(str(fmeta))
    if c.get("sort") is False:
        kw["sort"] = False
    fmeta.write_text(meta_text(c["kind"], c["nc"], c["fs_text"], c["fts_text"], c["size_val"]))
    cls = spikeglx.OnlineReader if c["reader"] == "online" else spikeglx.Reader
    _CATCH.n = 0
    obs = {}
    sr = None
    entry = fmeta if c.get("entry") == "meta" else fbin     # Reader(<the .meta file>) resolves the .bin itself
    try:
        sr = cls(str(entry) if c.get("as_str") else entry, **kw)
    except (ValueError, OverflowError, TypeError, KeyError) as e:
        obs["exc"] = type(e).__name__
        obs["exc_msg"] = str(e)[:120]
        return obs
    try:
        obs["warned"] = 1 if _CATCH.n else 0
        obs["fs"] = float(sr.fs)
        observe_reader(sr, c, data, obs)
    finally:
        try:
            sr.close()
        except Exception:
            pass
    return obs


def build_cbin_base(td, kind, nc, nframes, csz, data):
    """compress nframes frames in chunks of csz frames; returns path of base .cbin"""
    import mtscomp
    base = td / "base"
    base.mkdir()
    fb = base / "b.bin"
    fb.write_bytes(data.buf[:nframes * nc * 2])
    with contextlib.redirect_stderr(io.StringIO()):      # tqdm progress bar
        mtscomp.compress(fb, out=base / "b.cbin", outmeta=base / "b.ch", sample_rate=1.0, n_channels=nc,
                         dtype=np.int16, chunk_duration=float(csz), n_threads=1, check_after_compress=False)
    return base / "b.cbin"


def impl_cbin(td, c, data, base_cbin):
    """c: kind, nc, nchunks (None = unchopped), fs_text, fts_text, iw"""
    import mtscomp
    import spikeglx
    stem = "c_g0_t0.nidq" if c["kind"] == "nidq" else "c_g0_t0.imec1.ap"
    work = td / "w"
    shutil.rmtree(work, ignore_errors=True)
    work.mkdir()
    out = work / (stem + ".cbin")
    if c["nchunks"] is None:
        shutil.copy(base_cbin, out)
        shutil.copy(base_cbin.with_suffix(".ch"), out.with_suffix(".ch"))
    else:
        r = mtscomp.Reader()
        r.open(base_cbin, base_cbin.with_suffix(".ch"))
        with contextlib.redirect_stderr(io.StringIO()):      # tqdm progress bar
            r.chop(c["nchunks"], out=out)
        r.close()
    ch = json.loads(out.with_suffix(".ch").read_text())
    c["chns"], c["chnc"] = int(ch["chunk_bounds"][-1]), int(ch["n_channels"])
    (work / (stem + ".meta")).write_text(meta_text(c["kind"], c["nc"], c["fs_text"], c["fts_text"], c["size_val"]))
    _CATCH.n = 0
    obs = {}
    try:
        kw = {"ignore_warnings": bool(c["iw"])}
        if c.get("ch_arg"):        # the .ch header under an unrelated name, given through ch_file=
            other = work / "header_kept_elsewhere.ch"
            out.with_suffix(".ch").rename(other)
            kw["ch_file"] = other
        sr = spikeglx.Reader(out, **kw)
    except (ValueError, OverflowError, TypeError, KeyError) as e:
        obs["exc"] = type(e).__name__
        obs["exc_msg"] = str(e)[:120]
        return obs
    try:
        obs["warned"] = 1 if _CATCH.n else 0
        obs["fs"] = float(sr.fs)
        observe_reader(sr, c, data, obs)
    finally:
        try:
            sr.close()
        except Exception:
            pass
    return obs


def snapshot(sr, attempt, c, data, cur):
    """one snapshot of a reader object: [attempt code, warned], live ns, frames of the mapped array,
    meta fileTimeSecs, rl — and the values clause for the mapped array"""
    snap = {"attempt": attempt, "cur": cur}
    try:
        snap["ns"] = int(sr.ns)
    except TypeError:
        snap["ns_exc"] = 3
    except (ValueError, OverflowError):
        snap["ns_exc"] = 2
    fa = sr.meta.get("fileTimeSecs")
    snap["fts"] = None if fa is None else float(fa)
    try:
        snap["rl"] = float(sr.rl)
    except (TypeError, ValueError, OverflowError):
        snap["rl"] = None
    snap["mapped"] = -1
    bad = []
    if sr.is_open:
        try:
            full = sr[:, :]
            snap["mapped"] = int(full.shape[0])
            nc = c["nc"]
            m = snap["mapped"]
            if full.shape[1:] != (nc,):
                bad.append("mapped array has %s channels" % (full.shape[1:],))
            elif m * fbytes(c) > cur:
                bad.append("reads return data beyond the file")
            elif m > 0:
                if not values_ok(full, sr, data, m, nc, c.get("dtype", "int16")):
                    bad.append("values read are not the file's prefix")
        except Exception as e:
            bad.append("read raised %s" % type(e).__name__)
    snap["read_bad"] = bad
    return snap


def impl_seq(td, c, data):
    """c: reader, iw, nc, fs_text, fts_text|None, size_val, size0, open_flag, ops [[code, arg], ...], as_str.
    -> list of snapshots (after the constructor and after every operation)"""
    import spikeglx
    stem = "c_g0_t0.nidq"
    fbin = td / (stem + ".bin")
    for f in td.iterdir():
        f.unlink()
    fbin.write_bytes(data.buf[:c["size0"]])
    (td / (stem + ".meta")).write_text(meta_text("nidq", c["nc"], c["fs_text"], c["fts_text"], c["size_val"]))
    cls = spikeglx.OnlineReader if c["reader"] == "online" else spikeglx.Reader
    cur = c["size0"]
    snaps = []

    def attempt(fn):
        _CATCH.n = 0
        try:
            r = fn()
        except (ValueError, OverflowError, TypeError, KeyError) as e:
            return [EXC_CODE[type(e).__name__], 0], None
        return [0, 1 if _CATCH.n else 0], r

    arg = str(fbin) if c.get("as_str") else fbin
    if c["open_flag"]:
        att, sr = attempt(lambda: cls(arg, **reader_kwargs(c)))
        if sr is None:
            raise RuntimeError("the constructor (open=True) raised, exception code %d" % att[0])
    else:
        sr = cls(arg, open=False, **reader_kwargs(c))
        att = [9, 0]
    try:
        snaps.append(snapshot(sr, att, c, data, cur))
        for code, a in c["ops"]:
            if code == 0:
                if a >= cur:
                    with open(fbin, "ab") as fid:
                        fid.write(data.buf[cur:a])
                else:
                    os.truncate(fbin, a)
                cur = a
                att = [9, 0]
            elif code == 1:
                att, _ = attempt(sr.open)
            else:
                was_open = sr.is_open
                att, _ = attempt(sr.__enter__)
                if was_open and att[0] == 0:
                    att = [9, 0] if not att[1] else att
            snaps.append(snapshot(sr, att, c, data, cur))
    finally:
        try:
            sr.close()
        except Exception:
            pass
    return snaps


def enc_snaps(snaps):
    out = []
    for s in snaps:
        out += s["attempt"]
        out += [s["ns_exc"], 0] if "ns_exc" in s else [0, s["ns"]]
        out += [s["mapped"]]
        out += [4, 0, 0, 0] if s["fts"] is None else enc_float(s["fts"])
        out += [9, 0, 0, 0] if s["rl"] is None else enc_float(s["rl"])
    return out


def oracle_seq(c, snaps):
    """-> list of (what, tags): the property on every open attempt of the history (and, for the online
    reader, on sr.ns at every moment)"""
    bad = []
    nc = c["nc"]
    fb = fbytes(c)
    fs = float(c["fs_text"])
    for i, s in enumerate(snaps):
        cur = s["cur"]
        want = cur // fb
        tags = {"mode": "seq", "reader": c["reader"], "step": i,
                "size_changed_since_construction": cur != c["size0"]}
        where = "step %d (file has %d bytes = %d frames + %d)" % (i, cur, want, cur % fb)
        if c["reader"] == "online" and s.get("ns") != want:
            bad.append(("%s: OnlineReader.ns = %s" % (where, s.get("ns", "raises")), tags))
        if s["attempt"][0] != 9:
            if s["attempt"][0] != 0:
                bad.append(("%s: opening raised (code %d)" % (where, s["attempt"][0]), tags))
            else:
                if s["mapped"] != want:
                    bad.append(("%s: the opened array has %d frames" % (where, s["mapped"]), tags))
                if s.get("ns") != want:
                    bad.append(("%s: ns = %s after open" % (where, s.get("ns", "raises")), tags))
                if s["rl"] is None or s.get("ns") is None or s["rl"] != s["ns"] / fs:
                    bad.append(("%s: duration rl does not match the sample count" % where, tags))
        for b in s["read_bad"]:
            bad.append(("%s: %s" % (where, b), tags))
    return bad


def enc_obs(obs):
    if isinstance(obs, list):
        return enc_snaps(obs)
    if "exc" in obs:
        return [EXC_CODE[obs["exc"]]]
    fa = obs["fts_after"]
    return [0, obs["ns"], obs["nc"], obs["warned"]] + ([4, 0, 0, 0] if fa is None else enc_float(fa)) + \
        enc_float(obs["rl"])


def enc_inp(c):
    fs = float(c["fs_text"])
    fsm, fse = f2me(fs)
    if c["fts_text"] is None:
        has, ftm, fte = 0, 0, 0
    else:
        has = 1
        ftm, fte = f2me(float(c["fts_text"]))
    if c["mode"] == "nometa":
        o = lambda v: [0, 0] if v is None else [1, int(v)]
        return [3, 1 if c["reader"] == "online" else 0, isz_of(c), c["nbytes"]] + o(c["nc_arg"]) + o(c["ns_arg"]) + \
            o(c["fs_arg"])
    if c["mode"] == "seq":
        return [2, 1 if c["reader"] == "online" else 0, c["iw"], isz_of(c), c["nc"], fsm, fse, has, ftm, fte, c["size0"],
                c["open_flag"]] + [x for o in c["ops"] for x in o]
    if c["mode"] == "flat":
        return [0, 1 if c["reader"] == "online" else 0, c["iw"], isz_of(c),
                c["nbytes"], c["nc"], fsm, fse, has, ftm, fte]
    return [1, c["iw"], c["chns"], c["chnc"], c["nc"], fsm, fse, has, ftm, fte]


def in_domain(c):
    """the property's quantifier: at least one complete frame; the reader that is meant for the
    kind of metadata at hand (a meta without fileTimeSecs = recording in progress = OnlineReader)"""
    if c["mode"] == "seq":
        sizes = [c["size0"]] + [a for code, a in c["ops"] if code == 0]
        return min(sizes) >= fbytes(c) and not (c["reader"] == "offline" and c["fts_text"] is None)
    if c["mode"] == "nometa":
        # no metadata to disagree with: the property's predicate applies where the reader itself determines the
        # frame count (OnlineReader; Reader guessing from the size) or the caller states the true one
        guess = 384 if c["nbytes"] % 768 == 0 else 385 if c["nbytes"] % 770 == 0 else None
        args_ok = guess is not None or None not in (c["nc_arg"], c["ns_arg"], c["fs_arg"])
        if c.get("nc_expected") is None or not args_ok or c["nbytes"] < fbytes(c):
            return False
        if c["reader"] == "online":
            return True
        if c["ns_arg"] is None:
            return c["nc_arg"] is None and c.get("dtype", "int16") == "int16"
        return c["ns_arg"] == c["nbytes"] // fbytes(c) and c["ns_arg"] > 0
    if c["mode"] == "flat":
        if c["nbytes"] < fbytes(c):
            return False
        if c["reader"] == "offline" and c["fts_text"] is None:
            return False
        return True
    return c["fts_text"] is not None


def oracle(c, obs):
    """The property's predicate on the implementation's observations only."""
    bad = []
    if "exc" in obs:
        return ["opening raised %s" % obs["exc"]]
    nc = c["nc"]
    want = c["nbytes"] // fbytes(c) if c["mode"] in ("flat", "nometa") else c["chns"]
    if obs["ns"] != want:
        bad.append("exposes %d frames, the file holds %d complete frames" % (obs["ns"], want))
    if obs["shape"] != (obs["ns"], nc) or obs["nc"] != nc:
        bad.append("shape %s is not (ns, nc)" % (obs["shape"],))
    if obs["rl"] != obs["ns"] / float(c["fs_text"]):
        bad.append("duration rl does not match the exposed sample count")
    if c["mode"] in ("flat", "nometa") and obs["ns"] * fbytes(c) > c["nbytes"]:
        bad.append("exposed array is longer than the file")
    bad += obs.get("read_bad", [])
    return bad


def claims(k, fs, which):
    """fileTimeSecs texts: metadata claiming the same / more / fewer frames than the k present"""
    out = {}
    out["eq"] = ftext(k / fs)
    out["more1"] = ftext((k + 1) / fs)
    out["more"] = ftext((k + 7) / fs + 1.8324)
    out["less1"] = ftext(max(k - 1, 0) / fs)
    out["half"] = ftext((k + 0.5) / fs)
    out["less"] = ftext(k / 2 / fs)
    return [(w, out[w]) for w in which]


CLAIMS = ["eq", "more1", "more", "less1", "half", "less"]


def gen_flat(ctx):
    rng = ctx.rng
    cases = []
    fs_list = FS_TEXTS if ctx.thorough() else FS_QUICK

    def add(reader, iw, kind, nc, nbytes, fs_text, claim, fts_text, size="claim", sparse=False):
        if size == "claim":
            size_val = None if fts_text is None else int(round(float(fts_text) * float(fs_text))) * nc * 2
        else:
            size_val = size
        cases.append({"mode": "flat", "reader": reader, "iw": iw, "kind": kind, "nc": nc, "nbytes": nbytes,
                      "fs_text": fs_text, "claim": claim, "fts_text": fts_text, "size_val": size_val,
                      "sparse": sparse, "as_str": len(cases) % 3 == 1,
                      "meta_arg": (None, "path", None, None, None, None, None)[len(cases) % 7],
                      "entry": "meta" if (len(cases) % 11 == 5 and reader == "offline" and len(cases) % 7 != 1) else None,
                      "sort": False if (kind == "imec" and len(cases) % 5 == 2) else None})

    for nc in (1, 8, 385):
        fb = 2 * nc
        lengths = list(range(fb, 7 * fb))          # 1 frame .. 6 frames + every trailing count
        rot = rng.randrange(1000)
        for li, nbytes in enumerate(lengths):
            k = nbytes // fb
            if nc == 1 or ctx.thorough() and nc == 8:
                combos = [(fs, cl) for fs in fs_list for cl in CLAIMS]
            elif nc == 8:
                combos = [(fs_list[(li + rot + a) % len(fs_list)], CLAIMS[(li // 2 + rot + 2 * a + b) % 6])
                          for a in range(2) for b in range(3)]
            else:
                n = 12 if ctx.thorough() else 1
                combos = [(fs_list[(li + rot + a) % len(fs_list)], CLAIMS[(li // 3 + rot + a + a // len(fs_list)) % 6])
                          for a in range(n)]
            for ci, (fs_text, cl) in enumerate(combos):
                fts_text = dict(claims(k, float(fs_text), [cl]))[cl]
                kind = "imec" if (nc == 385 and (li + ci) % 4 == 0) else "nidq"
                iw = (li + ci) % 3 == 0
                add("offline", int(iw), kind, nc, nbytes, fs_text, cl, fts_text)
                if nc != 385 or ci == 0:
                    add("online", int(not iw), kind, nc, nbytes, fs_text, cl, fts_text)
            # recording in progress: the meta file has no fileSizeBytes / fileTimeSecs yet
            if nc != 385 or li % 7 == rot % 7 or nbytes % fb in (0, 1, fb - 1):
                fs_text = fs_list[(li + rot) % len(fs_list)]
                kind = "imec" if (nc == 385 and li % 2 == 0) else "nidq"
                add("online", 1, kind, nc, nbytes, fs_text, "none", None, size=None)
                add("online", 0, kind, nc, nbytes, fs_text, "none", None, size=None)
                if li % 5 == 0:
                    add("offline", 0, kind, nc, nbytes, fs_text, "none", None, size=None)
                    # fileTimeSecs present, fileSizeBytes absent
                    add("online", 0, kind, nc, nbytes, fs_text, "eq", ftext(k / float(fs_text)), size=None)
                    add("offline", li % 2, kind, nc, nbytes, fs_text, "more1", ftext((k + 1) / float(fs_text)),
                        size=None)
        # below one frame (outside the property's quantifier; correspondence only)
        for nbytes in sorted({0, 1, nc, fb - 1}):
            for reader in ("offline", "online"):
                add(reader, 0, "nidq", nc, nbytes, "30000", "more1", ftext(1 / 30000.0))
    return cases


def gen_sparse(ctx):
    """multi-GB recordings as sparse files: realistic frame counts where float rounding could matter"""
    rng = ctx.rng
    cases = []
    n = 3000 if ctx.thorough() else 90
    for i in range(n):
        nc = rng.choice([385, 385, 384, 8, 2, 1, 97])
        fb = 2 * nc
        kmax = min(2 ** 42 // fb, rng.choice([10 ** 5, 10 ** 7, 10 ** 8, 3 * 10 ** 9, 2 ** 41]))
        k = rng.choice([rng.randrange(1, kmax + 1), 24734244, 2 ** rng.randrange(10, 31) + rng.choice([-1, 0, 1])])
        k = max(1, min(k, 2 ** 42 // fb))
        r = rng.choice([0, 1, nc, fb - 1, rng.randrange(fb), nc + 1 if nc + 1 < fb else 0, fb - 2 if fb > 2 else 0])
        nbytes = k * fb + r
        fs_text = rng.choice(FS_TEXTS)
        cl = rng.choice(CLAIMS)
        fts_text = dict(claims(k, float(fs_text), [cl]))[cl]
        reader = "online" if i % 3 == 0 else "offline"
        size_val = int(round(float(fts_text) * float(fs_text))) * nc * 2
        cases.append({"mode": "flat", "reader": reader, "iw": i % 2, "kind": "nidq", "nc": nc, "nbytes": nbytes,
                      "fs_text": fs_text, "claim": cl, "fts_text": fts_text, "size_val": size_val, "sparse": True})
    return cases


def gen_seq(ctx):
    """histories on one reader object while the file changes: construct (open=True/False) -> the writer appends
    (or the file is cut) -> open / __enter__ / re-open.  The file is never cut once a mapping may exist."""
    rng = ctx.rng
    cases = []
    fs_list = FS_TEXTS if ctx.thorough() else FS_QUICK
    ncs = [(1, "int16"), (5, "int16"), (8, "int16"), (385, "int16"), (3, "int32"), (2, "float64"), (7, "uint8")]
    if ctx.thorough():
        ncs += [(2, "int16"), (97, "int16"), (5, "int64"), (1, "int8"), (16, "float32")]
    OPEN, ENTER = [1, 0], [2, 0]
    n = 0
    for nc, dtype in ncs:
        fb = DTYPES[dtype] * nc
        pairs = [(fb, fb + 1), (fb, 2 * fb), (3 * fb + min(4, fb - 1), 3 * fb + fb - 1),
                 (3 * fb + min(4, fb - 1), 9 * fb), (12 * fb, 25 * fb + min(7, fb - 1)),
                 (12 * fb + fb // 2, 30 * fb - 1), (7 * fb + fb - 1, 8 * fb + fb // 2), (2 * fb, 2 * fb + fb - 1)]
        if ctx.thorough():
            pairs += [(a * fb + rng.randrange(fb), (a + d) * fb + rng.randrange(fb))
                      for a in (1, 2, 5, 11) for d in (0, 1, 2, 13)]
            pairs = [(a, max(b, a + 1)) for a, b in pairs]
        for (a, b) in pairs:
            c2 = b + fb * 3 + fb // 2
            patterns = {
                "closed_grow_open": (0, a, [[0, b], OPEN]),
                "closed_grow_with": (0, a, [[0, b], ENTER]),
                "open_grow_reopen": (1, a, [[0, b], OPEN]),
                "open_grow_with_reopen": (1, a, [[0, b], ENTER, OPEN]),
                "closed_cut_open": (0, b, [[0, a], OPEN]),
                "closed_grow_open_grow_open_grow_with": (0, a, [[0, b], OPEN, [0, c2], OPEN, [0, c2 + fb + 1], ENTER]),
                "closed_cut_grow_with_open": (0, b, [[0, a], [0, c2], ENTER, OPEN]),
            }
            for reader in ("online", "offline"):
                for pname, (oflag, size0, ops) in patterns.items():
                    fs_text = fs_list[n % len(fs_list)]
                    fs = float(fs_text)
                    kinds = ["none", "eq_size0", "eq_final", "more"] if reader == "online" else \
                            ["eq_size0", "eq_final", "more", "none"]
                    pick = [kinds[n % 4], kinds[(n + 1) % 4]] if not ctx.thorough() else kinds
                    final = [x[1] for x in ops if x[0] == 0][0]
                    for ck in pick:
                        if reader == "offline" and ck == "none" and oflag:
                            continue      # the constructor itself raises TypeError: no object to continue with
                        k0 = {"eq_size0": size0 // fb, "eq_final": final // fb, "more": b // fb + 11}.get(ck)
                        fts_text = None if ck == "none" else ftext(k0 / fs)
                        size_val = None if ck == "none" else k0 * fb
                        n += 1
                        cases.append({"mode": "seq", "reader": reader, "iw": n % 2, "kind": "nidq", "nc": nc,
                                      "dtype": dtype, "dtype_as": "np" if n % 2 else "str",
                                      "fs_text": fs_text, "fts_text": fts_text, "size_val": size_val, "claim": ck,
                                      "size0": size0, "open_flag": oflag, "ops": [list(o) for o in ops],
                                      "as_str": n % 3 == 0, "pattern": pname})
    return cases


def gen_dtype(ctx):
    """the `dtype` argument: frames of itemsize * nc bytes for item sizes 1, 2, 4, 8"""
    cases = []
    fs_list = FS_TEXTS if ctx.thorough() else FS_QUICK
    n = 0
    for dtype in ("int8", "uint8", "uint16", "int32", "float32", "int64", "float64"):
        isz = DTYPES[dtype]
        for nc in ((1, 3, 8) if not ctx.thorough() else (1, 2, 3, 8, 17)):
            fb = isz * nc
            for nbytes in range(fb, (4 if not ctx.thorough() else 6) * fb):
                k = nbytes // fb
                for reader in ("offline", "online"):
                    n += 1
                    fs_text = fs_list[n % len(fs_list)]
                    cl = CLAIMS[(n // 2) % 6]
                    fts_text = dict(claims(k, float(fs_text), [cl]))[cl]
                    if reader == "online" and n % 4 == 1:
                        cl, fts_text = "none", None
                    cases.append({"mode": "flat", "reader": reader, "iw": n % 2, "kind": "nidq", "nc": nc,
                                  "nbytes": nbytes, "fs_text": fs_text, "claim": cl, "fts_text": fts_text,
                                  "size_val": None if fts_text is None else
                                  int(round(float(fts_text) * float(fs_text))) * fb,
                                  "sparse": False, "as_str": n % 3 == 1, "dtype": dtype,
                                  "dtype_as": "str" if n % 2 else "np"})
    return cases


def impl_nometa(td, c, data):
    """Reader / OnlineReader on a binary WITHOUT meta file: c: reader, nc_arg, ns_arg, fs_arg (int or None), dtype, nbytes"""
    import spikeglx
    for f in td.iterdir():
        f.unlink()
    fbin = td / "raw_g0_t0.imec0.ap.bin"
    if c["nbytes"] > len(data.buf):
        c["sparse"] = True
        with open(fbin, "wb") as fid:
            fid.truncate(c["nbytes"])
    else:
        fbin.write_bytes(data.buf[:c["nbytes"]])
    kw = {k: c[k + "_arg"] for k in ("nc", "ns", "fs") if c[k + "_arg"] is not None}
    if c.get("dtype", "int16") != "int16":
        kw["dtype"] = c["dtype"]
    cls = spikeglx.OnlineReader if c["reader"] == "online" else spikeglx.Reader
    _CATCH.n = 0
    obs = {}
    try:
        sr = cls(str(fbin) if c.get("as_str") else fbin, **kw)
    except (ValueError, OverflowError, TypeError, KeyError, AssertionError) as e:
        obs["exc"] = type(e).__name__
        obs["exc_msg"] = str(e)[:120]
        return obs
    try:
        obs["warned"] = 1 if _CATCH.n else 0
        obs["fs"] = float(sr.fs)
        if c.get("nc_expected") is None:
            c["nc"] = int(sr.nc)
        observe_reader(sr, c, data, obs)
    finally:
        try:
            sr.close()
        except Exception:
            pass
    return obs


def gen_nometa(ctx):
    """binaries without a meta file: channel count guessed from the size (multiples of 768 / 770 bytes) or the
    caller's nc= ns= fs=; Reader and OnlineReader"""
    cases = []
    n = 0
    sizes = [768, 2 * 768, 3 * 768, 770, 2 * 770, 3 * 770, 768 * 385, 767, 769, 771, 768 + 16, 2 * 770 + 5, 0,
             16, 17, 31, 32, 33, 48, 100, 1540 + 769]
    if ctx.thorough():
        sizes += list(range(1, 64)) + [768 * k for k in range(4, 12)] + [770 * k + j for k in (1, 4) for j in (1, 2, 769)]
    for nbytes in sizes:
        for dtype in ("int16", "int32") if nbytes % 5 != 3 else ("int16",):
            isz = DTYPES[dtype]
            for nc_arg in (None, 1, 8, 385):
                fb = isz * (nc_arg or 384)
                k = nbytes // fb
                for ns_arg in (None, k, k + 1, max(k - 1, 0)):
                    for fs_arg in (None, 30000, 2500):
                        n += 1
                        if not ctx.thorough() and n % 3 and not (nc_arg is None and ns_arg is None):
                            continue
                        for reader in ("offline", "online"):
                            if reader == "online" and (n % 2 or nbytes > 4000):
                                continue
                            if fs_arg == 0:
                                continue
                            guess = 384 if nbytes % 768 == 0 else 385 if nbytes % 770 == 0 else None
                            ncx = nc_arg or guess
                            cases.append({"mode": "nometa", "reader": reader, "iw": 0, "kind": "none", "nbytes": nbytes,
                                          "nc": ncx if ncx else 1, "nc_expected": ncx,
                                          "dtype": dtype, "nc_arg": nc_arg, "ns_arg": ns_arg, "fs_arg": fs_arg,
                                          "fs_text": str(fs_arg or 30000), "fts_text": None, "size_val": None,
                                          "claim": "none", "as_str": n % 2 == 0})
    return cases


def gen_cbin(ctx):
    """(base description, cases): .cbin chopped to fewer chunks than the meta file announces"""
    groups = []
    fs_list = FS_TEXTS if ctx.thorough() else FS_QUICK
    for gi, (nc, kind) in enumerate([(1, "nidq"), (8, "nidq"), (385, "nidq"), (385, "imec")]):
        csz, nframes = 5, 33           # 6 chunks of 5 frames + one of 3
        cs = []
        fsl = fs_list if ctx.thorough() else [fs_list[gi % len(fs_list)], fs_list[(gi + 2) % len(fs_list)]]
        for fs_text in fsl:
            fs = float(fs_text)
            for nch in (None, 1, 2, 3, 4, 5, 6):
                chns = nframes if nch is None else nch * csz
                for cl, fts_text in (("full", ftext(nframes / fs)), ("eq", ftext(chns / fs)),
                                     ("less", ftext(max(chns - 2, 0) / fs)), ("half", ftext((chns + 0.5) / fs))):
                    for iw in ((0, 1) if cl == "full" else (0,)):
                        cs.append({"mode": "cbin", "kind": kind, "nc": nc, "nchunks": nch, "fs_text": fs_text,
                                   "claim": cl, "fts_text": fts_text, "iw": iw, "ch_arg": len(cs) % 4 == 1,
                                   "size_val": nframes * nc * 2, "reader": "offline"})
            cs.append({"mode": "cbin", "kind": kind, "nc": nc, "nchunks": 2, "fs_text": fs_text, "claim": "none",
                       "fts_text": None, "iw": 0, "size_val": None, "reader": "offline"})
        groups.append(((kind, nc, nframes, csz), cs))
    return groups


def describe(c):
    return {k: c.get(k) for k in ("mode", "reader", "iw", "kind", "nc", "nbytes", "fs_text", "claim", "fts_text",
                                  "size_val", "sparse", "nchunks", "chns", "chnc", "size0", "open_flag", "ops", "as_str",
                                  "pattern", "dtype", "dtype_as", "nc_arg", "ns_arg", "fs_arg", "nc_expected", "meta_arg",
                                  "entry", "sort", "ch_arg")
            if k in c}


def tags_of(c, obs):
    return {"mode": c["mode"], "reader": c["reader"],
            "meta": "in_progress" if (c["fts_text"] is None or c["size_val"] is None) else "complete",
            "ignore_warnings": bool(c["iw"]), "exception": obs.get("exc", "none")}


def run_cases(ctx, td, data, flat, groups, seqs=(), nometa=()):
    """-> list of (case, obs)"""
    done = []
    nwork = td / "nometa"
    nwork.mkdir()
    for c in nometa:
        try:
            obs = impl_nometa(nwork, c, data)
        except Exception as e:
            ctx.fail("meta-less reader raised an unexpected %s: %s" % (type(e).__name__, str(e)[:200]), describe(c),
                     {"mode": "nometa", "reader": c["reader"], "exception": type(e).__name__})
            continue
        done.append((c, obs))
    swork = td / "seq"
    swork.mkdir()
    for c in seqs:
        try:
            snaps = impl_seq(swork, c, data)
        except Exception as e:
            ctx.fail("history raised an unexpected %s: %s" % (type(e).__name__, str(e)[:200]), describe(c),
                     {"mode": "seq", "reader": c["reader"], "exception": type(e).__name__})
            continue
        done.append((c, snaps))
    work = td / "flat"
    work.mkdir()
    for c in flat:
        try:
            obs = impl_flat(work, c, data)
        except Exception as e:
            ctx.fail("opening / observing the reader raised an unexpected %s: %s" % (type(e).__name__, str(e)[:200]),
                     describe(c),
                     {"mode": c["mode"], "reader": c["reader"], "exception": type(e).__name__})
            continue
        done.append((c, obs))
    for gi, ((kind, nc, nframes, csz), cs) in enumerate(groups):
        gd = td / ("cbin%d" % gi)
        gd.mkdir()
        base = build_cbin_base(gd, kind, nc, nframes, csz, data)
        for c in cs:
            try:
                obs = impl_cbin(gd, c, data, base)
            except Exception as e:
                ctx.fail("opening the .cbin raised an unexpected %s: %s" % (type(e).__name__, str(e)[:200]),
                         describe(c), {"mode": "cbin", "reader": "offline", "exception": type(e).__name__})
                continue
            done.append((c, obs))
    return done


def run(ctx):
    common.proof_obligations(ctx, whitelist=AXIOMS)
    setup_logging()
    warnings.filterwarnings("ignore", category=RuntimeWarning)     # float64 -> float32 overflow on random bytes
    flat = gen_flat(ctx) + gen_sparse(ctx) + gen_dtype(ctx)
    groups = gen_cbin(ctx)
    seqs = gen_seq(ctx)
    data = Data(random.Random(ctx.seed ^ 0xC11), 40 * 770 + 64)
    td = common.tmpdir("C11_run_")
    try:
        done = run_cases(ctx, td, data, flat, groups, seqs, gen_nometa(ctx))
    finally:
        shutil.rmtree(td, ignore_errors=True)
    dist = {"flat_offline": 0, "flat_online": 0, "cbin": 0, "sparse_large": 0, "partial_trailing_frame": 0,
            "trailing_more_than_half": 0, "meta_claims_more": 0, "meta_claims_less": 0, "meta_claims_equal": 0,
            "meta_in_progress": 0, "below_one_frame": 0, "fractional_fs": 0, "imec_meta": 0,
            "outcome_opened": 0, "outcome_exception": 0, "fts_rewritten_warned": 0,
            "histories": 0, "history_steps": 0, "history_open_attempts": 0, "history_online": 0,
            "history_offline_claim_equals_size_at_construction": 0, "path_given_as_str": 0, "dtype_not_int16": 0,
            "no_meta_file": 0, "no_meta_guessed_nc": 0, "meta_file_argument": 0, "entry_through_meta_path": 0,
            "sort_false": 0, "ch_file_argument": 0}
    nontrivial = set()
    for c, obs in done:
        dist["path_given_as_str"] += bool(c.get("as_str"))
        if c["mode"] == "seq":
            dist["histories"] += 1
            dist["history_steps"] += len(obs)
            dist["history_open_attempts"] += sum(s["attempt"][0] != 9 for s in obs)
            dist["history_online"] += c["reader"] == "online"
            dist["dtype_not_int16"] += c.get("dtype", "int16") != "int16"
            dist["fractional_fs"] += "." in c["fs_text"]
            dist["meta_in_progress"] += c["fts_text"] is None
            bad = oracle_seq(c, obs) if in_domain(c) else []
            dist["history_offline_claim_equals_size_at_construction"] += \
                c["reader"] == "offline" and c["claim"] == "eq_size0"
            for what, tags in bad:
                ctx.fail(what, describe(c), tags)
            nontrivial.add(("seq", c["reader"], c["nc"], c["size0"], c["open_flag"], json.dumps(c["ops"]),
                            c["fs_text"], c["fts_text"], c["iw"], c.get("dtype", "int16")))
            continue
        if in_domain(c):
            for b in oracle(c, obs):
                ctx.fail(b, describe(c), tags_of(c, obs))
        dist["flat_offline"] += c["mode"] == "flat" and c["reader"] == "offline"
        dist["flat_online"] += c["mode"] == "flat" and c["reader"] == "online"
        dist["cbin"] += c["mode"] == "cbin"
        dist["sparse_large"] += bool(c.get("sparse"))
        dist["fractional_fs"] += "." in c["fs_text"]
        dist["imec_meta"] += c["kind"] == "imec"
        dist["meta_in_progress"] += c["mode"] != "nometa" and (c["fts_text"] is None or c["size_val"] is None)
        dist["no_meta_file"] += c["mode"] == "nometa"
        dist["no_meta_guessed_nc"] += c["mode"] == "nometa" and c["nc_arg"] is None and "exc" not in obs
        dist["meta_file_argument"] += bool(c.get("meta_arg"))
        dist["entry_through_meta_path"] += c.get("entry") == "meta"
        dist["sort_false"] += c.get("sort") is False
        dist["ch_file_argument"] += bool(c.get("ch_arg"))
        dist["outcome_opened"] += "exc" not in obs
        dist["outcome_exception"] += "exc" in obs
        dist["fts_rewritten_warned"] += obs.get("warned", 0)
        if c["mode"] == "flat":
            fb = fbytes(c)
            dist["dtype_not_int16"] += c.get("dtype", "int16") != "int16"
            r = c["nbytes"] % fb
            k = c["nbytes"] // fb
            dist["partial_trailing_frame"] += r > 0
            dist["trailing_more_than_half"] += 2 * r > fb
            dist["below_one_frame"] += c["nbytes"] < fb
            if c["fts_text"] is not None:
                claimed = round(float(c["fts_text"]) * float(c["fs_text"]))
                dist["meta_claims_more"] += claimed > k
                dist["meta_claims_less"] += claimed < k
                dist["meta_claims_equal"] += claimed == k
            if r > 0 and c["nbytes"] >= fb:
                nontrivial.add((c["reader"], c["nc"], c["nbytes"], c["fs_text"], c["fts_text"], c["iw"], c["kind"],
                                c.get("dtype", "int16")))
        else:
            if c["fts_text"] is not None and c["chns"] != round(float(c["fts_text"]) * float(c["fs_text"])):
                nontrivial.add(("cbin", c["nc"], c["chns"], c["fs_text"], c["fts_text"], c["iw"], c["kind"]))
    cases = [c for c, _ in done]
    common.correspondence(ctx, PROP, HEADER, [enc_inp(c) for c in cases], [enc_obs(o) for _, o in done],
                          lambda i: describe(cases[i]), n_kernel=80)
    step = max(1, len(done) // 6)
    samples = [dict(describe(c), observed=([{k: v for k, v in sn.items() if k != "read_bad"} for sn in o]
                                           if isinstance(o, list) else
                                           {k: v for k, v in o.items() if k != "read_bad"}))
               for c, o in (done[:1] + done[len(seqs)::step])]
    return common.finish(
        ctx, TRUSTED,
        rule="real files: every byte length from 1 to 6 complete frames plus every trailing byte count 0..frame-1, "
             "for frames of 2, 16 and 770 bytes (all (fs, claim) combinations for the 2-byte frame, rotating "
             "subsets otherwise in quick; full product in thorough for 2 and 16), metadata claiming equal / +1 / "
             "many more / -1 / +half / half as many frames, integer and fractional sampling rates, Reader and "
             "OnlineReader, nidq and imec meta files, meta files of a recording in progress (no fileTimeSecs / "
             "fileSizeBytes), sparse multi-GB files, and .cbin files chopped by mtscomp.Reader.chop; each is "
             "opened with the real class and run through the Coq model; non-trivial = file with an incomplete "
             "trailing frame (flat) or .ch/meta disagreement (cbin); distinct by (reader, nc, length, fs, claim, flags)",
        samples=samples, evaluations=len(done), distinct_nontrivial=len(nontrivial),
        extra={"input_distribution": dist, "exhaustive": False,
               "exhaustive_lengths": "all byte lengths 1..6 frames + every trailing count, frames 2/16/770 bytes"},
        assumptions=["CPython float arithmetic is IEEE binary64 round-to-nearest-even (modelled with Flocq)",
                     "sparse files behave like written files for stat/mmap"])


def replay(ctx, data_json):
    inp = data_json.get("input") or (data_json.get("correspondence_disagreements") or [{}])[0].get("input")
    if not inp:
        print(json.dumps(data_json, indent=1)[:3000])
        return 1
    setup_logging()
    c = dict(inp)
    data = Data(random.Random(data_json.get("seed", ctx.seed) ^ 0xC11), 40 * 770 + 64)
    td = common.tmpdir("C11_replay_")
    try:
        if c["mode"] == "seq":
            w = td / "seq"
            w.mkdir()
            obs = impl_seq(w, c, data)
        elif c["mode"] == "nometa":
            w = td / "nometa"
            w.mkdir()
            obs = impl_nometa(w, c, data)
        elif c["mode"] == "flat":
            w = td / "flat"
            w.mkdir()
            obs = impl_flat(w, c, data)
        else:
            base = build_cbin_base(td, c["kind"], c["nc"], 33, 5, data)
            obs = impl_cbin(td, c, data, base)
    except Exception as e:
        print("implementation raised unexpectedly:", repr(e))
        return 1
    finally:
        shutil.rmtree(td, ignore_errors=True)
    if c["mode"] == "seq":
        bad = [w for w, _ in oracle_seq(c, obs)] if in_domain(c) else []
    else:
        bad = oracle(c, obs) if in_domain(c) else []
    print("input:", describe(c))
    print("implementation:", obs)
    print("property clauses failing on the implementation:", bad)
    ids = common.coq_mismatches(PROP, HEADER, [common.flat_cases_term(0, enc_inp(c), enc_obs(obs))])
    print("kernel-evaluated model agrees with implementation:", not ids)
    return 1 if (bad or ids) else 0
