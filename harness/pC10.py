"""C10 — sync words -> TTL lines, fronts recover every event.

Proofs in coq/C10; correspondence against spikeglx.split_sync,
spikeglx.Reader.read_sync / read_sync_digital / read_sync_analog (through mock
.bin/.meta recordings) and ibldsp.utils.fronts / rises / falls.
Every case is a json-able dict; `execute(case)` runs the implementation, the
property oracle and produces the flat model input / implementation output.
"""
import json
import logging
import shutil
from fractions import Fraction

import numpy as np

import common

PROP = "C10"


# everything the implementation may throw, except a real Ctrl-C (a bare BaseException subclass is caught
# one level up, in safe_execute)
import builtins
_IMPL_EXC = (Exception, SystemExit, GeneratorExit) + tuple(
    getattr(builtins, n) for n in ("BaseExceptionGroup",) if hasattr(builtins, n))
HEADER = "From Coq Require Import ZArith List.\nImport ListNotations.\nFrom IBL.C10 Require Import Run."
ONE = 2 ** 40          # analog values are exchanged with the model in units of 2^-40 V
TRUSTED = [
    "Coq 8.16.1 kernel + vm_compute (no native_compute); the 28 theorems of Props.v: Closed under the global context; "
    "Joint.v (C10 x C11, Reader.open through Flocq) inherits the four standard-library axioms of classical reals",
    "hand-written model coq/C10/Model.v of spikeglx.split_sync, Reader.read_sync(_digital/_analog) and "
    "ibldsp.utils.fronts/rises/falls, tied to the source by this run's correspondence",
    "little-endian host (split_sync's view(np.uint8)); np.int16(array) keeps the low 16 bits",
    "np.percentile(analog, 10, axis=0) is modelled in exact rational arithmetic (sort + linear interpolation); the "
    "implementation computes it in float32: every generated recording keeps each sample either on an exactly "
    "computed floor or >= 64 float32 ulps away from floor + threshold (error bound < 4 ulps), checked per case; "
    "analog ranges are powers of two so that the float32 volt values are exact",
    "Sweep.v (exhaustive vm_compute over the 65536 words) is kernel-checked by coqc and taken as given by coqchk",
    "harness/pC10.py generators, canonicaliser and oracle",
    "extraction (Require Extraction, ExtrOcamlBasic only; Z, positive kept inductive), harness/driver.ml, "
    "ocamlfind ocamlopt; a sample of the same cases is re-evaluated by the kernel (vm_compute)",
]


# --------------------------------------------------------------------------
# helpers
# --------------------------------------------------------------------------
def _np_dtype(name):
    return {"int8": np.int8, "int16": np.int16, "uint16": np.uint16, "int32": np.int32,
            "int64": np.int64, "float64": np.float64, "float32": np.float32, "uint32": np.uint32, "uint8": np.uint8,
            "bool": np.bool_}[name]


def rank_keys(values):
    """odd, strictly monotone map float -> small int (key(-f) = -key(f), key(0) = 0)."""
    mags = sorted({abs(float(v)) for v in values if float(v) != 0.0})
    rk = {m: i + 1 for i, m in enumerate(mags)}
    return lambda f: 0 if float(f) == 0.0 else (rk[abs(float(f))] if f > 0 else -rk[abs(float(f))])


def fixture_meta_text(typ):
    name = {"ap": "sample3B_g0_t0.imec1.ap.meta", "lf": "sample3B_g0_t0.imec1.lf.meta"}[typ]
    return (common.REPO / "src" / "tests" / "fixtures" / name).read_text()


def _pos(x):
    """positional notation (the meta parser does not read exponents)."""
    return np.format_float_positional(float(x), trim="-")


def _duration(ns, fs, meta_dur):
    """fileTimeSecs as written in the meta file.  meta_dur: None = exact; ["decimals", k] = the true duration
    rounded to k decimals (3A-era files have 4); ["samples", m] = the duration of m samples (a stale meta next
    to a file that has grown or was cut).  The reader must expose the frames the FILE holds."""
    if not meta_dur:
        return _pos(ns / fs)
    if meta_dur[0] == "decimals":
        return "%.*f" % (meta_dur[1], ns / fs)
    return _pos(meta_dur[1] / fs)


def write_recording(folder, typ, counts, ns, data, range_max, meta_dur=None, tail_bytes=0, gains=None):
    """Mock recording: <folder>/c10_g0_t0.<typ>.bin + .meta; returns the bin path."""
    if isinstance(data, np.ndarray):
        D = data.astype(np.int16)
        nc = D.shape[1]
    else:
        nc = len(data) // ns if ns else sum(counts)
        D = np.array(data, dtype=np.int64).astype(np.int16).reshape(ns, nc)
    if typ == "nidq":
        fs = 30000.0
        meta = {"nSavedChans": nc, "niSampRate": 30000, "fileTimeSecs": _duration(ns, fs, meta_dur), "typeThis": "nidq",
                "snsMnMaXaDw": ",".join(str(c) for c in counts), "niMNGain": (gains or [200, 1])[0], "niMAGain": (gains or [200, 1])[1],
                "niAiRangeMax": range_max, "niAiRangeMin": -range_max, "fileSizeBytes": ns * nc * 2}
        txt = "".join("%s=%s\n" % kv for kv in meta.items())
        p = folder / "c10_g0_t0.nidq.bin"
    else:
        src = fixture_meta_text(typ)
        fs = [float(l.split("=")[1]) for l in src.splitlines() if l.startswith("imSampRate=")][0]
        out = []
        for l in src.splitlines():
            if l.startswith("fileTimeSecs="):
                l = "fileTimeSecs=" + _duration(ns, fs, meta_dur)
            elif l.startswith("fileSizeBytes="):
                l = "fileSizeBytes=%d" % (ns * nc * 2)
            out.append(l)
        txt = "\n".join(out) + "\n"
        p = folder / ("c10_g0_t0.imec1.%s.bin" % typ)
    with open(p, "wb") as f:
        D.tofile(f)
        if tail_bytes:                       # an incomplete trailing frame (copy interrupted, acquisition running)
            f.write(bytes((7 * i + 1) % 256 for i in range(tail_bytes)))
    p.with_suffix(".meta").write_text(txt)
    return p


def py_bits(v):
    return [(int(v) >> k) & 1 for k in range(16)]


# --------------------------------------------------------------------------
# case execution: implementation + oracle + flat encodings
# --------------------------------------------------------------------------
class Result:
    crash = None

    def __init__(self):
        self.inp = None        # flat model input
        self.out = None        # flat implementation output (same encoding as Run.v)
        self.bad = []          # (message, tags) : property predicate false on the implementation
        self.nontrivial = False
        self.info = {}


def exec_split(case):
    import spikeglx
    r = Result()
    vals = case["values"]
    arr = np.array(vals, dtype=np.int64).astype(_np_dtype(case["dtype"]))
    lay = case.get("layout", "plain")
    if lay == "strided":
        big = np.zeros(arr.size * 2, dtype=arr.dtype)
        big[::2] = arr
        arr = big[::2]
    elif lay == "reversed":
        arr = arr[::-1].copy()[::-1]
    elif lay == "column":
        arr = arr.reshape(-1, 1)
    elif lay == "list":
        arr = [int(v) for v in vals]
    elif lay == "matrix":
        arr = arr.reshape(-1, case["ncol"])
    r.inp = [0] + [int(v) for v in vals]
    before = np.array(arr, copy=True) if isinstance(arr, np.ndarray) else list(arr)
    try:
        out = spikeglx.split_sync(arr)
        changed = (not np.array_equal(before, arr)) if isinstance(arr, np.ndarray) else (before != arr)
        if changed:
            r.bad.append(("split_sync modified its input array in place", {"kind": "split", "defect": "input_mutated"}))
        if isinstance(out, np.ndarray) and isinstance(arr, np.ndarray) and out.size and np.shares_memory(out, arr):
            r.bad.append(("split_sync returned a view of its input", {"kind": "split", "defect": "input_view"}))
    except _IMPL_EXC as e:
        r.bad.append(("split_sync raised %r" % (e,), {"kind": "split", "defect": "exception"}))
        r.out = [-1]
        return r
    exp = [py_bits(v) for v in vals]
    if not isinstance(out, np.ndarray) or out.shape != (len(vals), 16) or out.dtype != np.int8:
        r.bad.append(("split_sync returned %s (shape %s, dtype %s) for %d words; expected an int8 array (n, 16)" % (
            type(out).__name__, getattr(out, "shape", None), getattr(out, "dtype", None), len(vals)),
            {"kind": "split", "defect": "shape"}))
        r.out = [-2]
        return r
    r.out = [int(x) for x in out.ravel()]
    if out.tolist() != exp:
        i = next(i for i in range(len(vals)) if out[i].tolist() != exp[i])
        r.bad.append(("word %d decodes to %s, its bits are %s" % (vals[i], out[i].tolist(), exp[i]),
                      {"kind": "split", "defect": "bits"}))
    r.nontrivial = any(v % 65536 != 0 for v in vals)
    return r


def _sc(v, sc):
    """exact integer image of a value on the 1/sc grid."""
    q = Fraction(v) * sc
    assert q.denominator == 1, (v, sc)
    return int(q)


def _guarded(r, tags, f, arr, *a, **k):
    """call f(arr, ...) and check that it leaves its input alone."""
    before = arr.copy()
    out = f(arr, *a, **k)
    if not np.array_equal(before, arr):
        r.bad.append(("%s modified its input array in place" % f.__name__, dict(tags, defect="input_mutated")))
        arr[...] = before
    return out


def _fronts_oracle_1d(x, step, rstep, fstep):
    ind, sg, ri, fa = [], [], [], []
    for i in range(1, len(x)):
        d = x[i] - x[i - 1]
        if abs(d) >= step:
            ind.append(i)
            sg.append(d)
        if d >= rstep:
            ri.append(i)
        if d <= fstep:
            fa.append(i)
    return ind, sg, ri, fa


def exec_fronts1(case):
    from ibldsp import utils
    r = Result()
    mode = case["mode"]
    x = case["x"]
    step, rstep, fstep = case["step"], case["rstep"], case["fstep"]
    arr = np.array(x, dtype=_np_dtype(case["dtype"]))
    kw = {} if case.get("axis") is None else {"axis": case["axis"]}
    dflt = case.get("defaults", False)
    sc = case.get("scale", 1)     # values and steps are multiples of 1/scale (exact in binary floating point)
    tags = {"kind": "fronts1", "mode": mode}
    try:
        if mode in (2, 3):
            # 0/1 train held in a container without a sign: bool (mode 2) or uint8 (mode 3)
            arr = np.array(x, dtype=np.bool_ if mode == 2 else np.uint8)
            res = {}
            for name, f in (("fronts", lambda: _guarded(r, tags, utils.fronts, arr, **({} if dflt else {"step": step}), **kw)),
                            ("rises", lambda: _guarded(r, tags, utils.rises, arr, **({} if dflt else {"step": rstep}), **kw)),
                            ("falls", lambda: _guarded(r, tags, utils.falls, arr, **({} if dflt else {"step": fstep}), **kw))):
                res[name] = _try(f)
            r.inp = [1, step, rstep, fstep, mode] + [int(v) for v in x]
            e_ind, e_sg, e_ri, e_fa = _fronts_oracle_1d(x, step, rstep, fstep)
            out = []
            (fr, exc) = res["fronts"]
            if exc is not None:
                out += [-7, -7]
                g_ind, g_sg = None, None
            else:
                g_ind, g_sg = [int(i) for i in fr[0]], [int(v) for v in fr[1]]
                out += [len(g_ind)] + g_ind + [len(g_sg)] + g_sg
            g = {}
            for name in ("rises", "falls"):
                val, exc = res[name]
                g[name] = None if exc is not None else [int(i) for i in val]
                out += [-7] if exc is not None else [len(g[name])] + g[name]
            r.out = out
            ctags = dict(tags, container="bool" if mode == 2 else "uint8")
            if g_ind != e_ind and (step, rstep, fstep) == (1, 1, -1):
                r.bad.append(("fronts indices on a %s train are %s, its changes are at %s" % (
                    ctags["container"], g_ind and g_ind[:8], e_ind[:8]), dict(ctags, defect="indices")))
            elif g_ind != e_ind or g_sg != e_sg or g["rises"] != e_ri or g["falls"] != e_fa:
                r.bad.append(("%s train %s: polarities %s (expected %s), rises %s (expected %s), falls %s (expected %s)"
                              % (ctags["container"], x[:10], g_sg and g_sg[:6], e_sg[:6], g["rises"] and g["rises"][:6],
                                 e_ri[:6], "raises %r" % (res["falls"][1],) if g["falls"] is None else g["falls"][:6],
                                 e_fa[:6]), dict(ctags, defect="unsigned_container_polarity")))
            r.nontrivial = len(e_ind) > 0
            return r
        if mode == 0:
            key = int
            if dflt:
                ind, sg = _guarded(r, tags, utils.fronts, arr, **kw)
                ri = _guarded(r, tags, utils.rises, arr, **kw)
                fa = _guarded(r, tags, utils.falls, arr, **kw)
            else:
                ind, sg = _guarded(r, tags, utils.fronts, arr, step=step, **kw)
                ri = _guarded(r, tags, utils.rises, arr, step=rstep, **kw)
                fa = _guarded(r, tags, utils.falls, arr, step=fstep, **kw)
            e_ind, e_sg, e_ri, e_fa = _fronts_oracle_1d(x, step, rstep, fstep)
            shapes_ok = ind.ndim == 1 and sg.ndim == 1 and ri.ndim == 1 and fa.ndim == 1
            got = ([int(i) for i in ind], [v for v in np.asarray(sg).tolist()], [int(i) for i in ri],
                   [int(i) for i in fa])
            if not all(float(v * sc).is_integer() for v in got[1]):
                r.bad.append(("fronts returned polarities off the grid of the input values", tags))
            got = (got[0], [int(round(v * sc)) for v in got[1]], got[2], got[3])
            e_sg = [_sc(v, sc) for v in e_sg]
            if not shapes_ok or got != (e_ind, e_sg, e_ri, e_fa):
                what = ["fronts indices", "fronts polarities", "rises", "falls"]
                exp = (e_ind, e_sg, e_ri, e_fa)
                k = next((j for j in range(4) if got[j] != exp[j]), 0)
                q = next((j for j, (a, b) in enumerate(zip(got[k], exp[k])) if a != b), min(len(got[k]), len(exp[k])))
                r.bad.append(("%s (%d returned, %d expected) from position %d: %s, the changes of the line give %s" % (
                    what[k], len(got[k]), len(exp[k]), q, got[k][q:q + 6], exp[k][q:q + 6]),
                    dict(tags, defect=what[k].split()[0])))
            r.inp = [1, _sc(step, sc), _sc(rstep, sc), _sc(fstep, sc), 0] + [_sc(v, sc) for v in x]
            r.out = ([len(got[0])] + got[0] + [len(got[1])] + got[1] + [len(got[2])] + got[2]
                     + [len(got[3])] + got[3])
            r.nontrivial = len(e_ind) > 0
        else:
            # analog=True: only comparisons with the threshold matter -> order keys
            ri = _guarded(r, tags, utils.rises, arr, step=rstep, analog=True, **kw)
            fa = _guarded(r, tags, utils.falls, arr, step=fstep, analog=True, **kw)
            e_ri = [i for i in range(1, len(x)) if x[i] > rstep and not x[i - 1] > rstep]
            e_fa = [i for i in range(1, len(x)) if x[i] < fstep and not x[i - 1] < fstep]
            got = ([int(i) for i in ri], [int(i) for i in fa])
            if got != (e_ri, e_fa) or ri.ndim != 1 or fa.ndim != 1:
                r.bad.append(("analog rises/falls are %s / %s, threshold crossings are %s / %s" % (
                    got[0][:8], got[1][:8], e_ri[:8], e_fa[:8]), dict(tags, defect="analog")))
            key = rank_keys(list(x) + [rstep, fstep])
            # one key space for both thresholds: model gets key(rstep), key(fstep)
            r.inp = [1, 0, key(rstep), key(fstep), 1] + [key(v) for v in x]
            r.out = [len(got[0])] + got[0] + [len(got[1])] + got[1]
            r.nontrivial = len(e_ri) + len(e_fa) > 0
    except _IMPL_EXC as e:
        r.bad.append(("fronts/rises/falls raised %r" % (e,), dict(tags, defect="exception")))
        r.out = [-1]
        if r.inp is None:
            r.inp = [1, 0, 0, 0, 0]
    return r


def _fronts_oracle_2d(X, axis, step, rstep, fstep):
    nr = len(X)
    nc = len(X[0]) if nr else 0
    fr, ri, fa = [], [], []
    # row-major order of the difference array
    if axis == 0:
        pos = [(i, j, X[i][j] - X[i - 1][j]) for i in range(1, nr) for j in range(nc)]
    else:
        pos = [(i, j, X[i][j] - X[i][j - 1]) for i in range(nr) for j in range(1, nc)]
    for i, j, d in pos:
        if abs(d) >= step:
            fr.append((i, j, d))
        if d >= rstep:
            ri.append((i, j))
        if d <= fstep:
            fa.append((i, j))
    return fr, ri, fa


def exec_fronts2(case):
    from ibldsp import utils
    r = Result()
    nr, nc = case["shape"]
    x = case["x"]
    mode = case["mode"]
    step, rstep, fstep = case["step"], case["rstep"], case["fstep"]
    axis = case["axis"]
    ax = axis % 2
    X = [x[i * nc:(i + 1) * nc] for i in range(nr)]
    sc = case.get("scale", 1)
    arr = np.array(x, dtype=_np_dtype(case["dtype"])).reshape(nr, nc)
    if case.get("layout") == "fortran":
        arr = np.asfortranarray(arr)
    kw = {} if (axis == -1 and case.get("omit_axis")) else {"axis": axis}
    tags = {"kind": "fronts2", "mode": mode, "axis": ax}
    try:
        if mode == 0:
            if case.get("defaults"):
                ind, sg = _guarded(r, tags, utils.fronts, arr, **kw)
                ri = _guarded(r, tags, utils.rises, arr, **kw)
                fa = _guarded(r, tags, utils.falls, arr, **kw)
            else:
                ind, sg = _guarded(r, tags, utils.fronts, arr, step=step, **kw)
                ri = _guarded(r, tags, utils.rises, arr, step=rstep, **kw)
                fa = _guarded(r, tags, utils.falls, arr, step=fstep, **kw)
            e_fr, e_ri, e_fa = _fronts_oracle_2d(X, ax, step, rstep, fstep)
            ok_shape = (np.asarray(ind).shape == (2, len(sg)) and np.asarray(ri).ndim == 2
                        and np.asarray(ri).shape[0] == 2 and np.asarray(fa).shape[0] == 2)
            if not ok_shape:
                r.bad.append(("2-D fronts/rises/falls do not return (2, K) index arrays", dict(tags, defect="shape")))
                r.out = [-2]
            else:
                g_fr = [(int(a), int(b), _sc(c, sc)) for a, b, c in zip(ind[0], ind[1], np.asarray(sg).tolist())]
                e_fr = [(a, b, _sc(c, sc)) for a, b, c in e_fr]
                g_ri = [(int(a), int(b)) for a, b in zip(ri[0], ri[1])]
                g_fa = [(int(a), int(b)) for a, b in zip(fa[0], fa[1])]
                if (g_fr, g_ri, g_fa) != (e_fr, e_ri, e_fa):
                    what = ["fronts", "rises", "falls"]
                    k = next(j for j in range(3) if (g_fr, g_ri, g_fa)[j] != (e_fr, e_ri, e_fa)[j])
                    r.bad.append(("2-D %s along axis %d are %s, the changes of the traces are %s" % (
                        what[k], axis, (g_fr, g_ri, g_fa)[k][:6], (e_fr, e_ri, e_fa)[k][:6]),
                        dict(tags, defect=what[k])))
                r.out = ([len(g_fr)] + [v for t in g_fr for v in t] + [len(g_ri)] + [v for t in g_ri for v in t]
                         + [len(g_fa)] + [v for t in g_fa for v in t])
                r.nontrivial = len(e_fr) > 0
            r.inp = [2, ax, _sc(step, sc), _sc(rstep, sc), _sc(fstep, sc), 0, nr, nc] + [_sc(v, sc) for v in x]
        else:
            ri = _guarded(r, tags, utils.rises, arr, step=rstep, analog=True, **kw)
            fa = _guarded(r, tags, utils.falls, arr, step=fstep, analog=True, **kw)
            B = [[1 if v > rstep else 0 for v in row] for row in X]
            C = [[1 if v < fstep else 0 for v in row] for row in X]
            _, e_ri, _ = _fronts_oracle_2d(B, ax, 1, 1, -1)
            _, e_fa, _ = _fronts_oracle_2d(C, ax, 1, 1, -1)
            g_ri = [(int(a), int(b)) for a, b in zip(ri[0], ri[1])]
            g_fa = [(int(a), int(b)) for a, b in zip(fa[0], fa[1])]
            if (g_ri, g_fa) != (e_ri, e_fa):
                r.bad.append(("2-D analog rises/falls along axis %d are %s / %s, threshold crossings are %s / %s" % (
                    axis, g_ri[:6], g_fa[:6], e_ri[:6], e_fa[:6]), dict(tags, defect="analog")))
            key = rank_keys(list(x) + [rstep, fstep])
            r.inp = [2, ax, 0, key(rstep), key(fstep), 1, nr, nc] + [key(v) for v in x]
            r.out = [len(g_ri)] + [v for t in g_ri for v in t] + [len(g_fa)] + [v for t in g_fa for v in t]
            r.nontrivial = len(e_ri) + len(e_fa) > 0
    except _IMPL_EXC as e:
        r.bad.append(("2-D fronts/rises/falls raised %r" % (e,), dict(tags, defect="exception")))
        r.out = [-1]
        if r.inp is None:
            r.inp = [2, ax, 0, 0, 0, 0, 0, 0]
    return r


def _layout(typ, counts, nc):
    """(sync word columns, analog columns) the property expects."""
    if typ == "nidq":
        mn, ma, xa, dw = counts
        return list(range(nc - dw, nc)), list(range(mn + ma, mn + ma + xa))
    return list(range(nc - counts[2], nc)), []


def _adjust(i, n):
    if i < 0:
        return max(i + n, 0)
    return min(i, n)


THR_DEFAULT = float(np.float32(1.2))     # read_sync's default threshold as the float32 comparison sees it


def exact_floor(vals):
    """np.percentile(vals, 10) (method 'linear') in exact rational arithmetic; also whether the float
    computation is exact (no interpolation between different values)."""
    srt = sorted(vals)
    n = len(srt)
    lo, g = divmod(n - 1, 10)
    hi = min(lo + 1, n - 1)
    p = Fraction(srt[lo]) + Fraction(srt[hi] - srt[lo]) * g / 10
    return p, (g == 0 or srt[lo] == srt[hi])


def analog_safety(D, sel, acols, gain_f, thr_eff, use_floor):
    """expected analog bits (exact arithmetic) and whether float32 rounding could flip one of them:
    the floor is interpolated (inexact in float32) and some sample sits within 64 float32 ulps of
    floor + threshold (the implementation's error is below 4 ulps: margin >= 10x)."""
    bits = [[0] * len(acols) for _ in sel]
    safe = True
    for c, col in enumerate(acols):
        vals = [Fraction(int(D[t, col])) * gain_f for t in sel]
        if use_floor and vals:
            p, exact = exact_floor(vals)
        else:
            p, exact = Fraction(0), True
        big = max([abs(v) for v in vals] + [abs(p), Fraction(1, 1024)])
        tol = big * 64 / 2 ** 24
        for k, v in enumerate(vals):
            m = v - p - Fraction(thr_eff)
            bits[k][c] = 1 if m >= 0 else 0
            if not exact and abs(m) < tol:
                safe = False
    return bits, safe


def _enc_rows(a):
    try:
        a = np.asarray(a)
        if a.ndim != 2 or a.dtype.kind not in "iub":
            return [-3, a.ndim]
        return [1, a.shape[0]] + [v for row in a.tolist() for v in [len(row)] + [int(q) for q in row]]
    except _IMPL_EXC:
        return [-4]


def _enc_volts(a):
    if a is None:
        return [2]
    try:
        a = np.asarray(a, dtype=np.float64)
    except _IMPL_EXC:
        return [-4]
    if a.ndim != 2 or not np.all(np.isfinite(a)):
        return [-3, a.ndim]
    out = [1, a.shape[0]]
    for row in a.tolist():
        out.append(len(row))
        for q in row:
            f = Fraction(float(q)) * ONE
            out.append(int(f) if f.denominator == 1 else -(10 ** 17))
    return out


def _try(f):
    try:
        return f(), None
    except _IMPL_EXC as e:       # noqa
        return None, e


def exec_sync_read(case):
    """Mock recording -> Reader.read_sync / read_sync_digital / read_sync_analog / read(...)[1]."""
    import spikeglx
    r = Result()
    typ, counts, ns = case["typ"], case["counts"], case["ns"]
    data = case["data"]
    nc = case["nc"]
    range_max = case.get("range_max", 4)
    sl = case.get("slice")
    thr = case.get("threshold")
    fl = case.get("floor", "default")
    tags = {"kind": "sync_read", "typ": "nidq" if typ == "nidq" else "imec"}
    D = np.array(data, dtype=np.int64).reshape(ns, nc)
    wcols, acols = _layout(typ, counts, nc)
    start, stop = (0, 10000) if sl is None else sl[:2]
    step = 1 if (sl is None or len(sl) < 3) else sl[2]           # python slice step >= 1
    a, b = _adjust(start, ns), _adjust(stop, ns)
    sel = list(range(a, max(a, b)))[::step]
    gain_f = Fraction(range_max) / 32768            # volts per count (analog sync: no amplifier gain)
    gain_i = gain_f * ONE
    assert gain_i.denominator == 1
    thr_eff = float(np.float32(1.2 if thr is None else thr))   # comparison happens in float32
    thr_i = Fraction(thr_eff) * ONE
    thr_d = Fraction(THR_DEFAULT) * ONE
    assert thr_i.denominator == 1 and thr_d.denominator == 1, "threshold not representable in the model's unit"
    use_floor = (fl == "default") or bool(fl)
    in_domain = len(wcols) == 1                     # the property speaks of THE sync word of a sample
    r.info["in_domain"] = in_domain
    exp_an, safe1 = analog_safety(D, sel, acols, gain_f, thr_eff, use_floor)
    exp_an_d, safe2 = analog_safety(D, sel, acols, gain_f, THR_DEFAULT, True)
    if not (safe1 and safe2):
        r.info["unsafe"] = True
    tmp = common.tmpdir("C10_")
    sr = None
    try:
        p = write_recording(tmp, typ, counts, ns, data, range_max, case.get("meta_dur"), case.get("tail_bytes", 0),
                            case.get("gains"))
        if case.get("path_as_str"):
            p = str(p)
        try:
            sr = spikeglx.Reader(p)
        except _IMPL_EXC as e:
            r.bad.append(("spikeglx.Reader could not open a valid recording: %r" % (e,), dict(tags, defect="open")))
            return r
        kwargs = {}
        if thr is not None:
            kwargs["threshold"] = thr
        if fl != "default":
            kwargs["floor_percentile"] = fl
        args = () if sl is None else ((slice(start, stop),) if step == 1 else (slice(start, stop, step),))
        if sl is not None and case.get("np_slice"):
            args = (slice(np.int64(start), np.int64(stop), None if step == 1 else np.int64(step)),)
        order = case.get("call_order", 0)            # the reader is stateful (memmap): vary the call sequence
        calls = {"rs": lambda: sr.read_sync(*args, **kwargs), "dg": lambda: sr.read_sync_digital(*args),
                 "an": lambda: sr.read_sync_analog(*args),
                 "rd": lambda: sr.read(*args)[1]}
        seq = [["rs", "dg", "an", "rd"], ["rd", "an", "dg", "rs"], ["an", "rs", "rd", "dg", "rs"]][order % 3]
        got = {}
        for name in seq:
            val, exc = _try(calls[name])
            if name in got and exc is None and got[name][1] is None and not np.array_equal(got[name][0], val):
                r.bad.append(("read_sync returns a different array when called again on the same reader",
                              dict(tags, defect="stateful")))
            got[name] = (val, exc)
        r.inp = ([4, 1 if typ == "nidq" else 0] + list(counts) + ([0] if typ != "nidq" else []) +
                 [nc, start, stop, step, ONE, int(thr_i), int(gain_i), 1 if use_floor else 0, int(thr_d), ns] +
                 [int(v) for v in data])
        r.out = []
        for name in ("rs", "dg", "an", "rd"):
            val, exc = got[name]
            if exc is not None:
                r.out += [0]
            elif name == "an":
                r.out += _enc_volts(val)
            else:
                r.out += _enc_rows(val)
        if r.info.get("unsafe"):
            return r
        # ---- the property's predicate (domain: one sync word per sample)
        if not in_domain:
            r.info["observation"] = "recording with %d sync words: %s" % (
                len(wcols), "; ".join("%s -> %s" % (n, "raises " + type(got[n][1]).__name__ if got[n][1] is not None
                                                    else "shape " + str(np.shape(got[n][0]))) for n in ("rs", "dg")))
            return r
        # measured, not proved: the float32 percentile against the exact one, in units of 2^-24 * magnitude
        an_v, an_e = got["an"]
        if acols and sel and an_e is None and isinstance(an_v, np.ndarray) and an_v.shape == (len(sel), len(acols)):
            pc, pe = _try(lambda: np.percentile(np.array(an_v, copy=True), 10, axis=0))
            if pe is None:
                worst = 0.0
                for c, col in enumerate(acols):
                    vals = [Fraction(int(D[t, col])) * gain_f for t in sel]
                    pex = exact_floor(vals)[0]
                    big = max([abs(v) for v in vals] + [abs(pex), Fraction(1, 1024)])
                    worst = max(worst, float(abs(Fraction(float(pc[c])) - pex) / big * 2 ** 24))
                r.info["floor_err_ulps"] = worst
        dig = [py_bits(D[t, wcols[0]]) for t in sel]
        for name, eb, this_thr in (("rs", exp_an, thr_eff), ("rd", exp_an_d, THR_DEFAULT)):
            val, exc = got[name]
            what = "read_sync" if name == "rs" else "Reader.read(...)[1]"
            if exc is not None:
                d = "exception"
                r.bad.append(("%s raised %r for %d selected samples; the recording has 1 sync word and %d analog "
                              "sync channel(s)" % (what, exc, len(sel), len(acols)), dict(tags, defect=d)))
                continue
            if this_thr <= 0:
                continue          # a non-positive threshold makes every analog sample read 1 (model theorem)
            s = np.asarray(val)
            exp_rows = [dig[k] + eb[k] for k in range(len(sel))]
            if s.shape != (len(sel), 16 + len(acols)):
                r.bad.append(("%s returned shape %s for %d samples, 16 digital + %d analog lines" % (
                    what, s.shape, len(sel), len(acols)), dict(tags, defect="shape")))
            elif s.dtype != np.int8:
                r.bad.append(("%s returned dtype %s" % (what, s.dtype), dict(tags, defect="dtype")))
            elif s.tolist() != exp_rows:
                t = next(i for i in range(len(sel)) if s[i].tolist() != exp_rows[i])
                k = next(j for j in range(s.shape[1]) if s[t, j] != exp_rows[t][j])
                r.bad.append(("%s row %d column %d is %d, expected %d (%s line)" % (
                    what, sel[t], k, s[t, k], exp_rows[t][k], "digital" if k < 16 else "analog"),
                    dict(tags, defect="digital" if k < 16 else "analog")))
        dg, exc = got["dg"]
        if exc is not None:
            r.bad.append(("read_sync_digital raised %r" % (exc,), dict(tags, defect="digital_api")))
        elif np.asarray(dg).shape != (len(sel), 16) or np.asarray(dg).tolist() != dig:
            r.bad.append(("read_sync_digital is not one row of 16 decoded lines per selected sample",
                          dict(tags, defect="digital_api")))
        an2, exc = got["an"]
        if exc is not None:
            r.bad.append(("read_sync_analog raised %r" % (exc,), dict(tags, defect="analog_api")))
        elif (an2 is None) != (len(acols) == 0) or (an2 is not None and (
                not isinstance(an2, np.ndarray) or an2.shape != (len(sel), len(acols)) or an2.dtype != np.float32)):
            r.bad.append(("read_sync_analog is not None / a float32 (n, %d) array as the recording's analog lines "
                          "require" % len(acols),
                          dict(tags, defect="analog_api")))
        elif an2 is not None:
            expv = np.array([[float(Fraction(int(D[t, col])) * gain_f) for col in acols] for t in sel],
                            dtype=np.float32).reshape(len(sel), len(acols))
            if not np.array_equal(an2, expv):
                r.bad.append(("read_sync_analog volts differ from sample * range / 32768",
                              dict(tags, defect="analog_api")))
        r.nontrivial = len(sel) > 0 and got["rs"][1] is None and bool(np.any(got["rs"][0]))
        return r
    finally:
        if sr is not None:
            try:
                sr.close()
            except Exception:
                pass
        shutil.rmtree(tmp, ignore_errors=True)


def render_lines(ns, lines):
    """levels[t][k]: initial level toggled at every event time (python loop, independent of the model)."""
    lev = [[0] * 16 for _ in range(ns)]
    for k, (init, evs) in enumerate(lines):
        cur = init
        es = set(evs)
        for t in range(ns):
            if t in es:
                cur = 1 - cur
            lev[t][k] = cur
    return lev


def exec_ttl(case):
    """TTL trains -> words -> mock recording -> read_sync -> fronts on every line."""
    import spikeglx
    from ibldsp import utils
    r = Result()
    typ, ns, lines = case["typ"], case["ns"], case["lines"]
    tags = {"kind": "ttl", "typ": "nidq" if typ == "nidq" else "imec"}
    lev = render_lines(ns, lines)
    words_u = [sum(b << k for k, b in enumerate(row)) for row in lev]
    words = [w - 65536 if w >= 32768 else w for w in words_u]
    if typ == "nidq":
        counts, nc = case.get("counts", [0, 0, 0, 1]), None
        nc = sum(counts)
    else:
        counts, nc = ([384, 0, 1] if typ == "ap" else [0, 384, 1]), 385
    rs = np.random.RandomState(case.get("fill_seed", 0))
    D = rs.randint(-2000, 2000, size=(ns, nc)).astype(np.int64)
    D[:, nc - 1] = words
    r.inp = [5, ns] + [v for init, evs in lines for v in [init, len(evs)] + list(evs)]
    tmp = common.tmpdir("C10_")
    sr = None
    try:
        p = write_recording(tmp, typ, counts, ns, D.ravel().tolist(), 4, case.get("meta_dur"),
                            case.get("tail_bytes", 0), case.get("gains"))
        try:
            sr = spikeglx.Reader(p)
        except _IMPL_EXC as e:
            r.bad.append(("spikeglx.Reader could not open a valid recording: %r" % (e,), dict(tags, defect="open")))
            r.out = [-1]
            return r
        try:
            s = sr.read_sync(slice(0, ns))
            if case.get("via_read"):
                _, s2 = sr.read(slice(0, ns))
                if not np.array_equal(s, s2):
                    r.bad.append(("Reader.read(...)[1] differs from read_sync", dict(tags, defect="read_api")))
            if not isinstance(s, np.ndarray) or s.ndim != 2 or s.shape[0] != ns or s.shape[1] < 16:
                r.bad.append(("read_sync returned %s of shape %s for %d samples" % (
                    type(s).__name__, getattr(s, "shape", None), ns), dict(tags, defect="shape")))
                r.out = [-2]
                return r
            s_before = s.copy()
            per = []
            for k in range(16):
                ind, sg = utils.fronts(s[:, k])
                per.append(([int(i) for i in ind], [int(v) for v in sg]))
                ri = [int(i) for i in utils.rises(s[:, k])]
                fa = [int(i) for i in utils.falls(s[:, k])]
                e_ri = [i for i, v in zip(*per[-1]) if v > 0]
                e_fa = [i for i, v in zip(*per[-1]) if v < 0]
                if ri != e_ri or fa != e_fa:
                    r.bad.append(("rises/falls of line %d are not the positive/negative fronts" % k,
                                  dict(tags, defect="halves")))
            # the same through the 2-D interface, lines as rows / as columns
            i2, s2 = utils.fronts(s[:, :16].T)
            flat = [(int(a), int(b), int(c)) for a, b, c in zip(i2[0], i2[1], s2)]
            exp2 = [(k, i, v) for k in range(16) for i, v in zip(*per[k])]
            i0, s0 = utils.fronts(s[:, :16], axis=0)
            flat0 = sorted((int(b), int(a), int(c)) for a, b, c in zip(i0[0], i0[1], s0))
            if flat != exp2 or flat0 != exp2:
                r.bad.append(("2-D fronts over the 16 lines differ from the per-line fronts", dict(tags, defect="2d")))
            if not np.array_equal(s, s_before):
                r.bad.append(("front detection modified the sync array in place", dict(tags, defect="input_mutated")))
        except _IMPL_EXC as e:
            r.bad.append(("reading / front detection raised %r" % (e,), dict(tags, defect="exception")))
            r.out = [-1]
            return r
        r.out = [ns] + words
        for k in range(16):
            r.out += [len(per[k][0])] + per[k][0] + [len(per[k][1])] + per[k][1]
        # ---- the property: every event of every line, nothing else, right polarity
        for k, (init, evs) in enumerate(lines):
            pol, cur = [], init
            for _ in evs:
                pol.append(1 if cur == 0 else -1)
                cur = 1 - cur
            if per[k][0] != list(evs) or per[k][1] != pol:
                r.bad.append(("line %d: events written at %s (polarity %s) recovered as %s (%s)" % (
                    k, list(evs)[:8], pol[:8], per[k][0][:8], per[k][1][:8]), dict(tags, defect="events")))
                break
        r.nontrivial = any(len(evs) > 0 for _, evs in lines)
        return r
    finally:
        if sr is not None:
            try:
                sr.close()
            except Exception:
                pass
        shutil.rmtree(tmp, ignore_errors=True)


def exec_nometa(case):
    """Flat binary opened without meta data (nc=385, one sync word): the digital lines of the LAST trace
    (repair 87031c9), no analog lines; read_sync and read(...)[1] likewise.  Oracle only."""
    import spikeglx
    r = Result()
    ns = case["ns"]
    rs = np.random.RandomState(case["fill_seed"])
    D = rs.randint(-3000, 3000, size=(ns, 385)).astype(np.int16)
    D[:, -1] = rs.randint(-32768, 32768, size=ns)
    bits = [py_bits(v) for v in D[:, -1]]
    tmp = common.tmpdir("C10_")
    sr = None
    tags = {"kind": "sync_read", "typ": "flat_no_meta"}
    try:
        p = tmp / "flat.bin"
        D.tofile(p)
        try:
            sr = spikeglx.Reader(p)
        except _IMPL_EXC as e:
            r.bad.append(("spikeglx.Reader could not open a flat binary: %r" % (e,), dict(tags, defect="open")))
            return r
        an, exc = _try(lambda: sr.read_sync_analog(slice(0, ns)))
        if exc is not None or an is not None:
            r.bad.append(("meta-less reader: read_sync_analog should return None (no analog sync known), got %r / %r"
                          % (type(an).__name__, exc), dict(tags, defect="analog_api")))
        sels = [("slice(0, ns)", slice(0, ns), list(range(ns))), ("default slice", None, list(range(ns))),
                ("slice(3, 1)", slice(3, 1), []), ("slice(-2, None)", slice(-2, None), [ns - 2, ns - 1]),
                ("[0, -1, 2]", [0, -1, 2], [0, ns - 1, 2]), ("-1", -1, [ns - 1]), ("np.int64(0)", np.int64(0), [0])]
        for label, sel, pos in sels:
            a = () if sel is None else (sel,)
            for name, call in (("read_sync_digital", lambda: sr.read_sync_digital(*a)),
                               ("read_sync", lambda: sr.read_sync(*a)), ("read(...)[1]", lambda: sr.read(*a)[1])):
                val, exc = _try(call)
                if exc is not None:
                    r.bad.append(("meta-less reader (nc=385, nsync=%s): %s(%s) raised %r" % (sr.nsync, name, label, exc),
                                  dict(tags, defect="no_meta")))
                elif (not isinstance(val, np.ndarray) or val.dtype != np.int8 or val.shape != (len(pos), 16)
                      or val.tolist() != [bits[t] for t in pos]):
                    r.bad.append(("meta-less reader: %s(%s) is not the decoded last trace of the selected samples "
                                  "(got %s %s)" % (name, label, type(val).__name__, getattr(val, "shape", None)),
                                  dict(tags, defect="digital")))
        r.nontrivial = True
        return r
    finally:
        if sr is not None:
            try:
                sr.close()
            except Exception:
                pass
        shutil.rmtree(tmp, ignore_errors=True)


def exec_long_read(case):
    """One long nidq read (> DEFAULT_BATCH_SIZE = 1e6 samples) whose beginning is not representative: the
    analog line idles high, then pulses.  The data are generated from the case's parameters (not stored).
    NumPy / exact-rational oracle only: the Coq model's insertion sort is quadratic and is not run on
    a million samples (the model's percentile runs on the whole column by definition, theorem
    C10_analog_line_alone)."""
    import spikeglx
    from ibldsp import utils
    r = Result()
    ns, seed = case["ns"], case["seed"]
    hi_until, period, width = case["high_until"], case["period"], case["width"]
    base, amp, range_max = case["base"], case["amp"], 4
    tags = {"kind": "long_read", "typ": "nidq"}
    rs = np.random.RandomState(seed)
    ana = np.full(ns, base, dtype=np.int64)
    ana[:hi_until] = base + amp                              # idle high
    starts = np.arange(hi_until + period, ns - width - 1, period)
    for st in starts:
        ana[st:st + width] = base + amp                      # then pulses
    ana += rs.randint(-3, 4, size=ns)                        # a little noise: the floor is interpolated
    words = rs.randint(-32768, 32768, size=ns).astype(np.int64)
    words[-3:] = [0, -1, 0x1234]                             # events on the very last samples
    D = np.stack([ana, words], axis=1)
    gain_f = Fraction(range_max) / 32768
    thr32 = Fraction(THR_DEFAULT)
    srt = np.sort(ana)
    lo, g = divmod(ns - 1, 10)
    hi = min(lo + 1, ns - 1)
    pfl = Fraction(int(srt[lo])) + Fraction(int(srt[hi] - srt[lo])) * g / 10          # exact floor, in counts
    cut = pfl + thr32 / gain_f                               # analog bit = 1 iff count >= cut
    if np.min(np.abs(ana.astype(np.float64) - float(cut))) < 50:
        r.info["unsafe"] = True                              # generator guarantee: pulses are far from the cut
        return r
    exp_an = (ana >= int(np.ceil(float(cut)))).astype(np.int8)
    if int(np.sum(np.diff(exp_an) == 1)) != len(starts) or not exp_an[0]:
        r.info["unsafe"] = True      # the scenario must keep the line high < 90 % of the whole read
        return r
    exp_dig = ((words[:, None] >> np.arange(16)[None, :]) & 1).astype(np.int8)
    tmp = common.tmpdir("C10_")
    sr = None
    try:
        p = write_recording(tmp, "nidq", [0, 0, 1, 1], ns, D, range_max, case.get("meta_dur"), 0, case.get("gains"))
        try:
            sr = spikeglx.Reader(p)
        except _IMPL_EXC as e:
            r.bad.append(("spikeglx.Reader could not open a valid recording: %r" % (e,), dict(tags, defect="open")))
            return r
        for name, call in (("read_sync(slice(0, ns))", lambda: sr.read_sync(slice(0, ns))),
                           ("read_sync(slice(None))", lambda: sr.read_sync(slice(None))),
                           ("read(slice(0, ns))[1]", lambda: sr.read(slice(0, ns), slice(0, 1))[1])):
            s, exc = _try(call)
            if exc is not None:
                r.bad.append(("%s raised %r on a %d-sample recording" % (name, exc, ns), dict(tags, defect="exception")))
                continue
            if not isinstance(s, np.ndarray) or s.shape != (ns, 17) or s.dtype != np.int8:
                r.bad.append(("%s returned %s shape %s dtype %s for %d samples with 16 digital + 1 analog lines" % (
                    name, type(s).__name__, getattr(s, "shape", None), getattr(s, "dtype", None), ns),
                    dict(tags, defect="shape")))
                continue
            if not np.array_equal(s[:, :16], exp_dig):
                t = int(np.argmax(np.any(s[:, :16] != exp_dig, axis=1)))
                r.bad.append(("%s: digital lines of sample %d are %s, the word is %d" % (
                    name, t, s[t, :16].tolist(), int(words[t])), dict(tags, defect="digital")))
            if not np.array_equal(s[:, 16], exp_an):
                t = int(np.argmax(s[:, 16] != exp_an))
                r.bad.append(("%s: analog line differs from (volts - 10th percentile of the whole read >= 1.2 V) on %d "
                              "samples, first at sample %d (got %d, expected %d; floor %.1f counts)" % (
                                  name, int(np.sum(s[:, 16] != exp_an)), t, s[t, 16], exp_an[t], float(pfl)),
                              dict(tags, defect="analog")))
            else:
                ri, fa = _try(lambda: (utils.rises(s[:, 16]).tolist(), utils.falls(s[:, 16]).tolist()))[0] or (None, None)
                e_ri = (np.flatnonzero(np.diff(exp_an) == 1) + 1).tolist()
                e_fa = (np.flatnonzero(np.diff(exp_an) == -1) + 1).tolist()
                if ri != e_ri or fa != e_fa:
                    r.bad.append(("%s: analog pulses recovered at %s.. / %s.., written at %s.. / %s.." % (
                        name, ri and ri[:4], fa and fa[:4], e_ri[:4], e_fa[:4]), dict(tags, defect="events")))
        r.nontrivial = True
        r.info["long_read_samples"] = ns
        return r
    finally:
        if sr is not None:
            try:
                sr.close()
            except Exception:
                pass
        shutil.rmtree(tmp, ignore_errors=True)


def gen_long_read(ctx):
    rng = ctx.rng
    out = [{"kind": "long_read", "ns": 1300000, "seed": rng.randrange(10 ** 6), "high_until": 1080000,
            "period": 20000, "width": 3000, "base": 300, "amp": 20000, "gains": [200, 10]}]
    if ctx.thorough():
        out += [{"kind": "long_read", "ns": 1100000, "seed": rng.randrange(10 ** 6), "high_until": 920000,
                 "period": 5000, "width": 700, "base": -150, "amp": 15000, "meta_dur": ["decimals", 4]},
                {"kind": "long_read", "ns": 2500000, "seed": rng.randrange(10 ** 6), "high_until": 1200000,
                 "period": 100000, "width": 40000, "base": 0, "amp": 27000}]
    return out


def _sel_object(sel):
    """case selector -> (python object passed to the reader, model encoding, positions on an axis of n)."""
    kind = sel[0]
    if kind == "int":
        cast = {"py": int, "i64": np.int64, "i32": np.int32, "i16": np.int16}[sel[2]]
        return cast(sel[1]), [0, int(sel[1])]
    if kind == "slice":
        a, b, c = sel[1], sel[2], sel[3]
        enc = [1]
        for v in (a, b, c):
            enc += [0, 0] if v is None else [1, int(v)]
        return slice(a, b, c), enc
    items = [int(v) for v in sel[1]]
    obj = np.array(items, dtype=np.int64) if sel[2] == "array" else items
    return obj, [2] + items


def _sel_positions(sel, n):
    """NumPy semantics on an axis of length n, written independently: list of positions or None (IndexError)."""
    if sel[0] == "int":
        i = int(sel[1])
        return [i % n] if -n <= i < n else None
    if sel[0] == "slice":
        return list(range(n))[slice(sel[1], sel[2], sel[3])]
    out = []
    for i in sel[1]:
        if not -n <= i < n:
            return None
        out.append(i % n)
    return out


def exec_sync_sel(case):
    """Reader.read_sync(sel) and Reader.read(sel)[1] for integer / slice (any step) / integer-list selectors."""
    import spikeglx
    r = Result()
    typ, counts, ns, nc = case["typ"], case["counts"], case["ns"], case["nc"]
    data, sel, range_max = case["data"], case["sel"], case.get("range_max", 4)
    fl = case.get("floor", "default")
    use_floor = (fl == "default") or bool(fl)
    tags = {"kind": "sync_sel", "typ": "nidq" if typ == "nidq" else "imec", "selector": sel[0]}
    D = np.array(data, dtype=np.int64).reshape(ns, nc)
    wcols, acols = _layout(typ, counts, nc)
    obj, senc = _sel_object(sel)
    pos = _sel_positions(sel, ns)
    gain_f = Fraction(range_max) / 32768
    gain_i = gain_f * ONE
    thr_d = Fraction(THR_DEFAULT) * ONE
    r.inp = ([6, 1 if typ == "nidq" else 0] + list(counts) + ([0] if typ != "nidq" else []) +
             [nc, ONE, int(thr_d), int(gain_i), 1 if use_floor else 0, int(thr_d), len(senc)] + senc +
             [ns] + [int(v) for v in data])
    exp = {}
    if pos is not None:
        for name, uf in (("rs", use_floor), ("rd", True)):
            bits, safe = analog_safety(D, pos, acols, gain_f, THR_DEFAULT, uf)
            if not safe:
                r.info["unsafe"] = True
            exp[name] = [py_bits(D[t, wcols[0]]) + bits[k] for k, t in enumerate(pos)]
    tmp = common.tmpdir("C10_")
    sr = None
    try:
        p = write_recording(tmp, typ, counts, ns, data, range_max, None, 0, case.get("gains"))
        try:
            sr = spikeglx.Reader(p)
        except _IMPL_EXC as e:
            r.bad.append(("spikeglx.Reader could not open a valid recording: %r" % (e,), dict(tags, defect="open")))
            return r
        kw = {} if fl == "default" else {"floor_percentile": fl}
        got = {"rs": _try(lambda: sr.read_sync(obj, **kw)), "rd": _try(lambda: sr.read(obj)[1])}
        r.out = []
        for name in ("rs", "rd"):
            val, exc = got[name]
            r.out += [0] if exc is not None else _enc_rows(val)
        if r.info.get("unsafe"):
            return r
        for name, what in (("rs", "read_sync(%r)" % (obj,)), ("rd", "read(%r)[1]" % (obj,))):
            val, exc = got[name]
            if pos is None:
                if not isinstance(exc, IndexError):
                    r.bad.append(("%s with an out-of-range selector on %d samples returned %s / raised %r instead "
                                  "of IndexError" % (what, ns, type(val).__name__, exc), dict(tags, defect="range")))
                continue
            if exc is not None:
                r.bad.append(("%s raised %r; the selector picks %d of %d samples (%d analog sync channels)" % (
                    what, exc, len(pos), ns, len(acols)), dict(tags, defect="exception")))
                continue
            s_ = val
            if not isinstance(s_, np.ndarray) or s_.dtype != np.int8 or s_.shape != (len(pos), 16 + len(acols)):
                r.bad.append(("%s returned %s shape %s dtype %s; the selector picks %d of %d samples: expected an int8 "
                              "(%d, %d) array" % (what, type(s_).__name__, getattr(s_, "shape", None),
                                                  getattr(s_, "dtype", None), len(pos), ns, len(pos), 16 + len(acols)),
                              dict(tags, defect="rows")))
            elif s_.tolist() != exp[name]:
                k = next(i for i in range(len(pos)) if s_[i].tolist() != exp[name][i])
                r.bad.append(("%s row %d is not sample %d of the recording decoded (as %s does)" % (
                    what, k, pos[k], "read_sync([i])" if sel[0] == "int" else "NumPy indexing of the full array"),
                    dict(tags, defect="rows")))
        r.nontrivial = bool(pos)
        return r
    finally:
        if sr is not None:
            try:
                sr.close()
            except Exception:
                pass
        shutil.rmtree(tmp, ignore_errors=True)


def gen_sync_sel(ctx):
    rng = ctx.rng
    cases = []
    layouts = [("ap", [384, 0, 1], 385), ("lf", [0, 384, 1], 385), ("nidq", [0, 0, 0, 1], 1), ("nidq", [0, 0, 1, 1], 2),
               ("nidq", [1, 0, 2, 1], 4), ("nidq", [2, 3, 0, 1], 6)]

    def recording(typ, counts, nc, ns):
        D = [[rng.randrange(-32768, 32768) for _ in range(nc)] for _ in range(ns)]
        if typ == "nidq":
            for c in range(counts[2]):            # clean TTL: baseline-dominated, pulses far from the threshold
                base = rng.choice([0, 40, -90])
                for t in range(ns):
                    D[t][counts[0] + counts[1] + c] = base + (rng.choice([15000, 20000]) if rng.random() < 0.3 else 0)
        return [v for row in D for v in row]

    # fixed: every boundary integer, as python int and as NumPy integers, on an imec and two nidq layouts
    for typ, counts, nc in (layouts[0], layouts[2], layouts[4]):
        ns = 9
        data = recording(typ, counts, nc, ns)
        for i in (0, 1, ns - 1, -1, -2, -ns, ns, -ns - 1):
            for how in (("py", "i64") if i in (-1, 0, ns - 1) else ("py",)):
                cases.append({"kind": "sync_sel", "typ": typ, "counts": counts, "ns": ns, "nc": nc, "data": data,
                              "sel": ["int", i, how], "floor": "default"})
        for sel in (["list", [-1], "list"], ["list", [0, ns - 1, -1, -ns], "array"], ["slice", -1, None, None],
                    ["slice", None, None, -1], ["slice", -1, 0, None], ["slice", ns - 1, None, -3], ["list", [], "list"]):
            cases.append({"kind": "sync_sel", "typ": typ, "counts": counts, "ns": ns, "nc": nc, "data": data,
                          "sel": sel, "floor": rng.choice(["default", 0])})
    n = 400 if ctx.thorough() else 50
    for j in range(n):
        typ, counts, nc = rng.choice(layouts)
        ns = rng.choice([1, 2, 5, 13]) if typ == "nidq" else rng.choice([1, 6])
        data = recording(typ, counts, nc, ns)
        u = rng.random()
        if u < 0.4:
            sel = ["int", rng.choice([0, 1, ns - 1, -1, -2, -ns, ns, -ns - 1, rng.randrange(-ns, ns)]),
                   rng.choice(["py", "py", "i64", "i32", "i16"])]
        elif u < 0.7:
            b = [None, 0, 1, -1, -2, ns, ns - 1, -ns, ns + 3, -ns - 3, rng.randrange(-ns, ns + 1)]
            sel = ["slice", rng.choice(b), rng.choice(b), rng.choice([None, 1, 2, -1, -2, 3, -5])]
        else:
            sel = ["list", [rng.randrange(-ns, ns) for _ in range(rng.choice([0, 1, 2, 5]))] +
                   ([rng.choice([ns, -ns - 1])] if rng.random() < 0.1 else []), rng.choice(["list", "array"])]
        cases.append({"kind": "sync_sel", "typ": typ, "counts": counts, "ns": ns, "nc": nc, "data": data, "sel": sel,
                      "floor": rng.choice(["default", "default", 0]), "gains": [200, rng.choice([1, 10])]})
    return cases


def exec_notopen(case):
    """Reader constructed with open=False: the three sync readers refuse with IOError (the guard of the
    anchored functions); after `with reader:` / open() they deliver the usual rows.  Oracle only."""
    import spikeglx
    r = Result()
    ns, seed = case["ns"], case["seed"]
    rs = np.random.RandomState(seed)
    D = np.stack([np.where(rs.rand(ns) < 0.3, 15000, 40), rs.randint(-32768, 32768, size=ns)], axis=1).astype(np.int64)
    tags = {"kind": "notopen", "typ": "nidq"}
    tmp = common.tmpdir("C10_")
    sr = None
    try:
        p = write_recording(tmp, "nidq", [0, 0, 1, 1], ns, D, 4)
        sr, exc = _try(lambda: spikeglx.Reader(p, open=False))
        if exc is not None:
            r.bad.append(("spikeglx.Reader(open=False) raised %r" % (exc,), dict(tags, defect="open")))
            return r
        for name, call in (("read_sync_digital", lambda: sr.read_sync_digital(slice(0, ns))),
                           ("read_sync_analog", lambda: sr.read_sync_analog(slice(0, ns))),
                           ("read_sync", lambda: sr.read_sync(slice(0, ns))),
                           ("read", lambda: sr.read(slice(0, ns)))):
            val, exc = _try(call)
            if not isinstance(exc, IOError):
                r.bad.append(("%s on a reader that was never opened returned %s / raised %r instead of IOError" % (
                    name, type(val).__name__, exc), dict(tags, defect="not_open_guard")))
        exp = np.concatenate([((D[:, 1][:, None] >> np.arange(16)[None, :]) & 1),
                              (D[:, 0] - 40 >= int(np.ceil(THR_DEFAULT * 32768 / 4)))[:, None]], axis=1).astype(np.int8)

        def opened():
            if case.get("how") == "with":
                with sr as rr:
                    return rr.read_sync(slice(0, ns))
            sr.open()
            return sr.read_sync(slice(0, ns))
        s, exc = _try(opened)
        if exc is not None or not isinstance(s, np.ndarray) or s.shape != exp.shape or not np.array_equal(s, exp):
            r.bad.append(("read_sync after opening the reader (%s) is not the decoded recording: %r" % (
                case.get("how"), exc), dict(tags, defect="after_open")))
        r.nontrivial = True
        return r
    finally:
        if sr is not None:
            try:
                sr.close()
            except Exception:
                pass
        shutil.rmtree(tmp, ignore_errors=True)


EXEC = {"sync_sel": exec_sync_sel, "notopen": exec_notopen, "long_read": exec_long_read, "split": exec_split, "fronts1": exec_fronts1, "fronts2": exec_fronts2,
        "sync_read": exec_sync_read, "ttl": exec_ttl, "nometa": exec_nometa}


def execute(case):
    return EXEC[case["kind"]](case)


def safe_execute(case):
    """execute(), never raising: whatever escapes (a BaseException subclass thrown by the implementation, a
    canonicaliser choking on an unexpected return value) becomes a Result with .crash set."""
    try:
        return execute(case)
    except BaseException as e:          # noqa
        if isinstance(e, KeyboardInterrupt):
            raise
        import traceback
        r = Result()
        r.crash = "%r | %s" % (e, traceback.format_exc()[-1200:])
        return r


def _worker(chunk):
    logging.disable(logging.CRITICAL)
    return [(i, safe_execute(c)) for i, c in chunk]


def run_cases(cases, budget_s, per_case_s=15, nproc=4, nchunk=16):
    """Run the implementation side of all cases in worker processes, so that an implementation that
    hangs or kills its process cannot hang or kill the check.  Returns (results by index, stuck cases,
    number of cases not run).  Results do not depend on the split into processes."""
    import multiprocessing as mp
    import os
    import time
    mpc = mp.get_context("fork")
    # scratch files of killed workers must not survive: everything goes under one directory removed at the end
    base = common.tmpdir("C10_run_")
    old_tmp = os.environ.get("TMPDIR")
    os.environ["TMPDIR"] = str(base)
    try:
        return _run_cases(mp, mpc, time, cases, budget_s, per_case_s, nproc, nchunk)
    finally:
        if old_tmp is None:
            os.environ.pop("TMPDIR", None)
        else:
            os.environ["TMPDIR"] = old_tmp
        shutil.rmtree(base, ignore_errors=True)


def _run_cases(mp, mpc, time, cases, budget_s, per_case_s, nproc, nchunk):
    chunks = [[(i, c) for i, c in enumerate(cases) if i % nchunk == k] for k in range(nchunk)]
    chunks = [ch for ch in chunks if ch]
    deadline = time.time() + budget_s
    results, pending = {}, []
    pool = mpc.Pool(nproc)
    try:
        asyncs = [pool.apply_async(_worker, (ch,)) for ch in chunks]
        procs = list(getattr(pool, "_pool", []))
        # wait for completion, the deadline, or the death of a worker (a lost task would never complete)
        while time.time() < deadline and not all(a.ready() for a in asyncs):
            if any(p.exitcode is not None for p in procs):
                time.sleep(1.0)          # let the surviving workers hand in what they have
                deadline = time.time()
                break
            time.sleep(0.1)
        for ch, a in zip(chunks, asyncs):
            try:
                if not a.ready():
                    raise mp.TimeoutError()
                for i, r in a.get(timeout=1.0):
                    results[i] = r
            except BaseException as e:      # noqa  (mp.TimeoutError, a dead worker, an unpicklable result)
                if isinstance(e, KeyboardInterrupt):
                    raise
                pending.append(ch)
    finally:
        if pending:
            pool.terminate()
        else:
            pool.close()          # normal end: let the workers exit by themselves (coverage data, atexit hooks)
        pool.join()
    stuck, notrun = [], 0
    if pending:
        todo = [ic for ch in pending for ic in ch]
        pool = mpc.Pool(nproc)
        try:
            asyncs = [(i, c, pool.apply_async(_worker, ([(i, c)],))) for i, c in todo]
            for i, c, a in asyncs:
                if len(stuck) >= 3:
                    notrun += 1
                    continue
                try:
                    results[i] = a.get(timeout=per_case_s)[0][1]
                except BaseException as e:      # noqa
                    if isinstance(e, KeyboardInterrupt):
                        raise
                    stuck.append((i, c, type(e).__name__))
        finally:
            pool.terminate()
            pool.join()
    return results, stuck, notrun


# --------------------------------------------------------------------------
# generators
# --------------------------------------------------------------------------
def gen_split(ctx):
    rng = ctx.rng
    cases = []
    # every 16-bit word, in a random order, as uint16 and (the same bits) as int16
    words = list(range(65536))
    rng.shuffle(words)
    for i in range(0, 65536, 1024):
        chunk = words[i:i + 1024]
        if (i // 1024) % 2 == 0:
            cases.append({"kind": "split", "dtype": "uint16", "values": chunk, "exhaustive": True})
        else:
            cases.append({"kind": "split", "dtype": "int16", "exhaustive": True,
                          "values": [w - 65536 if w >= 32768 else w for w in chunk]})
    # the same sweep in the other containers a sync trace arrives in
    step_ = 4096
    for ci, (dt, lay, shift) in enumerate([("int32", "plain", 0), ("int32", "plain", -65536), ("int64", "plain", 65536),
                                           ("uint32", "plain", 0), ("int16", "column", 0), ("uint16", "column", 0),
                                           ("int64", "list", 0), ("uint16", "strided", 0), ("int16", "reversed", 0)]):
        if not ctx.thorough() and ci >= 5:
            # quick tier: the remaining containers on a 1-in-4 sample of the chunks
            sel_chunks = range((ci % 4) * step_, 65536, 4 * step_)
        else:
            sel_chunks = range(0, 65536, step_)
        for i in sel_chunks:
            chunk = words[i:i + step_]
            if dt in ("int16",):
                vals = [w - 65536 if w >= 32768 else w for w in chunk]
            else:
                vals = [w + shift for w in chunk]
            cases.append({"kind": "split", "dtype": dt, "values": vals, "layout": lay, "exhaustive": True,
                          "container": "%s/%s/%d" % (dt, lay, shift)})
    edge = [0, 1, 2, 255, 256, 257, 127, 128, 32767, 32768, 65535, 65534, 0x00FF, 0xFF00, 0x0F0F, 0xF0F0,
            0x5555, 0xAAAA, 0x8000, 0x0080, 0x0100, 0x8001, 0x7FFE]
    nsmall = 300 if ctx.thorough() else 40
    for j in range(nsmall):
        n = rng.choice([1, 2, 3, 16, 17, 40, 100, 180])
        dt = rng.choice(["int16", "uint16", "int32", "int64", "int16", "uint16"])
        vals = [rng.choice(edge) if rng.random() < 0.4 else rng.randrange(65536) for _ in range(n)]
        if dt == "int16":
            vals = [w - 65536 if w >= 32768 else w for w in vals]
        elif dt in ("int32", "int64"):
            vals = [w + rng.choice([0, 0, -65536, 65536, 3 * 65536]) for w in vals]
        lay = rng.choice(["plain", "plain", "strided", "reversed", "column", "matrix"])
        c = {"kind": "split", "dtype": dt, "values": vals, "layout": lay}
        if lay == "matrix":
            ncol = rng.choice([2, 3, 4])
            c["values"] = vals = (vals * ncol)[: (max(1, len(vals) // ncol)) * ncol]
            c["ncol"] = ncol
        cases.append(c)
    cases.append({"kind": "split", "dtype": "int16", "values": []})
    return cases


def _train(rng, n, p_toggle):
    x, cur = [], rng.randrange(2)
    for _ in range(n):
        if rng.random() < p_toggle:
            cur = 1 - cur
        x.append(cur)
    return x


def gen_fronts(ctx):
    rng = ctx.rng
    cases = []
    n1 = 8000 if ctx.thorough() else 400
    for j in range(n1):
        kind = rng.random()
        n = rng.choice([0, 1, 2, 3, 4, 5, 8, 13, 30, 60, 120])
        c = {"kind": "fronts1", "mode": 0, "axis": rng.choice([None, None, -1, 0])}
        if kind < 0.35:      # TTL line as split_sync returns it
            c.update(dtype=rng.choice(["int8", "int8", "int64", "float64", "float32", "int16", "int32"]),
                     x=_train(rng, n, rng.choice([0.05, 0.3, 0.5, 1.0])), step=1, rstep=1, fstep=-1,
                     defaults=rng.random() < 0.7)
        elif kind < 0.75:    # multi-level integer signal, steps around the jump sizes
            lv = rng.choice([2, 3, 5, 9])
            x = [rng.randrange(-lv, lv + 1) for _ in range(n)]
            if rng.random() < 0.5:   # piecewise constant
                x = [x[(i // 3) % max(1, len(x))] for i in range(n)]
            s = rng.choice([0, 1, 2, 3, lv, 2 * lv, 2 * lv + 1])
            c.update(dtype=rng.choice(["int64", "float64", "int32", "float32"]), x=x,
                     step=rng.choice([s, s, -1]), rstep=rng.choice([s, 1, 0, -1, -2]),
                     fstep=rng.choice([-s, -1, 0, 1, 2]))
            if rng.random() < 0.4:      # values and steps on a quarter grid: jumps just below / at / above the step
                c.update(dtype=rng.choice(["float64", "float32"]), scale=4, x=[v / 4.0 for v in x],
                         step=c["step"] / 4.0 if rng.random() < 0.5 else float(rng.choice([1, 0.5, 0.75, 1.25])),
                         rstep=rng.choice([0.25, 0.5, 1.0, 0.75, -0.25]),
                         fstep=rng.choice([-0.25, -0.5, -1.0, -0.75, 0.25]))
        else:                # analog=True: samples within a few ulp of the threshold
            thr = rng.choice([3.0, 1.2, 0.0, -0.5, 2.5, 1e-3])
            fthr = rng.choice([thr, thr, rng.choice([3.0, 1.2, 0.0, -0.5])])
            pool = []
            for t in {thr, fthr}:
                v = t
                pool.append(v)
                up, dn = t, t
                for _ in range(2):
                    up = float(np.nextafter(up, np.inf))
                    dn = float(np.nextafter(dn, -np.inf))
                    pool += [up, dn]
                pool += [t + 1.0, t - 1.0]
            x = [rng.choice(pool) for _ in range(n)]
            c.update(mode=1, dtype="float64", x=x, step=0, rstep=thr, fstep=fthr)
        cases.append(c)
    # lines that start high / fall at the first detectable sample / single-sample pulses at both ends
    for x in ([1, 0], [1, 1, 0], [1, 0, 1], [0, 1], [1, 0, 0, 0, 1], [1, 1, 1, 1], [0, 0, 0, 1], [1, 0, 1, 0, 1, 0]):
        for dt in ("int8", "float32", "int64"):
            cases.append({"kind": "fronts1", "mode": 0, "axis": None, "dtype": dt, "x": x, "step": 1, "rstep": 1,
                          "fstep": -1, "defaults": True})
    # the same 0/1 trains in containers without a sign
    nb = 300 if ctx.thorough() else 40
    for j in range(nb):
        n = rng.choice([0, 1, 2, 3, 5, 9, 30])
        st = rng.choice([(1, 1, -1), (1, 1, -1), (0, 0, 0), (2, 2, -2), (1, 0, -2)])
        dflt = st == (1, 1, -1) and rng.random() < 0.7
        cases.append({"kind": "fronts1", "mode": rng.choice([2, 3]), "axis": rng.choice([None, -1, 0]),
                      "dtype": "int8", "x": [1, 0] if j == 0 else ([0, 1] if j == 1 else
                                                                    _train(rng, n, rng.choice([0.2, 0.5, 1.0]))),
                      "step": st[0], "rstep": st[1], "fstep": st[2], "defaults": dflt})
    n2 = 5000 if ctx.thorough() else 250
    for j in range(n2):
        nr, nc = rng.choice([(1, 1), (1, 7), (7, 1), (2, 2), (2, 9), (3, 5), (5, 3), (4, 16), (16, 12), (6, 40),
                             (0, 4), (3, 0), (2, 3)])
        axis = rng.choice([-1, -1, 0, 1, -2])
        kind = rng.random()
        c = {"kind": "fronts2", "mode": 0, "shape": [nr, nc], "axis": axis,
             "omit_axis": rng.random() < 0.5, "layout": rng.choice(["c", "c", "fortran"])}
        if kind < 0.4:
            x = []
            for _ in range(nr):
                x += _train(rng, nc, rng.choice([0.1, 0.4, 1.0]))
            c.update(dtype=rng.choice(["int8", "int64", "float64"]), x=x, step=1, rstep=1, fstep=-1,
                     defaults=rng.random() < 0.7)
        elif kind < 0.8:
            lv = rng.choice([2, 4, 7])
            s = rng.choice([0, 1, 2, lv, 2 * lv])
            c.update(dtype=rng.choice(["int64", "float64", "int32"]),
                     x=[rng.randrange(-lv, lv + 1) for _ in range(nr * nc)],
                     step=s, rstep=rng.choice([s, 1, 0, -1]), fstep=rng.choice([-s, -1, 0, 1]))
            if rng.random() < 0.4:
                c.update(dtype="float64", scale=4, x=[v / 4.0 for v in c["x"]],
                         step=float(rng.choice([1, 0.5, 0.75, 1.25, 0.25])),
                         rstep=rng.choice([0.25, 0.5, 1.0, 0.75]), fstep=rng.choice([-0.25, -0.5, -1.0, -0.75]))
        else:
            thr = rng.choice([3.0, 1.2, 0.0, -0.5])
            pool = [thr, float(np.nextafter(thr, np.inf)), float(np.nextafter(thr, -np.inf)), thr + 1, thr - 1,
                    float(np.nextafter(np.nextafter(thr, np.inf), np.inf))]
            c.update(mode=1, dtype="float64", x=[rng.choice(pool) for _ in range(nr * nc)],
                     step=0, rstep=thr, fstep=thr)
        cases.append(c)
    return cases


def _analog_column(rng, ns, base, thr_counts, noisy=None):
    """mostly at baseline (so the 10th percentile is the baseline), pulses whose height sits
    around the threshold: thr-1, thr, thr+1 counts above baseline."""
    if noisy is None:
        noisy = rng.random() < 0.5
    # noisy baseline: the order statistics around the 10 % point differ, so np.percentile interpolates
    col = [base + (rng.choice([-30, -20, -10, -7, -3, 0, 0, 2, 5, 10, 20]) if noisy else 0) for _ in range(ns)]
    high_duty = rng.random() < 0.35      # mostly high: the median sits on the pulses, the 10th percentile does not
    t = rng.randrange(0, max(1, ns // 4))
    while t < ns:
        ln = rng.choice([4, 6, 9]) if high_duty else rng.choice([1, 1, 2, 3, 5])
        h = thr_counts + rng.choice([-2, -1, -1, 0, 0, 0, 1, 1, 2, 50, 500, -500])
        for u in range(t, min(ns, t + ln)):
            col[u] = base + h
        t += ln + (rng.choice([1, 1, 2]) if high_duty else rng.choice([2, 4, 7, 11, 19]))
    if high_duty and ns >= 5:            # a quiet stretch of > 20 % so that the 10th percentile is the baseline
        q = ns // 4 + 1
        a = rng.randrange(0, ns - q + 1)
        for u in range(a, a + q):
            col[u] = base + (rng.choice([-10, -5, 0, 5, 10]) if noisy else 0)
    return col


def fixed_sync_read():
    """hand-picked boundary layouts, always run."""
    out = []
    for counts, sl, fl in [([0, 0, 1, 2], [0, 6], "default"), ([0, 0, 0, 2], [2, 3], "default"),
                           ([0, 0, 0, 3], [5, 10000], None), ([1, 0, 1, 2], [1, 2], 0), ([0, 0, 0, 2], [4, 4], 10),
                           ([1, 0, 1, 0], [0, 6], None), ([0, 1, 0, 0], [0, 6], "default"), ([0, 0, 2, 0], [3, 3], 0),
                           ([0, 0, 1, 1], [6, 9], "default"), ([0, 0, 1, 1], [6, 9], 0), ([2, 1, 3, 1], [0, 6], 0),
                           ([0, 0, 0, 1], None, "default"), ([0, 0, 0, 1], [-1, 10000], "default")]:
        nc = sum(counts)
        data = [((t * 7919 + c * 104729) % 65536) - 32768 for t in range(6) for c in range(nc)]
        out.append({"kind": "sync_read", "typ": "nidq", "counts": counts, "ns": 6, "nc": nc, "range_max": 4,
                    "data": data, "slice": sl, "threshold": 1.0, "floor": fl, "gains": [50, 10]})
    # a 3.3 V TTL on the XA channel next to MN and MA channels with amplifier gains 500 and 10
    for rmax, gains in ((5, [500, 10]), (4, [2, 100]), (10, [1, 0.5])):
        nsx, cts = 20, [1, 2, 1, 1]
        hi = int(round(3.3 / (rmax / 32768.0)))
        data = []
        for t in range(nsx):
            data += [1000 + t, -2000, 3000, hi if 5 <= t < 9 or t == 15 else 12, (t * 4099) % 65536 - 32768]
        out.append({"kind": "sync_read", "typ": "nidq", "counts": cts, "ns": nsx, "nc": 5, "range_max": rmax,
                    "data": data, "slice": None, "threshold": None, "floor": "default", "gains": gains})
    return out


def layout_grid(thorough):
    """nidq channel layouts over the MN+MA / XA grid, every XA channel carrying its own TTL train (pulses
    at different samples, different baselines): analog line k must be the k-th XA channel in on-disk
    order, also when the XA indices straddle a multiple of 8."""
    out = []
    sums = range(0, 18) if thorough else (5, 6, 7, 13, 14, 15, 23)
    for S in sums:
        for xa in ((0, 1, 2, 3, 4) if thorough else (2, 3, 4)):
            mn = S // 2
            counts = [mn, S - mn, xa, 1]
            nc, ns, rmax = sum(counts), 14, 5
            hi = int(round(3.3 / (rmax / 32768.0)))
            data = []
            for t in range(ns):
                row = [((t + 1) * (c + 3) * 37) % 4001 - 2000 for c in range(S)]
                row += [(10 * k + hi) if t in (2 + k, 8 + k) else 10 * k for k in range(xa)]
                row += [(t * 2657 + S) % 65536 - 32768]
                data += row
            out.append({"kind": "sync_read", "typ": "nidq", "counts": counts, "ns": ns, "nc": nc, "range_max": rmax,
                        "data": data, "slice": None, "threshold": None, "floor": "default",
                        "gains": [200, 10], "call_order": S % 3})
    return out


def gen_sync_read(ctx):
    rng = ctx.rng
    cases = fixed_sync_read() + layout_grid(ctx.thorough())
    n = 3000 if ctx.thorough() else 170
    for j in range(n):
        ns = rng.choice([1, 2, 11, 21, 31, 40, 50, 64])
        u = rng.random()
        range_max = rng.choice([4, 4, 2, 8, 5, 5, 2.5, 10, 1])
        thr = rng.choice([None, None, None, 1.2, 1.0, 0.5, 1.25, 2.0, 0.75])
        if u < 0.72:
            typ = "nidq"
            counts = [rng.choice([0, 0, 1, 2, 4, 6, 8]), rng.choice([0, 0, 1, 3, 5, 7]),
                      rng.choice([0, 1, 1, 2, 3, 4]), 1]
        elif u < 0.82:       # malformed / unusual layouts
            typ = "nidq"
            counts = [rng.choice([0, 1]), rng.choice([0, 1]), rng.choice([0, 1, 2]), rng.choice([0, 2, 2, 3])]
            if sum(counts) == 0:
                counts[3] = 2
            thr = rng.choice([thr, 0.0, -1.0])
        else:
            typ = rng.choice(["ap", "lf"])
            counts = [384, 0, 1] if typ == "ap" else [0, 384, 1]
            ns = rng.choice([1, 7, 12, 20])
        nc = sum(counts)
        thr_eff = float(np.float32(1.2 if thr is None else thr))
        thr_counts = int(np.ceil(thr_eff / (range_max / 32768.0)))
        D = [[rng.randrange(-32768, 32768) if rng.random() < 0.3 else rng.choice(
            [0, 1, -1, 255, 256, -256, 32767, -32768, 0x5555, 0x0F0F])
            for _ in range(nc)] for _ in range(ns)]
        if typ == "nidq":
            mn, ma, xa, dw = counts
            for c in range(xa):
                base = rng.choice([0, 37, -120, 900])
                col = _analog_column(rng, ns, base, thr_counts)
                for t in range(ns):
                    D[t][mn + ma + c] = max(-32768, min(32767, col[t]))
        sl = rng.choice([None, None, [0, ns], [0, ns], [3, ns - 2], [-15, ns + 5], [ns // 2, ns // 2], [5, 3],
                         [1, 10000], [-10 ** 6, 10 ** 6], [-7, -1]])
        if sl is not None and rng.random() < 0.2:
            sl = sl + [rng.choice([2, 3, 7, 1])]        # stepped read: every k-th sample of the range
        fl = rng.choice(["default", "default", "default", 10, 0, None, 50])
        # float32 rounding of an interpolated floor must not be able to flip a bit (>= 10x margin, see
        # analog_safety): redraw the analog columns until that holds, finally fall back to baseline-dominated ones
        if typ == "nidq" and counts[2] > 0:
            st, sp = (0, 10000) if sl is None else sl[:2]
            a_, b_ = _adjust(st, ns), _adjust(sp, ns)
            sel_ = list(range(a_, max(a_, b_)))[::(sl[2] if sl is not None and len(sl) > 2 else 1)]
            acols_ = list(range(counts[0] + counts[1], counts[0] + counts[1] + counts[2]))
            use_fl = (fl == "default") or bool(fl)
            gf = Fraction(range_max) / 32768
            for attempt in range(40):
                if attempt < 30 and sel_:
                    # put the pulses of the selection right at floor + threshold (within 2 counts), the floor
                    # being the interpolated percentile of this very column: any other floor flips a bit
                    for ac in acols_:
                        colv = [D[t][ac] for t in sel_]
                        which_thr = thr_eff if (use_fl and rng.random() < 0.7) else THR_DEFAULT
                        pfl = exact_floor(colv)[0] if (use_fl or which_thr == THR_DEFAULT) else Fraction(0)
                        target = pfl + Fraction(which_thr) / gf
                        lowmax = sorted(colv)[min(len(colv) - 1, (len(colv) - 1) // 10 + 1)]
                        for t in sel_:
                            if D[t][ac] > lowmax + 60:      # a pulse sample, clear of the order statistics in use
                                nv = int(target // 1) + rng.choice([-1, 0, 0, 1, 1, 2])
                                if lowmax + 60 < nv <= 32767:
                                    D[t][ac] = nv
                Dn = np.array(D, dtype=np.int64).reshape(ns, nc)
                if (analog_safety(Dn, sel_, acols_, gf, thr_eff, use_fl)[1]
                        and analog_safety(Dn, sel_, acols_, gf, THR_DEFAULT, True)[1]):
                    break
                for c in range(counts[2]):
                    col = _analog_column(rng, ns, rng.choice([0, 37, -120, 900]), thr_counts, noisy=attempt < 30)
                    for t in range(ns):
                        D[t][counts[0] + counts[1] + c] = max(-32768, min(32767, col[t]))
        c = {"kind": "sync_read", "typ": typ, "counts": counts, "ns": ns, "nc": nc, "range_max": range_max,
             "data": [v for row in D for v in row], "slice": sl, "threshold": thr, "floor": fl,
             "path_as_str": rng.random() < 0.3, "call_order": rng.randrange(3), "np_slice": rng.random() < 0.25}
        if typ == "nidq":            # amplifier gains of the MN / MA blocks: never applied to the XA sync channels
            c["gains"] = [rng.choice([200, 1, 50, 500, 0.5]), rng.choice([1, 10, 10, 2.5, 0.5, 100])]
        if rng.random() < 0.3:       # the meta duration disagrees with the file / an incomplete frame trails
            c["meta_dur"] = rng.choice([["decimals", 4], ["samples", max(0, ns - 1)], ["samples", max(0, ns - 5)],
                                        ["samples", ns + 1], ["samples", ns + 30], None])
            c["tail_bytes"] = rng.choice([0, 0, 1, 2 * nc - 1, nc])
        cases.append(c)
    return cases


def fixed_ttl():
    """the file holds more (or fewer) frames than the meta duration says; events on the last samples."""
    out = []
    for typ, ns, md, tail in [("nidq", 52, ["decimals", 4], 0), ("nidq", 40, ["samples", 39], 0),
                              ("nidq", 40, ["samples", 33], 1), ("nidq", 40, ["samples", 41], 0),
                              ("ap", 22, ["samples", 21], 0), ("lf", 9, ["decimals", 4], 0),
                              ("ap", 12, ["samples", 40], 769), ("nidq", 64, None, 1)]:
        lines = [[k % 2, sorted({1 + (k % 3), ns - 1 - (k % 2), ns - 1})] for k in range(16)]
        c = {"kind": "ttl", "typ": typ, "ns": ns, "lines": lines, "fill_seed": 11 * ns, "via_read": True,
             "meta_dur": md, "tail_bytes": tail}
        if typ == "nidq":
            c["counts"] = [0, 0, 1, 1]
        out.append(c)
    return out


def gen_ttl(ctx):
    rng = ctx.rng
    cases = fixed_ttl()
    n = 1200 if ctx.thorough() else 60
    for j in range(n):
        u = rng.random()
        typ = "nidq" if u < 0.8 else rng.choice(["ap", "lf"])
        ns = rng.choice([2, 3, 10, 33, 64, 150]) if typ == "nidq" else rng.choice([2, 9, 24])
        nact = rng.choice([0, 1, 2, 3, 8, 15, 16])
        active = set(rng.sample(range(16), nact))
        lines = []
        for k in range(16):
            if k not in active:
                lines.append([rng.choice([0, 0, 0, 1]) if rng.random() < 0.2 else 0, []])
                continue
            style = rng.random()
            if style < 0.3:      # dense: toggles nearly every sample
                evs = [t for t in range(1, ns) if rng.random() < 0.8]
            elif style < 0.5:    # every sample
                evs = list(range(1, ns))
            elif style < 0.6:    # first and last sample boundaries only
                evs = sorted({1, ns - 1}) if ns > 1 else []
            else:
                evs = sorted(rng.sample(range(1, ns), min(ns - 1, rng.randrange(0, 8))))
            lines.append([rng.randrange(2), evs])
        c = {"kind": "ttl", "typ": typ, "ns": ns, "lines": lines, "fill_seed": rng.randrange(10 ** 6),
             "via_read": rng.random() < 0.3}
        if rng.random() < 0.4:
            c["meta_dur"] = rng.choice([["decimals", 4], ["samples", ns - 1], ["samples", max(1, ns - 7)],
                                        ["samples", ns + 1], ["samples", ns + 25]])
            c["tail_bytes"] = rng.choice([0, 0, 1, 3])
        if typ == "nidq":
            c["counts"] = rng.choice([[0, 0, 0, 1], [0, 0, 1, 1], [2, 1, 2, 1]])
            c["gains"] = [rng.choice([200, 50]), rng.choice([1, 10, 2.5])]
        cases.append(c)
    return cases


def load_corpus():
    out = []
    d = common.VERIF / "corpus" / PROP
    if d.exists():
        for f in sorted(d.glob("*.json")):
            try:
                c = json.loads(f.read_text())
                out.append(c.get("input", c))
            except Exception:
                pass
    return [c for c in out if isinstance(c, dict) and c.get("kind") in EXEC]


def brief(case):
    """what goes into replay files / samples: the whole case when small, else a digest that can be re-run."""
    return case


# --------------------------------------------------------------------------
def run(ctx):
    logging.disable(logging.CRITICAL)
    # Sweep.v = the exhaustive vm_compute evaluation of all 65536 words: compiled and kernel-checked by coqc,
    # taken as given by coqchk in the thorough tier (re-evaluation without the VM takes too long)
    # Joint.v composes C11's Reader.open theorem (Flocq) with C10_sync_layout: only that theorem uses the
    # standard-library axioms below; every theorem of Props.v must stay closed under the global context
    common.proof_obligations(ctx, whitelist=sorted(common.STDLIB_AXIOMS), modules=("Props", "Joint"),
                             coqchk_admit=["IBL.C10.Sweep"])
    for name, ax in ctx.theorems.items():
        if name != "C10_rows_are_the_complete_frames" and ax != "Closed under the global context":   # (C09 joint: closed)
            ctx.broken_proofs.append({"theorem": name, "why": "expected to be closed under the global context: %s" % ax})
    cases = load_corpus()
    cases += gen_split(ctx) + gen_fronts(ctx) + gen_sync_read(ctx) + gen_ttl(ctx)
    cases += [{"kind": "nometa", "ns": 12, "fill_seed": ctx.rng.randrange(10 ** 6)}]
    cases += gen_long_read(ctx)
    cases += gen_sync_sel(ctx)
    cases += [{"kind": "notopen", "ns": 30, "seed": ctx.rng.randrange(10 ** 6), "how": "with"},
              {"kind": "notopen", "ns": 30, "seed": ctx.rng.randrange(10 ** 6), "how": "open"}]
    inputs, outputs, owners = [], [], []
    dist = {}
    nontrivial = set()
    words_seen = set()
    cont_seen = {}
    inexact = 0
    floor_err = 0.0
    observations = []
    results, stuck, notrun = run_cases(cases, budget_s=1200 if ctx.thorough() else 90)
    for i, c, why in stuck:
        ctx.fail("the implementation did not return within 15 s, or killed its process (%s)" % why, c,
                 {"kind": c["kind"], "defect": "hang_or_crash"})
    ctx.measurements["cases_not_run_after_a_hang"] = notrun
    for ci, case in enumerate(cases):
        res = results.get(ci)
        if res is None:
            continue
        if res.crash:
            ctx.fail("the implementation's behaviour on this input could not even be canonicalised: %s" % res.crash,
                     case, {"kind": case["kind"], "defect": "uncanonical_output"})
            continue
        dist[case["kind"]] = dist.get(case["kind"], 0) + 1
        for what, tags in res.bad:
            ctx.fail(what, case, tags)
        if res.info.get("unsafe"):
            inexact += 1
        if "floor_err_ulps" in res.info:
            floor_err = max(floor_err, res.info["floor_err_ulps"])
        if res.info.get("observation"):
            observations.append(res.info["observation"])
        if case["kind"] == "split" and case.get("exhaustive") and not res.bad:
            if "container" in case:
                cont_seen.setdefault(case["container"], set()).update(v % 65536 for v in case["values"])
            else:
                words_seen.update(v % 65536 for v in case["values"])
        if res.nontrivial:
            nontrivial.add(json.dumps(case, sort_keys=True))
        if res.inp is not None and res.out is not None:
            inputs.append(res.inp)
            outputs.append(res.out)
            owners.append(case)
    if inexact:
        ctx.disagree("%d generated recordings have a sample within float32 rounding of floor + threshold "
                     "(generator guarantee broken)" % inexact, {"kind": "harness"})
    ctx.measurements["max_float32_percentile_error_in_ulps_of_magnitude (recordings are kept 64 away)"] = round(floor_err, 3)
    if floor_err > 6.4:
        ctx.disagree("float32 percentile error %.2f ulps exceeds a tenth of the 64-ulp safety distance" % floor_err,
                     {"kind": "harness"})
    ctx.measurements["recordings_outside_the_property_domain_observed_only"] = len(observations)
    ctx.notes.extend(sorted(set(observations))[:6])
    common.correspondence(ctx, PROP, HEADER, inputs, outputs, lambda i: owners[i], n_kernel=60)
    samples = []
    for kind in ("split", "fronts1", "fronts2", "sync_read", "ttl"):
        c = next((c for c in cases if c["kind"] == kind and len(json.dumps(c)) < 1500), None)
        if c:
            samples.append(c)
    ctx.measurements["all_65536_words_decoded_correctly_by_split_sync"] = len(words_seen) == 65536
    ctx.measurements["words_decoded_correctly_per_other_container"] = {k: len(v) for k, v in sorted(cont_seen.items())}
    if len(words_seen) != 65536 and not ctx.oracle_failures:
        ctx.disagree("exhaustive word sweep incomplete (%d words)" % len(words_seen), {"kind": "harness"})
    return common.finish(
        ctx, TRUSTED,
        rule="cases: (split) all 65536 words through spikeglx.split_sync as uint16/int16 chunks plus small arrays "
             "of other dtypes/layouts; (fronts1/fronts2) 0/1 trains, multi-level integer signals with steps around "
             "the jump sizes, analog traces within 2 ulp of the threshold, 1-D and 2-D along both axes; (sync_read) "
             "mock nidq/imec recordings read through Reader.read_sync/_digital/_analog with slices, thresholds on "
             "the sample grid and pulses placed within 2 counts of (interpolated floor + threshold), floor on/off, each "
             "observed through read_sync, read_sync_digital, read_sync_analog and read(...)[1] in varying call order; (ttl) event trains on random subsets of the 16 lines written into a "
             "mock recording, read back and front-detected. Each case runs the real functions, the Python oracle "
             "and the Coq model. Non-trivial = a non-zero word / at least one front / a non-zero sync sample / at "
             "least one event; distinct by the full case content",
        samples=samples, evaluations=len(cases), distinct_nontrivial=len(nontrivial),
        extra={"input_distribution": dist, "exhaustive": False, "words_exhaustive": len(words_seen) == 65536,
               "model_cases": len(inputs)},
        assumptions=["little-endian host", "float32 evaluation of the percentile / subtraction / comparison agrees with "
                     "exact arithmetic when no sample is within 64 ulps of floor + threshold (enforced per recording)"])


def replay(ctx, data):
    logging.disable(logging.CRITICAL)
    case = data.get("input") or (data.get("correspondence_disagreements") or [{}])[0].get("input")
    if not case or "kind" not in case or case["kind"] not in EXEC:
        print(json.dumps(data, indent=1)[:3000])
        return 1
    results, stuck, _ = run_cases([case], budget_s=120, nproc=1, nchunk=1)
    print("case:", json.dumps(case)[:1500])
    if stuck or 0 not in results:
        print("the implementation did not return within the time limit, or killed its process")
        return 1
    res = results[0]
    if res.crash:
        print("the implementation's behaviour could not be canonicalised:", res.crash)
        return 1
    print("implementation (flat):", (res.out or [])[:80])
    print("property clauses failing on the implementation:", [b[0] for b in res.bad])
    ids = []
    if res.inp is not None and res.out is not None:
        if len(res.inp) + len(res.out) < 6000:
            ids = common.coq_mismatches(PROP, HEADER, [common.flat_cases_term(0, res.inp, res.out)])
            print("kernel-evaluated model agrees with implementation:", not ids)
        else:
            m = common.Extracted(PROP).run_many([res.inp])[0]
            ids = [0] if m != res.out else []
            print("extracted model agrees with implementation:", not ids)
    return 1 if (res.bad or ids) else 0
