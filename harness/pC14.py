"""C14 — spike features (ibldsp.waveforms.compute_spike_features): proofs in coq/C14,
correspondence of the Coq model with the real function, property oracle on the
implementation (extremum / ordering / half-peak / recovery / scaling / channel
permutation / batch independence)."""
import hashlib
import json
import math
import signal
import subprocess
import sys
import warnings

import numpy as np

import common

PROP = "C14"
HEADER = "From Coq Require Import ZArith List.\nImport ListNotations.\nFrom IBL.C14 Require Import Run."
NAN_CODE = 1 << 40
BAD = 10 ** 15          # marker for "not an integer / not the expected quotient" in the flat encoding
TRUSTED = [
    "Coq 8.16.1 kernel + vm_compute (no native_compute); 18 C14 theorems closed under the global context; "
    "C14_ratio_test_float64 (Flocq 4.1 binary64 model of the division in the <= 1.5 test) uses the standard "
    "library's real-number axioms (sig_forall_dec, sig_not_dec, functional_extensionality_dep, classic)",
    "hand-written model coq/C14/Model.v of ibldsp.waveforms.compute_spike_features, find_peak, pick_maxima, "
    "weights_spk_ch (integer-valued samples, NaN as None, 2-D/3-D input), tied to /repo/src by this run's "
    "correspondence on all 21 data-frame columns and on the helpers' outputs",
    "float facts used by the model and only validated by the correspondence: integer / dyadic samples below 2^40 "
    "(2^24 for float32 input) and their negations/differences/halves are exact (so the half-peak comparison has "
    "the exact sign); the float32 form of the <= 1.5 test agrees with 2|a| <= 3|b| (the float64 form is proved: "
    "C14_ratio_test_float64); quotient columns are compared to 1e-9 relative (1e-6 for float32 input), "
    "everything else exactly",
    "nothing is taken from the implementation as data by the model: its inputs are the samples, k and the input rank; "
    "k = int(round(recovery_duration_ms*fs/1000)) is recomputed by the harness with Python's round",
    "harness/pC14.py generators, canonicaliser and oracle; k = int(round(recovery_duration_ms*fs/1000)) "
    "computed by the harness with Python's own round",
    "extraction (Require Extraction, ExtrOcamlBasic only), harness/driver.ml, ocamlfind ocamlopt; a sample of "
    "the same cases is re-evaluated by the kernel (vm_compute)",
]
COLS = ["peak_trace_idx", "peak_time_idx", "peak_val", "invert_sign_peak", "trough_time_idx", "trough_val",
        "peak_to_trough_ratio", "peak_to_trough_ratio_log", "tip_time_idx", "tip_val",
        "peak_to_trough_duration", "half_peak_post_time_idx", "half_peak_pre_time_idx",
        "half_peak_post_val", "half_peak_pre_val", "half_peak_duration", "recovery_time_idx",
        "recovery_val", "depolarisation_slope", "repolarisation_slope", "recovery_slope"]
IDX_COLS = ["peak_trace_idx", "peak_time_idx", "trough_time_idx", "tip_time_idx",
            "half_peak_post_time_idx", "half_peak_pre_time_idx", "recovery_time_idx"]
VAL_COLS = ["peak_val", "trough_val", "tip_val", "half_peak_post_val", "half_peak_pre_val", "recovery_val"]
QUO_COLS = ["peak_to_trough_ratio", "peak_to_trough_duration", "half_peak_duration",
            "depolarisation_slope", "repolarisation_slope", "recovery_slope"]
DEFAULT_FS, DEFAULT_MS = 30000, 0.16


# --------------------------------------------------------------------------
# implementation runner
# --------------------------------------------------------------------------
def to_array(batch):
    """batch: list of N waveforms, each T rows of C entries (int or None) -> float64 (N,T,C)."""
    return np.array([[[np.nan if v is None else float(v) for v in row] for row in w] for w in batch],
                    dtype=np.float64)


class ImplFault(Exception):
    """The implementation did something no caller can live with: an exception other than the documented
    ValueError, a malformed result (None, wrong type / shape / dtype), a modified input, a hang."""


class _Timeout(BaseException):
    pass


CALL_LIMIT_S = 60.0          # a normal call takes milliseconds
_STATE = {"hung": False}


def _on_alarm(signum, frame):
    raise _Timeout()


def guarded(fname, *args, **kw):
    """Call ibldsp.waveforms.<fname> with a wall-clock limit; every way of leaving the call is caught.
    Returns ("ok", value) or ("exc", exception instance)."""
    if _STATE["hung"]:
        return "exc", ImplFault("not called: an earlier call of the implementation did not return within %ds"
                                % CALL_LIMIT_S)
    try:
        from ibldsp import waveforms
        fn = getattr(waveforms, fname)
    except BaseException as e:      # noqa
        return "exc", ImplFault("cannot import ibldsp.waveforms.%s: %r" % (fname, e))
    old = signal.signal(signal.SIGALRM, _on_alarm)
    signal.setitimer(signal.ITIMER_REAL, CALL_LIMIT_S)
    try:
        with warnings.catch_warnings():
            warnings.simplefilter("ignore")
            with np.errstate(all="ignore"):
                return "ok", fn(*args, **kw)
    except _Timeout:
        _STATE["hung"] = True
        return "exc", ImplFault("%s did not return within %ds" % (fname, CALL_LIMIT_S))
    except Exception as e:      # noqa
        return "exc", e
    except BaseException as e:      # noqa  (SystemExit, KeyboardInterrupt raised by the code under test, ...)
        return "exc", ImplFault("%s left through %r" % (fname, e))
    finally:
        signal.setitimer(signal.ITIMER_REAL, 0)
        signal.signal(signal.SIGALRM, old)


def input_preserved(before, after):
    """the documented side effect is NaN -> 0 in place; nothing else may change in the caller's array."""
    try:
        if before.shape != after.shape or before.dtype != after.dtype:
            return False
        if before.dtype.kind != "f":
            return bool(np.array_equal(before, after))
        nan = np.isnan(before)
        return bool(np.array_equal(before[~nan], after[~nan]) and np.all(np.isnan(after[nan]) | (after[nan] == 0)))
    except Exception:      # noqa
        return False


def impl_features(arr, fs=None, ms=None, prepared=False, nrows=None):
    """Run the real compute_spike_features on a copy; returns list of row dicts or an exception instance
    (ValueError = the documented refusal; ImplFault = anything else that went wrong).
    prepared=True: hand the array over as it is (dtype, layout, rank chosen by the caller)."""
    kw = {}
    if fs is not None:
        kw["fs"] = fs
    if ms is not None:
        kw["recovery_duration_ms"] = ms
    a = arr if prepared else np.array(arr, dtype=np.float64, copy=True)
    before = np.array(a, copy=True)
    nrows = arr.shape[0] if nrows is None else nrows
    st, df = guarded("compute_spike_features", a, **kw)
    if not input_preserved(before, a):
        return ImplFault("compute_spike_features modified its input array beyond NaN -> 0")
    if st == "exc":
        if isinstance(df, (ValueError, ImplFault)):
            return df
        return ImplFault("compute_spike_features raised %r (only ValueError is documented)" % (df,))
    try:
        import pandas as pd
        if not isinstance(df, pd.DataFrame):
            return ImplFault("compute_spike_features returned %s instead of a DataFrame" % type(df).__name__)
        missing = [c for c in COLS if c not in df.columns]
        if missing or len(df) != nrows:
            return ImplFault("data frame lacks columns %s or has %d rows for %d waveforms"
                             % (missing, len(df), nrows))
        cols = {c: np.asarray(df[c].to_numpy()) for c in COLS}
        for c in COLS:
            if cols[c].shape != (nrows,):
                return ImplFault("column %s has shape %s" % (c, cols[c].shape))
            if c in IDX_COLS and cols[c].dtype.kind not in "iu":
                return ImplFault("index column %s has dtype %s" % (c, cols[c].dtype))
            if c not in IDX_COLS and cols[c].dtype.kind not in "fiu":
                return ImplFault("column %s has dtype %s" % (c, cols[c].dtype))
        return [{c: (int(cols[c][i]) if c in IDX_COLS else float(cols[c][i])) for c in COLS}
                for i in range(nrows)]
    except Exception as e:      # noqa
        return ImplFault("malformed result of compute_spike_features: %r" % (e,))


VARIANTS = ["f64"] * 8 + ["f32", "f32", "i64", "i32", "i16", "fortran", "view", "2d", "dy1", "dy3", "dy10"]
INT_DT = {"i64": np.int64, "i32": np.int32, "i16": np.int16}


def pick_variant(rng, batch):
    """representation of the input array handed to the real function."""
    v = rng.choice(VARIANTS)
    if len(batch) == 1 and rng.random() < 0.3:
        v = "2d"
    has_nan = any(x is None for w in batch for row in w for x in row)
    if v in INT_DT and has_nan:
        v = "f32"
    if v == "2d" and len(batch) != 1:
        v = "view"
    return v


def variant_array(batch, variant):
    """the array as the caller would hold it: dtype / memory layout / rank / dyadic scale vary."""
    arr = to_array(batch)
    if variant == "f32":
        return arr.astype(np.float32)
    if variant in INT_DT:
        return arr.astype(INT_DT[variant])
    if variant == "fortran":
        return np.asfortranarray(arr)
    if variant == "view":
        N, T, C = arr.shape
        big = np.full((N + 1, 2 * T + 1, 3 * C + 1), 12345.0)
        big[1:, 1::2, 1::3] = arr
        return big[1:, 1::2, 1::3]
    if variant == "2d":
        return arr[0].copy()
    if variant.startswith("dy"):
        return arr / float(2 ** int(variant[2:]))
    return arr


def variant_tol(variant):
    return 1e-6 if variant == "f32" else 1e-9


def impl_variant(batch, variant, fs=None, ms=None):
    """compute_spike_features on the variant array; rows brought back to the integer scale."""
    res = impl_features(variant_array(batch, variant), fs, ms, prepared=True, nrows=len(batch))
    if isinstance(res, Exception) or not variant.startswith("dy"):
        return res
    f = float(2 ** int(variant[2:]))
    for r in res:
        for c in VAL_COLS + ["depolarisation_slope", "repolarisation_slope", "recovery_slope"]:
            r[c] = r[c] * f
    return res


def impl_peaks(batch, variant):
    """find_peak, pick_maxima, weights_spk_ch of the real module -> dict of plain lists, or an exception instance."""
    if variant.startswith("dy"):
        variant = "f64"
    N, C = len(batch), len(batch[0][0])
    try:
        res = {}
        for fname, v in (("find_peak", variant), ("pick_maxima", variant), ("pick_maximum", variant),
                         ("weights_spk_ch", "f64" if variant == "2d" else variant)):
            a = variant_array(batch, v)
            before = np.array(a, copy=True)
            st, val = guarded(fname, a)
            if st == "exc":
                return val if isinstance(val, ImplFault) else ImplFault("%s raised %r" % (fname, val))
            if not input_preserved(before, a):
                return ImplFault("%s modified its input array beyond NaN -> 0" % fname)
            res[fname] = val
        import pandas as pd
        df = res["find_peak"]
        if not isinstance(df, pd.DataFrame) or len(df) != N or \
                any(c not in df.columns for c in ("peak_trace_idx", "peak_time_idx", "peak_val")):
            return ImplFault("find_peak returned %s" % (type(df).__name__ if not isinstance(df, pd.DataFrame)
                                                        else "a frame with columns %s, %d rows" % (list(df.columns), len(df))))
        for c in ("peak_trace_idx", "peak_time_idx"):
            if np.asarray(df[c].to_numpy()).dtype.kind not in "iu":
                return ImplFault("find_peak column %s has dtype %s" % (c, df[c].dtype))
        pm = res["pick_maxima"]
        if not isinstance(pm, tuple) or len(pm) != 2:
            return ImplFault("pick_maxima returned %s" % type(pm).__name__)
        im, mv, wt = pm[0], pm[1], res["weights_spk_ch"]
        for name, x, kinds in (("pick_maxima indices", im, "iu"), ("pick_maxima values", mv, "fiu"),
                               ("weights_spk_ch", wt, "fiu")):
            if not isinstance(x, np.ndarray) or x.shape != (N, C) or x.dtype.kind not in kinds:
                return ImplFault("%s: %s" % (name, "type %s" % type(x).__name__ if not isinstance(x, np.ndarray)
                                             else "shape %s dtype %s, expected (%d, %d)" % (x.shape, x.dtype, N, C)))
        rows = [(int(df["peak_trace_idx"].iloc[i]), int(df["peak_time_idx"].iloc[i]), float(df["peak_val"].iloc[i]))
                for i in range(N)]
        # pick_maximum (public) returns the same three vectors find_peak puts into its frame
        p3 = res["pick_maximum"]
        if not isinstance(p3, tuple) or len(p3) != 3 or any(not isinstance(x, np.ndarray) or x.shape != (N,) for x in p3):
            return ImplFault("pick_maximum returned %r" % (type(p3).__name__,))
        if p3[0].dtype.kind not in "iu" or p3[1].dtype.kind not in "iu":
            return ImplFault("pick_maximum index dtypes %s %s" % (p3[0].dtype, p3[1].dtype))
        if [(int(a), int(b), float(c)) for a, b, c in zip(*p3)] != rows:
            return ImplFault("pick_maximum %r differs from the find_peak rows %r" % (
                [(int(a), int(b), float(c)) for a, b, c in zip(*p3)][:3], rows[:3]))
        return {"peaks": rows, "idx": [[int(v) for v in r] for r in im], "max": [[float(v) for v in r] for r in mv],
                "weights": [[float(v) for v in r] for r in wt]}
    except Exception as e:      # noqa
        return ImplFault("malformed result of find_peak / pick_maxima / weights_spk_ch: %r" % (e,))


def gen_helper_case(rng, batch):
    """rows of an (N, T) matrix (one trace per waveform of the batch) with caller-chosen peak index, peak value,
    sign flag and trough index — states compute_spike_features itself never produces included."""
    T = len(batch[0])
    rows = []
    for w in batch[:12]:
        c = rng.randrange(len(w[0]))
        a = [0 if w[t][c] is None else w[t][c] for t in range(T)]
        pk = rng.choice([0, T - 1, rng.randrange(T), rng.randrange(T), max(range(T), key=lambda t: abs(a[t]))])
        pv = rng.choice([a[pk], a[pk], -a[pk], 2 * a[pk] + 1, 0, rng.randint(-50, 50)])
        sg = rng.choice([1, -1, 1, -1, 1, -1, 0])
        tq = rng.choice([T - 1, rng.randrange(T), rng.randrange(T)])
        rows.append((pk, pv, sg, tq, a))
    kk = rng.choice([5, 5, 0, 1, T - 1, T, T + 1, rng.randrange(0, T + 2)])
    return kk, rows


def enc_helper_inp(kk, rows):
    T = len(rows[0][4])
    out = [2, kk, len(rows), T, 0]
    for pk, pv, sg, tq, a in rows:
        out += [pk, pv, sg, tq] + a
    return out


def impl_helpers(kk, rows):
    """arr_pre_post, find_trough, find_tip, half_peak_point, recovery_point called directly -> flat ints
    (layout of Run.v run_helpers); [BAD...] markers where a result is malformed."""
    import pandas as pd
    N, T = len(rows), len(rows[0][4])
    arr = np.array([r[4] for r in rows], dtype=np.float64)
    pk = np.array([r[0] for r in rows], dtype=np.int64)

    def frame():
        return pd.DataFrame({"peak_time_idx": pk.copy(), "peak_val": np.array([float(r[1]) for r in rows]),
                             "invert_sign_peak": np.array([float(r[2]) for r in rows]),
                             "trough_time_idx": np.array([r[3] for r in rows], dtype=np.int64)})

    def code(v):
        v = float(v)
        return NAN_CODE if math.isnan(v) else as_int(v)

    out = []
    try:
        st, val = guarded("arr_pre_post", arr.copy(), pk.copy())
        if st == "exc" or not isinstance(val, tuple) or len(val) != 2 or \
                any(not isinstance(x, np.ndarray) or x.shape != (N, T) for x in val):
            return ImplFault("arr_pre_post: %r" % (val if st == "exc" else type(val).__name__,))
        for i in range(N):
            out += [code(v) for v in val[0][i]] + [code(v) for v in val[1][i]]
        for fname, ic, vc in (("find_trough", "trough_time_idx", "trough_val"), ("find_tip", "tip_time_idx", "tip_val")):
            st, df = guarded(fname, arr.copy(), frame())
            if st == "exc":
                if not isinstance(df, ValueError):
                    return ImplFault("%s raised %r" % (fname, df))
                out += [0]
            else:
                out += [1]
                for i in range(N):
                    out += [int(df[ic].iloc[i]), as_int(float(df[vc].iloc[i]))]
        st, df = guarded("half_peak_point", arr.copy(), frame())
        if st == "exc":
            return ImplFault("half_peak_point raised %r" % (df,))
        for i in range(N):
            out += [int(df["half_peak_post_time_idx"].iloc[i]), int(df["half_peak_pre_time_idx"].iloc[i]),
                    as_int(float(df["half_peak_post_val"].iloc[i])), as_int(float(df["half_peak_pre_val"].iloc[i]))]
        st, df = guarded("recovery_point", arr.copy(), frame(), idx_from_trough=kk)
        if st == "exc":
            if not isinstance(df, ValueError):
                return ImplFault("recovery_point raised %r" % (df,))
            out += [0]
        else:
            out += [1]
            for i in range(N):
                out += [int(df["recovery_time_idx"].iloc[i]), as_int(float(df["recovery_val"].iloc[i]))]
        return out
    except Exception as e:      # noqa
        return ImplFault("malformed result of a stage function: %r" % (e,))


def enc_peaks(obs):
    if isinstance(obs, Exception):
        return [0]
    out = [1, len(obs["peaks"])]
    for tr, pk, v in obs["peaks"]:
        out += [tr, pk, as_int(v)]
    for ri, rm in zip(obs["idx"], obs["max"]):
        for i, m in zip(ri, rm):
            out += [i, as_int(m)]
    for rw in obs["weights"]:
        out += [as_int(v) for v in rw]
    return out


def oracle_peaks(batch, obs):
    """find_peak = first channel / first sample of the largest |sample|; pick_maxima = per trace first
    position and value of max |.|; weights = signed sample there."""
    bad = []
    for wi, w in enumerate(batch):
        info = analyse(w)
        T, C = info["T"], info["C"]
        z = [[0 if v is None else v for v in row] for row in w]
        if obs["peaks"][wi] != (info["tr"], info["pk0"], float(info["x"][info["pk0"]])):
            bad.append("find_peak row %r is not the first global |.| extremum %r"
                       % (obs["peaks"][wi], (info["tr"], info["pk0"], info["x"][info["pk0"]])))
        for c in range(C):
            col = [z[t][c] for t in range(T)]
            m = max(abs(v) for v in col)
            i = next(t for t in range(T) if abs(col[t]) == m)
            if obs["idx"][wi][c] != i or obs["max"][wi][c] != m:
                bad.append("pick_maxima (%d, %r) on trace %d, expected (%d, %d)" % (obs["idx"][wi][c], obs["max"][wi][c], c, i, m))
            if obs["weights"][wi][c] != col[i]:
                bad.append("weights_spk_ch %r on trace %d, expected the signed sample %d" % (obs["weights"][wi][c], c, col[i]))
        if bad:
            break
    return bad


def k_of(fs, ms):
    return int(round((DEFAULT_MS if ms is None else ms) * (DEFAULT_FS if fs is None else fs) / 1000))


# --------------------------------------------------------------------------
# flat encodings (same layout as coq/C14/Run.v)
# --------------------------------------------------------------------------
def enc_inp(batch, k, mode=0, two_d=False):
    N, T = len(batch), len(batch[0])
    C = len(batch[0][0]) if T else 0
    return [mode, k, -1 if two_d else N, T, C] + [NAN_CODE if v is None else int(v) for w in batch for row in w for v in row]


def as_int(v):
    if isinstance(v, float) and (math.isnan(v) or math.isinf(v)):
        return BAD
    r = int(round(v))
    return r if r == v else BAD


def enc_quot(q, den, fs_factor, tol=1e-9):
    """impl float q is claimed to be (num/den)*fs_factor with integer num: recover num."""
    if den == 0:
        if math.isnan(q):
            return [0, 0]
        if math.isinf(q):
            return [1 if q > 0 else -1, 0]
        return [BAD, 0]
    if math.isnan(q) or math.isinf(q):
        return [BAD, den]
    x = q * den / fs_factor
    num = int(round(x))
    if abs(x - num) > tol * max(1.0, abs(x)):
        return [BAD, den]
    return [num, den]


def enc_int_quot(q, fs):
    """impl float q is claimed to be n/fs with integer n."""
    if math.isnan(q) or math.isinf(q):
        return BAD
    x = q * fs
    n = int(round(x))
    return n if abs(x - n) <= 1e-9 * max(1.0, abs(x)) else BAD


def enc_row(r, fs, tol=1e-9):
    fs = DEFAULT_FS if fs is None else fs
    out = [r["peak_trace_idx"], r["peak_time_idx"], as_int(r["peak_val"]), as_int(r["invert_sign_peak"]),
           r["trough_time_idx"], as_int(r["trough_val"])]
    tv = as_int(r["trough_val"])
    out += enc_quot(r["peak_to_trough_ratio"], abs(tv), 1.0, tol)
    out += [r["tip_time_idx"], as_int(r["tip_val"]), enc_int_quot(r["peak_to_trough_duration"], fs),
            r["half_peak_post_time_idx"], r["half_peak_pre_time_idx"],
            as_int(r["half_peak_post_val"]), as_int(r["half_peak_pre_val"]),
            enc_int_quot(r["half_peak_duration"], fs), r["recovery_time_idx"], as_int(r["recovery_val"])]
    out += enc_quot(r["depolarisation_slope"], r["peak_time_idx"] - r["tip_time_idx"], fs)
    out += enc_quot(r["repolarisation_slope"], r["trough_time_idx"] - r["peak_time_idx"], fs)
    out += enc_quot(r["recovery_slope"], r["recovery_time_idx"] - r["trough_time_idx"], fs)
    return out


def enc_obs(res, fs, tol=1e-9):
    if isinstance(res, ImplFault):
        return [0, 99]
    if isinstance(res, Exception):
        return [0]
    out = [1, len(res)]
    for r in res:
        out += enc_row(r, fs, tol)
    return out


# --------------------------------------------------------------------------
# the property's predicate, evaluated on the implementation's output only
# (plain Python loops on the input; nothing shared with the model or the code)
# --------------------------------------------------------------------------
def first_extreme(vals, lo, hi, sign):
    """first position in [lo,hi) of the maximum of sign*vals."""
    best = lo
    for t in range(lo + 1, hi):
        if sign * vals[t] > sign * vals[best]:
            best = t
    return best


def analyse(w):
    """independent description of one waveform (NaN -> 0): picked trace, its extremum, swap class."""
    T, C = len(w), len(w[0])
    z = [[0 if v is None else v for v in row] for row in w]
    mx = [max(abs(z[t][c]) for t in range(T)) for c in range(C)]
    M = max(mx)
    tr = mx.index(M)
    x = [z[t][tr] for t in range(T)]
    pk0 = next(t for t in range(T) if abs(x[t]) == M)
    info = {"T": T, "C": C, "tr": tr, "x": x, "pk0": pk0, "M": M,
            "unique_channel": sum(1 for m in mx if m == M) == 1}
    pv0 = x[pk0]
    swap = False
    if pv0 > 0:
        q = first_extreme(x, pk0, T, -1)           # first minimum after the peak
        m = x[q]
        if m != 0 and 2 * pv0 <= 3 * abs(m):
            swap = True
            info["pk"], info["pv"] = q, m
    if not swap:
        info["pk"], info["pv"] = pk0, pv0
    info["swap"] = swap
    info["doubly_positive"] = swap and info["pv"] > 0
    return info


def oracle_row(w, r, k, info):
    """list of (clause, message) the property demands and row r violates."""
    bad = []
    T, x = info["T"], info["x"]
    pk, pv = r["peak_time_idx"], r["peak_val"]
    tq, tp = r["trough_time_idx"], r["tip_time_idx"]
    hpo, hpr, rc = r["half_peak_post_time_idx"], r["half_peak_pre_time_idx"], r["recovery_time_idx"]
    for name in IDX_COLS[1:]:
        if not (0 <= r[name] < T):
            bad.append(("index_range", "%s = %d outside [0,%d)" % (name, r[name], T)))
            return bad
    # extremum
    if r["peak_trace_idx"] != info["tr"]:
        bad.append(("peak_channel", "peak_trace_idx %d is not the first channel holding the largest |sample| (%d)"
                    % (r["peak_trace_idx"], info["tr"])))
        return bad
    if pk != info["pk"] or pv != info["pv"]:
        bad.append(("peak_extremum", "peak (%d, %r) is not the %s (%d, %d)" % (
            pk, pv, "swapped trough" if info["swap"] else "first global |.| extremum", info["pk"], info["pv"])))
        return bad
    sgn = -1 if pv > 0 else 1            # trace * sgn has the peak pointing down
    if r["invert_sign_peak"] != sgn:
        bad.append(("sign_flag", "invert_sign_peak %r for peak value %r" % (r["invert_sign_peak"], pv)))
    # ordering
    if not (tp < pk <= tq):
        bad.append(("ordering", "tip %d < peak %d <= trough %d does not hold" % (tp, pk, tq)))
    # trough: first largest opposite deflection from the peak on
    if tq != first_extreme(x, pk, T, sgn):
        bad.append(("trough_extremum", "trough %d is not the first extremum after the peak (%d)"
                    % (tq, first_extreme(x, pk, T, sgn))))
    if pk >= 1 and tp != first_extreme(x, 0, pk, sgn):
        bad.append(("tip_extremum", "tip %d is not the first extremum before the peak (%d)"
                    % (tp, first_extreme(x, 0, pk, sgn))))
    # half-peak points: nearest samples whose (peak-down) trace is above half the peak
    within = [2 * sgn * x[t] > -abs(pv) for t in range(T)]
    post = [t for t in range(pk + 1, T) if within[t]]
    pre = [t for t in range(0, pk) if within[t]]
    if post and hpo != post[0]:
        bad.append(("half_peak_post", "half_peak_post %d, nearest sample within half the peak is %d" % (hpo, post[0])))
    if pre and hpr != pre[-1]:
        bad.append(("half_peak_pre", "half_peak_pre %d, nearest sample within half the peak is %d" % (hpr, pre[-1])))
    # recovery point
    want = tq + k if tq + k < T else T - 1
    if rc != want:
        bad.append(("recovery", "recovery index %d, expected %d (trough %d + %d, T=%d)" % (rc, want, tq, k, T)))
    # values are the trace at the reported positions
    for vc, ic in (("trough_val", tq), ("tip_val", tp), ("half_peak_post_val", hpo),
                   ("half_peak_pre_val", hpr), ("recovery_val", rc)):
        if r[vc] != x[ic]:
            bad.append(("value_is_trace", "%s = %r but the peak trace holds %d at index %d" % (vc, r[vc], x[ic], ic)))
            break
    return bad


def rows_equal(a, b, skip=(), scale=1.0, tol=1e-9):
    """compare two implementation rows; value columns scaled by `scale`; quotient columns to 1e-9."""
    for c in COLS:
        if c in skip:
            continue
        u, v = a[c], b[c]
        if c in IDX_COLS or c == "invert_sign_peak":
            if u != v:
                return c
        elif c in VAL_COLS:
            if u * scale != v:
                return c
        else:
            f = scale if c.endswith("slope") else 1.0
            if math.isnan(u) or math.isnan(v):
                if not (math.isnan(u) and math.isnan(v)):
                    return c
            elif math.isinf(u) or math.isinf(v):
                if u * f != v:
                    return c
            elif abs(u * f - v) > tol * max(1.0 if c.endswith("_log") else 1e-300, abs(v)):
                return c
    return None


# --------------------------------------------------------------------------
# generators
# --------------------------------------------------------------------------
def pos_choice(rng, T):
    """sample position in [0,T): boundary heavy (first two, last six)."""
    u = rng.random()
    if u < 0.30:
        p = T - 1 - rng.randrange(0, 6)
    elif u < 0.38:
        p = rng.randrange(0, 2)
    else:
        p = rng.randrange(0, T)
    return min(T - 1, max(0, p))        # every T >= 1, however short


def gen_spike_trace(rng, T, p, pol, A, frac, d, noise):
    """integer trace: main deflection pol*A at p, opposite deflection frac*A at p+d, small bumps, noise."""
    x = [0] * T
    for t in range(T):
        v = 0.0
        v += pol * A * math.exp(-((t - p) / 1.5) ** 2)
        v += -pol * A * frac * math.exp(-((t - p - d) / 3.0) ** 2)
        v += -pol * A * 0.15 * math.exp(-((t - p + 3) / 2.0) ** 2)
        x[t] = int(round(v)) + (rng.randint(-noise, noise) if noise else 0)
    p = min(T - 1, max(0, p))
    x[p] = pol * (A + noise + 1)          # unique extremum at p unless the trough is bigger
    return x


def gen_wave(rng, T, C, kind):
    """one waveform: T rows x C entries (int or None)."""
    cols = []
    if kind == "spike":
        p = pos_choice(rng, T)
        pol = rng.choice([-1, -1, 1, 1, 1])
        A = rng.choice([20, 100, 1000, rng.randrange(10, 3000)])
        frac = rng.choice([0.0, 0.2, 0.5, 0.66, 0.67, 0.7, 0.9, 1.0, rng.random()])
        d = rng.choice([1, 2, 3, 5, 8, rng.randrange(1, 20)])
        noise = rng.choice([0, 1, 3, A // 10])
        c0 = rng.randrange(C)
        tie = rng.random() < 0.15
        for c in range(C):
            dist = abs(c - c0)
            amp = A if (dist == 0 or (tie and dist == 1)) else max(1, int(A * math.exp(-dist / 2.0) * 0.9))
            if dist == 0 or (tie and dist == 1):
                cols.append(gen_spike_trace(rng, T, p, pol, amp, frac, d, 0 if tie else noise))
            else:
                cols.append(gen_spike_trace(rng, T, min(T - 1, max(0, p + rng.randint(-1, 1))), pol, amp, frac, d,
                                            min(noise, max(0, amp // 4))))
    elif kind == "small":          # tiny alphabet: ties everywhere
        hi = rng.choice([1, 2, 3])
        cols = [[rng.randint(-hi, hi) for _ in range(T)] for _ in range(C)]
    elif kind == "plateau":        # positive peak followed by positive samples only (doubly positive swap)
        p = pos_choice(rng, T)
        A = rng.randrange(6, 500)
        lo = rng.choice([A, (2 * A + 2) // 3, (2 * A + 2) // 3 + 1, max(1, (2 * A) // 3 - 1), A - 1])
        x = [rng.randint(-A + 1, A - 1) for _ in range(T)]
        for t in range(p, T):
            x[t] = rng.randint(min(lo, A), A)
        x[p] = A if rng.random() < 0.8 else x[p]
        if rng.random() < 0.5:
            x[:p] = [min(v, A - 1) for v in x[:p]]
            x[p] = A
        cols = [x] + [[rng.randint(-A // 2, A // 2) for _ in range(T)] for _ in range(C - 1)]
        rng.shuffle(cols)
    elif kind == "ratio":          # peak/trough ratio around the 1.5 switch
        a = rng.randrange(1, 400)
        delta = rng.choice([-1, 0, 1])
        pol = rng.choice([1, 1, 1, -1])
        p = pos_choice(rng, T)
        q = min(T - 1, p + rng.randrange(0, 8))
        x = [rng.randint(-a, a) for _ in range(T)]
        x[p] = pol * (3 * a + delta)
        if q > p:
            x[q] = -pol * 2 * a
        cols = [x] + [[rng.randint(-a, a) for _ in range(T)] for _ in range(C - 1)]
        rng.shuffle(cols)
    elif kind == "first":          # largest deflection on the first sample (outside the guard unless swapped)
        a = rng.randrange(2, 300)
        x = [rng.randint(-a + 1, a - 1) for _ in range(T)]
        x[0] = rng.choice([a, -a, a])
        if rng.random() < 0.5 and T >= 2:
            x[rng.randrange(1, T)] = -a + 1 if x[0] > 0 else a - 1
        cols = [x] + [[rng.randint(-a // 2, a // 2) for _ in range(T)] for _ in range(C - 1)]
    elif kind == "flat":           # constant / all-zero traces
        v = rng.choice([0, 0, 5, -5])
        cols = [[v] * T for _ in range(C)]
        if rng.random() < 0.5:
            cols[rng.randrange(C)][rng.randrange(T)] += rng.choice([1, -1])
    else:
        raise ValueError(kind)
    w = [[cols[c][t] for c in range(C)] for t in range(T)]
    # NaN padding: whole channels (never the only one), and now and then single samples
    u = rng.random()
    if C > 1 and u < 0.25:
        for c in rng.sample(range(C), rng.randrange(1, max(2, C // 2))):
            for t in range(T):
                w[t][c] = None
    elif u < 0.32:
        for _ in range(rng.randrange(1, 4)):
            w[rng.randrange(T)][rng.randrange(C)] = None
    return w


def pair_wave(T, p, q, pol, frac_code):
    """single-trace waveform with the extremum at p and the opposite extremum at q (exhaustive position grid)."""
    x = [((t * 7) % 5) - 2 for t in range(T)]
    x[p] = pol * 30
    if q != p:
        x[q] = -pol * (25, 20, 19, 9)[frac_code] if q > p else -pol * 21
    return [[v] for v in x]


def gen_batches(ctx):
    """list of (batch, fs, ms, variant): batches of waveforms sharing (T, C)."""
    rng = ctx.rng
    out = []
    kinds = ["spike"] * 10 + ["small"] * 3 + ["plateau"] * 3 + ["ratio"] * 3 + ["first"] * 1 + ["flat"] * 1
    nb = 5200 if ctx.thorough() else 600
    for b in range(nb):
        u = rng.random()
        T = rng.choice([10, 11, 12, 16, 40, 82, 121, 128, 200, rng.randrange(10, 201), rng.randrange(10, 60)])
        C = rng.choice([1, 1, 2, 3, 4, 8, 16, 32, 40, rng.randrange(1, 41)])
        if T * C > 3000 and not ctx.thorough() and rng.random() < 0.7:
            C = rng.randrange(1, 9)
        N = rng.choice([1, 2, 3, 4, 5, 8, 12]) if u < 0.9 else rng.randrange(1, 40)
        if N * T * C > 40000:
            N = max(1, 40000 // (T * C))
        batch = []
        for _ in range(N):
            kind = rng.choice(kinds)
            if kind in ("first", "flat") and N > 1 and rng.random() < 0.8:
                kind = "spike"          # keep most batches free of raising rows
            batch.append(gen_wave(rng, T, C, kind))
        v = rng.random()
        fs, ms = (None, None) if v < 0.8 else rng.choice(
            [(20000, 0.2), (30000, 0.1), (25000, None), (None, 0.3), (30000, 0.0), (10000, 0.05), (None, 0.35)])
        out.append((batch, fs, ms))
    # short windows around the recovery offset (k >= T raises)
    for T in range(1, 10):
        for C in (1, 3):
            for _ in range(2 if not ctx.thorough() else 10):
                out.append(([gen_wave(rng, T, C, rng.choice(["spike", "small"]))], None, None))
    # exhaustive (peak, trough) position grid, both polarities, four peak/trough ratios
    Ts = range(6, 25) if ctx.thorough() else (10, 11, 13)
    for T in Ts:
        for pol in (1, -1):
            for fc in range(4):
                batch = [pair_wave(T, p, q, pol, fc) for p in range(T) for q in range(T) if p >= 1 or q >= 1]
                # one call per grid keeps the number of pandas calls low; p = 0 rows that raise are singled out
                good = [w for w in batch if analyse(w)["pk"] >= 1]
                out.append((good, None, None))
                if ctx.thorough() or (pol == 1 and fc == 0):
                    for w in batch:
                        if analyse(w)["pk"] == 0:
                            out.append(([w], None, None))
    res = [(b, fs, ms, pick_variant(rng, b)) for (b, fs, ms) in out if b]
    # 2-D inputs (no leading axis) with NaN padding / single NaNs, always present
    for _ in range(40 if ctx.thorough() else 8):
        T, C = rng.randrange(10, 60), rng.randrange(2, 9)
        w = gen_wave(rng, T, C, "spike")
        for t in range(T):
            w[t][C - 1 - (_ % 2)] = None
        w[rng.randrange(T)][0] = None
        res.append(([w], None, None, "2d"))
    return res


def whash(w):
    return hashlib.sha1(json.dumps(w).encode()).hexdigest()


# --------------------------------------------------------------------------
# one batch: implementation, oracle, metamorphic laws
# --------------------------------------------------------------------------
def classify_tags(info, clause):
    return {"class": "swap" if info["swap"] else "plain", "clause": clause}


def check_batch(ctx, batch, fs, ms, stats, do_meta=True, variant="f64"):
    """returns (res, failures) where failures were already recorded in ctx."""
    k = k_of(fs, ms)
    arr = to_array(batch)
    res = impl_variant(batch, variant, fs, ms)
    N, T, C = arr.shape
    infos = [analyse(w) for w in batch]
    desc = {"fs": fs, "ms": ms, "k": k, "variant": variant}
    ltol = 1e-6 if variant == "f32" else 1e-12
    qtol = variant_tol(variant)
    in_guard = T > k and k >= 0 and all(i["pk0"] >= 1 for i in infos)
    if isinstance(res, ImplFault):
        ctx.fail(str(res), dict(desc, batch=batch), {"class": "fault", "clause": "result_type"})
        stats["raised"] += 1
        return res
    if isinstance(res, Exception):
        if in_guard and T >= 6:
            # totality: some row of this batch must be to blame — find it
            for w, i in zip(batch, infos):
                r1 = impl_features(to_array([w]), fs, ms)
                if isinstance(r1, Exception):
                    ctx.fail("compute_spike_features raised %r although the largest deflection is at sample %d"
                             % (r1, i["pk0"]), dict(desc, batch=[w]), classify_tags(i, "totality"))
                    break
            else:
                ctx.fail("compute_spike_features raised %r on a batch whose rows all succeed alone" % (res,),
                         dict(desc, batch=batch), {"class": "batch", "clause": "batch_independence"})
        stats["raised"] += 1
        return res
    if T <= k:
        ctx.fail("recovery offset %d >= window length %d did not raise (recovery_point documents ValueError)" % (k, T),
                 dict(desc, batch=batch), {"class": "short_window", "clause": "recovery_guard"})
    for wi, (w, r, info) in enumerate(zip(batch, res, infos)):
        for clause, msg in oracle_row(w, r, k, info):
            ctx.fail(msg, dict(desc, batch=[w]), classify_tags(info, clause))
        stats["rows"] += 1
        stats["swap"] += info["swap"] and not info["doubly_positive"]
        stats["doubly_positive"] += info["doubly_positive"]
        stats["peak_last5"] += info["pk"] >= T - 5
        stats["trough_last5"] += r["trough_time_idx"] >= T - 5
        stats["recovery_fallback"] += r["trough_time_idx"] + k >= T
        stats["positive_peak"] += r["peak_val"] > 0
        stats["channel_tie"] += not info["unique_channel"]
        stats["nan"] += any(v is None for row in w for v in row)
        stats["peak_eq_trough"] += r["peak_time_idx"] == r["trough_time_idx"]
        # derived columns obey their definitions (exact float recomputation)
        with np.errstate(all="ignore"):
            ratio = abs(np.float64(r["peak_val"]) / np.float64(r["trough_val"]))
            lg = float(np.log(ratio))
        rl = r["peak_to_trough_ratio_log"]
        if not ((math.isnan(lg) and math.isnan(rl)) or lg == rl or abs(lg - rl) <= ltol * max(1.0, abs(lg))):
            ctx.fail("peak_to_trough_ratio_log %r is not log|peak/trough| = %r" % (rl, lg),
                     dict(desc, batch=[w]), classify_tags(info, "ratio_log"))
    if not do_meta:
        return res
    rng = ctx.rng
    # batch independence: rows alone (a few per batch) and the whole batch in reverse order
    if N > 1:
        for wi in rng.sample(range(N), min(N, 2)):
            w, r = batch[wi], res[wi]
            r1 = impl_features(to_array([w]), fs, ms)
            stats["meta_calls"] += 1
            if isinstance(r1, Exception):
                ctx.fail("waveform raises alone (%r) but not inside its batch" % (r1,), dict(desc, batch=batch),
                         {"class": "batch", "clause": "batch_independence"})
                break
            c = rows_equal(r1[0], r, tol=qtol)
            if c:
                ctx.fail("column %s of a waveform depends on the other waveforms of the batch (%r alone, %r in batch)"
                         % (c, r1[0][c], r[c]), dict(desc, batch=batch, row=wi),
                         {"class": "batch", "clause": "batch_independence"})
                break
        rr = impl_features(arr[::-1], fs, ms)
        stats["meta_calls"] += 1
        if isinstance(rr, Exception):
            ctx.fail("reversing the batch order makes the call raise %r" % (rr,), dict(desc, batch=batch),
                     {"class": "batch", "clause": "batch_independence"})
        else:
            for wi in range(N):
                c = rows_equal(rr[N - 1 - wi], res[wi], tol=qtol)
                if c:
                    ctx.fail("column %s of waveform %d changes when the batch order is reversed (%r -> %r)"
                             % (c, wi, res[wi][c], rr[N - 1 - wi][c]), dict(desc, batch=batch, row=wi),
                             {"class": "batch", "clause": "batch_independence"})
                    break
    # positive scaling: indices unchanged, values and slopes scaled
    cfac = rng.choice([2.0, 3.0, 0.5, 1.5, 7.0, 1024.0, 0.125])
    r2 = impl_features(arr * cfac, fs, ms)
    stats["meta_calls"] += 1
    if isinstance(r2, Exception):
        ctx.fail("scaling by %r makes the call raise %r" % (cfac, r2), dict(desc, batch=batch, scale=cfac),
                 {"class": "meta", "clause": "scale"})
    else:
        for w, ra, rb, info in zip(batch, res, r2, infos):
            c = rows_equal(ra, rb, scale=cfac, tol=qtol)
            if c:
                ctx.fail("scaling the waveform by %r: column %s goes from %r to %r" % (cfac, c, ra[c], rb[c]),
                         dict(desc, batch=[w], scale=cfac), classify_tags(info, "scale"))
                break
    # channel permutation: only the peak channel index moves (unique largest channel)
    if C > 1:
        perm = list(range(C))
        rng.shuffle(perm)                  # new channel j holds old channel perm[j]
        r3 = impl_features(arr[:, :, perm], fs, ms)
        stats["meta_calls"] += 1
        if isinstance(r3, Exception) and not all(i["unique_channel"] for i in infos):
            stats["perm_skipped_tie"] += 1       # a tie between channels may legitimately move the pick
        elif isinstance(r3, Exception):
            ctx.fail("permuting channels makes the call raise %r" % (r3,), dict(desc, batch=batch, perm=perm),
                     {"class": "meta", "clause": "permutation"})
        else:
            for w, ra, rb, info in zip(batch, res, r3, infos):
                if not info["unique_channel"]:
                    continue
                stats["perm_rows"] += 1
                c = rows_equal(ra, rb, skip=("peak_trace_idx",), tol=qtol)
                if not c and perm[rb["peak_trace_idx"]] != ra["peak_trace_idx"]:
                    c = "peak_trace_idx"
                if c:
                    ctx.fail("permuting channels by %s changes column %s (%r -> %r)" % (perm, c, ra[c], rb[c]),
                             dict(desc, batch=[w], perm=perm), classify_tags(info, "permutation"))
                    break
    # NaN padding: an all-NaN channel inserted at any position only shifts the peak channel index
    j = rng.randrange(C + 1)
    r4 = impl_features(np.insert(arr, j, np.nan, axis=2), fs, ms)
    stats["meta_calls"] += 1
    if isinstance(r4, Exception):
        ctx.fail("inserting an all-NaN channel at %d makes the call raise %r" % (j, r4), dict(desc, batch=batch, pad=j),
                 {"class": "meta", "clause": "nan_padding"})
    else:
        for w, ra, rb, info in zip(batch, res, r4, infos):
            c = rows_equal(ra, rb, skip=("peak_trace_idx",), tol=qtol)
            want = ra["peak_trace_idx"] + (1 if ra["peak_trace_idx"] >= j else 0)
            if not c and rb["peak_trace_idx"] != want:
                c = "peak_trace_idx"
            if c:
                ctx.fail("inserting an all-NaN channel at %d changes column %s (%r -> %r)" % (j, c, ra[c], rb[c]),
                         dict(desc, batch=[w], pad=j), classify_tags(info, "nan_padding"))
                break
    return res


CANARY_BATCH = [[[0, 1], [1, 0], [2, 1], [-10, 3], [-3, 1], [4, 0], [6, 1], [3, 0], [1, 0], [0, 0], [0, 1], [0, 0]],
                [[0, 0], [1, 0], [2, 1], [10, 3], [-3, 1], [-8, 0], [6, 1], [3, 0], [1, 0], [0, 0], [0, 1], [0, 0]]]
CANARY = """
import sys, warnings
import numpy as np
warnings.simplefilter("ignore")
from ibldsp import waveforms as W
a = np.array(%r, dtype=float)
for f in (W.compute_spike_features, W.find_peak, W.pick_maxima, W.weights_spk_ch):
    try:
        f(a.copy())
    except BaseException:
        pass
sys.stdout.write("CANARY-OK\\n")
""" % (CANARY_BATCH,)


def canary():
    """The public functions once, in a child process: a code change that kills or hangs the interpreter
    (segfault, os._exit, endless loop) must not take the check down with it.  None = fine."""
    try:
        p = subprocess.run([sys.executable, "-c", CANARY], stdout=subprocess.PIPE, stderr=subprocess.STDOUT,
                           text=True, timeout=300)
    except subprocess.TimeoutExpired:
        return "did not finish within 300 s in a child process"
    except Exception as e:      # noqa
        return "child process could not be run: %r" % (e,)
    if "CANARY-OK" in p.stdout:
        return None
    return "child process ended with return code %s without completing: %s" % (p.returncode, p.stdout[-400:])


def run(ctx):
    common.proof_obligations(ctx, whitelist=sorted(common.STDLIB_AXIOMS))   # only C14_ratio_test_float64 (Flocq/Reals) uses them
    dead = canary()
    if dead:
        ctx.fail("compute_spike_features / find_peak / pick_maxima / weights_spk_ch on a 2x12x2 batch: " + dead,
                 {"fs": None, "ms": None, "k": 5, "variant": "f64", "batch": CANARY_BATCH, "mode": "canary"},
                 {"class": "fault", "clause": "process"})
        return common.finish(ctx, TRUSTED, rule="aborted: the implementation kills or hangs the interpreter",
                             samples=[{"batch": CANARY_BATCH}], evaluations=0, distinct_nontrivial=0,
                             extra={"exhaustive": False})
    batches = gen_batches(ctx)
    stats = {k: 0 for k in ("rows", "raised", "swap", "doubly_positive", "peak_last5", "trough_last5",
                            "recovery_fallback", "positive_peak", "channel_tie", "nan", "peak_eq_trough",
                            "meta_calls", "perm_rows", "perm_skipped_tie", "nondefault_fs_or_ms", "peaks_calls",
                            "helper_calls", "return_peak_channel_calls")}
    inputs, outputs, descs = [], [], []
    nontrivial = set()
    n_waveforms = 0     # evaluations are counted per waveform (a batch call evaluates each of its rows)
    samples = []
    sizes = {"T_min": 10 ** 9, "T_max": 0, "C_min": 10 ** 9, "C_max": 0, "N_max": 0}
    variants = {}
    for bi, (batch, fs, ms, variant) in enumerate(batches):
        res = check_batch(ctx, batch, fs, ms, stats, variant=variant)
        if _STATE["hung"]:
            break       # already recorded as a failure with its input; every further call would be refused
        stats["nondefault_fs_or_ms"] += (fs is not None or ms is not None)
        variants[variant] = variants.get(variant, 0) + 1
        n_waveforms += len(batch)
        k = k_of(fs, ms)
        inputs.append(enc_inp(batch, k, 0, variant == "2d"))
        outputs.append(enc_obs(res, fs, variant_tol(variant)))
        descs.append({"fs": fs, "ms": ms, "k": k, "variant": variant, "batch": batch})
        if (bi % 3 == 0 or variant == "2d") and len(batch[0]) >= 1 and len(batch) * len(batch[0]) * len(batch[0][0]) <= 20000:
            # the public helpers on the same batch: find_peak, pick_maxima, weights_spk_ch
            obs = impl_peaks(batch, variant)
            stats["peaks_calls"] += 1
            pdesc = {"fs": fs, "ms": ms, "k": k, "variant": variant, "batch": batch, "mode": "peaks"}
            if isinstance(obs, Exception):
                ctx.fail("find_peak / pick_maxima / weights_spk_ch raised %r" % (obs,), pdesc,
                         {"class": "peaks", "clause": "totality"})
            else:
                for msg in oracle_peaks(batch, obs)[:1]:
                    ctx.fail(msg, pdesc, {"class": "peaks", "clause": "peak_extremum"})
            inputs.append(enc_inp(batch, k, 1, variant == "2d"))
            outputs.append(enc_peaks(obs))
            descs.append(pdesc)
        if bi % 4 == 1 and len(batch[0]) >= 1:
            # the stage functions called directly, with parameters of the caller's choosing
            kk, hrows = gen_helper_case(ctx.rng, batch)
            hobs = impl_helpers(kk, hrows)
            stats["helper_calls"] += 1
            hdesc = {"mode": "helpers", "k": kk, "rows": [list(r[:4]) + [r[4]] for r in hrows]}
            if isinstance(hobs, Exception):
                ctx.fail("direct call of a stage function: %s" % (hobs,), hdesc, {"class": "fault", "clause": "helpers"})
                hobs = [0, 99]
            inputs.append(enc_helper_inp(kk, hrows))
            outputs.append(hobs)
            descs.append(hdesc)
        if bi % 5 == 2 and not isinstance(res, Exception):
            # return_peak_channel=True: same frame plus the (N, T) matrix of the real peak traces
            kw = {"return_peak_channel": True}
            if fs is not None:
                kw["fs"] = fs
            if ms is not None:
                kw["recovery_duration_ms"] = ms
            st, val = guarded("compute_spike_features", to_array(batch), **kw)
            stats["return_peak_channel_calls"] += 1
            rdesc = {"fs": fs, "ms": ms, "k": k, "variant": "f64", "batch": batch, "return_peak_channel": True}
            ok = st == "ok" and isinstance(val, tuple) and len(val) == 2
            if ok:
                try:
                    tr = np.asarray(val[1], dtype=float)
                    want = np.array([analyse(w)["x"] for w in batch], dtype=float)
                    ok = tr.shape == want.shape and bool(np.array_equal(tr, want)) and \
                        all(int(val[0][c].iloc[i]) == res[i][c] for c in IDX_COLS for i in range(len(batch)))
                except Exception:      # noqa
                    ok = False
            if not ok:
                ctx.fail("return_peak_channel=True does not return (same frame, real peak traces): %r" % (
                    val if st == "exc" else type(val).__name__,), rdesc, {"class": "fault", "clause": "return_peak_channel"})
        T, C = len(batch[0]), len(batch[0][0])
        sizes["T_min"], sizes["T_max"] = min(sizes["T_min"], T), max(sizes["T_max"], T)
        sizes["C_min"], sizes["C_max"] = min(sizes["C_min"], C), max(sizes["C_max"], C)
        sizes["N_max"] = max(sizes["N_max"], len(batch))
        if not isinstance(res, Exception) and T >= 10:
            for w in batch:
                nontrivial.add(whash(w))
            if len(samples) < 8 and bi % 53 == 0:
                r = res[0]
                samples.append({"T": T, "C": C, "N": len(batch), "peak_trace": [row[r["peak_trace_idx"]] for row in batch[0]][:40],
                                "features": {c: r[c] for c in COLS[:6] + ["tip_time_idx", "half_peak_post_time_idx",
                                                                            "half_peak_pre_time_idx", "recovery_time_idx"]}})
    common.correspondence(ctx, PROP, HEADER, inputs, outputs, lambda i: descs[i], n_kernel=40, shard=10)
    return common.finish(
        ctx, TRUSTED,
        rule="batches of integer-valued waveforms (T 10..200, C 1..40, N 1..39, plus T 1..9 for the error path): "
             "synthetic spikes of both polarities with noise and spatial decay (peak position boundary-heavy: "
             "first two / last six samples), tiny-alphabet traces (ties), positive plateaux (doubly-positive swap), "
             "peak/trough ratio at 1.5 +- one unit, first-sample extremum, flat traces, NaN-padded channels and "
             "single NaNs, and the grid of every (peak, trough) position pair for small T; default and non-default "
             "(fs, recovery_duration_ms). Each batch goes through the real compute_spike_features (all 21 columns "
             "compared with the Coq model), the property oracle, and re-runs of the real function on single rows, "
             "the reversed batch, a scaled copy, a channel-permuted copy and a copy with an all-NaN channel inserted; "
             "the input array is handed over as float64 / float32 / int64 / int32 / int16 / Fortran order / strided "
             "view / 2-D / dyadic non-integer (measured in array_variants); every third batch (and every 2-D one) "
             "also goes through find_peak, pick_maxima and weights_spk_ch (model + oracle). non-trivial = waveform of a non-raising call with T >= 10; "
             "distinct by content hash",
        samples=samples, evaluations=n_waveforms, distinct_nontrivial=len(nontrivial),
        extra={"input_distribution": dict(stats, **sizes), "array_variants": variants, "exhaustive": False,
               "position_grid_T": list(range(6, 25)) if ctx.thorough() else [10, 11, 13]},
        assumptions=["float64 arithmetic on integer samples below 2^40 is exact for negation, selection and "
                     "difference; quotient columns agree with the exact quotient to 1e-9"])


def replay(ctx, data):
    inp = data.get("input") or (data.get("correspondence_disagreements") or [{}])[0].get("input")
    if not inp or "batch" not in inp:
        print(json.dumps(data, indent=1)[:3000])
        return 1
    batch, fs, ms, variant = inp["batch"], inp.get("fs"), inp.get("ms"), inp.get("variant", "f64")
    if inp.get("mode") == "helpers":
        hrows = [tuple(r[:4]) + (r[4],) for r in inp["rows"]]
        hobs = impl_helpers(inp["k"], hrows)
        print("stage functions called directly:", repr(hobs)[:1500])
        if isinstance(hobs, Exception):
            return 1
        ids = common.coq_mismatches(PROP, HEADER, [common.flat_cases_term(0, enc_helper_inp(inp["k"], hrows), hobs)])
        print("kernel-evaluated model agrees with implementation:", not ids)
        return 1 if ids else 0
    if inp.get("mode") == "canary":
        dead = canary()
        print("child-process run of the public functions:", dead or "fine")
        return 1 if dead else 0
    if inp.get("mode") == "peaks":
        obs = impl_peaks(batch, variant)
        print("find_peak / pick_maxima / weights_spk_ch:", repr(obs)[:1500])
        bad = [repr(obs)] if isinstance(obs, Exception) else oracle_peaks(batch, obs)
        print("failing on the implementation:", bad[:3])
        ids = common.coq_mismatches(PROP, HEADER, [common.flat_cases_term(
            0, enc_inp(batch, k_of(fs, ms), 1, variant == "2d"), enc_peaks(obs))])
        print("kernel-evaluated model agrees with implementation:", not ids)
        return 1 if (bad or ids) else 0
    stats = {k: 0 for k in ("rows", "raised", "swap", "doubly_positive", "peak_last5", "trough_last5",
                            "recovery_fallback", "positive_peak", "channel_tie", "nan", "peak_eq_trough",
                            "meta_calls", "perm_rows", "perm_skipped_tie", "nondefault_fs_or_ms", "peaks_calls",
                            "helper_calls", "return_peak_channel_calls")}
    res = check_batch(ctx, batch, fs, ms, stats, variant=variant)
    if isinstance(res, Exception):
        print("implementation raised:", repr(res))
    else:
        for r in res[:4]:
            print("implementation row:", r)
    for f in ctx.oracle_failures[:6]:
        print("property clause failing on the implementation:", f["what"], f["tags"])
    k = k_of(fs, ms)
    ids = common.coq_mismatches(PROP, HEADER, [common.flat_cases_term(0, enc_inp(batch, k, 0, variant == "2d"),
                                                                      enc_obs(res, fs, variant_tol(variant)))])
    print("kernel-evaluated model agrees with implementation:", not ids)
    known = common.load_known(PROP)
    unknown = [f for f in ctx.oracle_failures if not any(common.known_match(kf, f["tags"]) for kf in known)]
    return 1 if (unknown or ids) else 0
