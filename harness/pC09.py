"""C09 — SpikeGLX metadata: parse / write round trip and derived acquisition parameters.
Proofs in coq/C09, correspondence against spikeglx.read_meta_data / write_meta_data /
_get_*_from_meta / _conversion_sample2v_from_meta / Reader properties."""
import json
import re
import shutil
from decimal import Decimal
from fractions import Fraction

import numpy as np

import common

PROP = "C09"
HEADER = "From Coq Require Import ZArith List.\nImport ListNotations.\nFrom IBL.C09 Require Import Run."
TRUSTED = [
    "Coq 8.16.1 kernel + vm_compute (no native_compute); the 25 theorems of Props.v: Closed under the global context "
    "(enforced by the check); the 2 rounding-budget theorems of PropsR.v use the standard library's real numbers "
    "(ClassicalDedekindReals.sig_forall_dec, FunctionalExtensionality.functional_extensionality_dep)",
    "IEEE standard model (each float32 / float64 operation within 2^-24 / 2^-53 relative, no underflow) as explicit "
    "hypotheses of C09_s2v_float32_budget / C09_ns_float64_budget, which justify the 1e-6 tolerance and the exact product",
    "C09_float_value_roundtrip / C09_float_dict_roundtrip hypotheses repr_roundtrip (float(np.format_float_positional(x, "
    "trim='-')) == x, normal-form digits) and int_exact (float(str(int(x))) == x for integer-valued x): facts about "
    "CPython/NumPy conversions, sampled on every run (kind repr_hypothesis)",
    "hand-written model coq/C09/Model.v of spikeglx.read_meta_data / write_meta_data / _get_*_from_meta / "
    "_conversion_sample2v_from_meta, tied to /repo/src by this run's correspondence",
    "floats from literals are modelled as exact decimals (m, s): faithful for mantissa < 10^15 and <= 290 "
    "fractional digits (double precision holds 15 significant digits; shortest repr prints them back); "
    "scalars with 16-17 digits are only exercised by the round-trip oracle on the implementation",
    "float32/float64 rounding inside sample2volts is not modelled: entries are compared with the model's exact "
    "rational range/maxint/gain at relative 1e-6 (float32 eps 6e-8; any wrong gain differs by >= 2 %)",
    "Reader.ns: exact product rounded half-even; generated cases keep the product >= 1e-3 away from .5 "
    "unless both factors are dyadic",
    "Python text-mode decoding (utf-8), str.splitlines boundary set, int(str) grammar for code points < 256",
    "harness/pC09.py generators, canonicaliser and oracle",
    "extraction (Require Extraction, ExtrOcamlBasic only), harness/driver.ml, ocamlfind ocamlopt; a sample of "
    "the same cases is re-evaluated by the kernel (vm_compute)",
]
ERRS = (ValueError, TypeError, KeyError, IndexError, NameError, ZeroDivisionError, OverflowError)
BIG = 1 << 61
VERS = ["3A", "3B1", "3B2", "NP2.1", "NP2.4", "NPultra"]
STREAM = {"ap": 1, "lf": 2, "nidq": 3}
NUMRE = re.compile(r"[0-9,.]*")


# ----------------------------------------------------------------------------- canonical encoding
def dec_of_float(x):
    """exact decimal (m, s) of the shortest repr of a float, normal form"""
    if x != x or x in (float("inf"), float("-inf")) or x < 0:
        return [-1, -1]
    sign, digits, exp = Decimal(repr(float(x))).as_tuple()
    m = int("".join(map(str, digits)))
    s = 0
    if exp >= 0:
        m *= 10 ** exp
    else:
        s = -exp
    while s > 0 and m % 10 == 0:
        m //= 10
        s -= 1
    return [m, s]


def enc_str(s):
    return [len(s)] + [ord(c) for c in s]


def enc_value(v):
    if v is None:
        return [4]
    if isinstance(v, str):
        return [0] + enc_str(v)
    if isinstance(v, (float, np.floating)):
        return [1] + dec_of_float(v)
    if isinstance(v, list):
        out = [2, len(v)]
        for x in v:
            out += dec_of_float(x) if isinstance(x, float) else [-2, -2]
        return out
    if isinstance(v, (int, np.integer)) and not isinstance(v, bool):
        return [3, int(v)]
    return [-3]


def enc_dict(d):
    out = [len(d)]
    for k, v in d.items():
        out += enc_str(k) + enc_value(v)
    return out


def enc_zopt(o):
    if o is None:
        return [0]
    if isinstance(o, (int, np.integer)) and not isinstance(o, bool):
        return [1, int(o)]
    return [-4]          # a result of the wrong type never equals the model's integer


def guarded(f, *a):
    """(True, value) or (False, exception class name); unexpected classes are re-raised"""
    try:
        return True, f(*a)
    except ERRS as e:
        return False, type(e).__name__


# ----------------------------------------------------------------------------- implementation
def impl_observe(text, tmp, full_reader=False):
    """Run the real functions on one .meta text."""
    import spikeglx
    import warnings
    obs = {"text": text}
    p = tmp / "x.imec0.ap.meta"
    p.write_bytes(text.encode("utf-8"))
    ok, md = guarded(spikeglx.read_meta_data, p)
    obs["read_ok"] = ok
    if not ok:
        obs["read_exc"] = md
        return obs
    obs["md"] = md
    obs["md_enc0"] = enc_dict(md)          # deep snapshot: the functions below must not change md
    q = tmp / "y.imec0.ap.meta"
    spikeglx.write_meta_data(md, q)
    obs["written"] = q.read_bytes().decode("utf-8")
    ok2, md2 = guarded(spikeglx.read_meta_data, q)
    obs["reread_ok"] = ok2
    obs["reread_pyeq"] = bool(ok2 and md2 == md)
    obs["reread_canon"] = bool(ok2 and enc_dict(md2) == enc_dict(md))
    # the same calls with str instead of Path arguments, and a write / read / write / read sequence on ONE
    # path that already holds a longer file
    seq = {}
    ok_s, md_s = guarded(spikeglx.read_meta_data, str(p))
    seq["read_str_eq_path"] = bool(ok_s and enc_dict(md_s) == enc_dict(md))
    s = tmp / "seq.imec0.ap.meta"
    s.write_bytes(b"stale=1\n" * 400)
    spikeglx.write_meta_data(md, str(s))
    b1 = s.read_bytes()
    seq["write_str_eq_path"] = b1 == q.read_bytes()
    ok3, md3 = guarded(spikeglx.read_meta_data, str(s))
    seq["rewrite_identical"] = seq["final_eq"] = False
    if ok3:
        spikeglx.write_meta_data(md3, s)
        seq["rewrite_identical"] = s.read_bytes() == b1
        ok4, md4 = guarded(spikeglx.read_meta_data, s)
        seq["final_eq"] = bool(ok4 and md4 == md3 and enc_dict(md4) == enc_dict(md3))
    obs["seq"] = seq
    obs["version"] = guarded(spikeglx._get_neuropixel_version_from_meta, md)
    obs["major"] = guarded(spikeglx._get_neuropixel_major_version_from_meta, md)
    obs["type"] = guarded(spikeglx._get_type_from_meta, md)
    obs["nc"] = guarded(spikeglx._get_nchannels_from_meta, md)
    obs["sync"] = guarded(spikeglx._get_sync_trace_indices_from_meta, md)
    obs["fs"] = guarded(spikeglx._get_fs_from_meta, md)
    obs["maxint"] = guarded(spikeglx._get_max_int_from_meta, md)
    obs["async"] = guarded(spikeglx._get_analog_sync_trace_indices_from_meta, md)
    # the optional neuropixel_version argument
    obs["maxint_3A"] = guarded(spikeglx._get_max_int_from_meta, md, "3A")
    obs["maxint_NP24"] = guarded(spikeglx._get_max_int_from_meta, md, "NP2.4")
    # the getters on a plain dict instead of the Bunch returned by read_meta_data
    pd = dict(md)
    same = True
    for name, f in (("version", spikeglx._get_neuropixel_version_from_meta), ("type", spikeglx._get_type_from_meta),
                    ("nc", spikeglx._get_nchannels_from_meta), ("sync", spikeglx._get_sync_trace_indices_from_meta),
                    ("fs", spikeglx._get_fs_from_meta), ("maxint", spikeglx._get_max_int_from_meta)):
        same = same and guarded(f, pd) == obs[name]
    obs["plain_dict_same"] = bool(same)
    with warnings.catch_warnings(), np.errstate(all="ignore"):
        warnings.simplefilter("ignore")
        obs["s2v"] = guarded(spikeglx._conversion_sample2v_from_meta, md)
        # the Reader properties are functions of .meta and .channel_conversion_sample2v only
        r = spikeglx.Reader.__new__(spikeglx.Reader)
        r.meta = md
        r.channel_conversion_sample2v = obs["s2v"][1] if obs["s2v"][0] else None
        obs["r_ns"] = guarded(lambda: r.ns)
        obs["r_fs"] = guarded(lambda: r.fs)
        obs["r_nc"] = guarded(lambda: r.nc)
        obs["r_nsync"] = guarded(lambda: r.nsync)
        obs["r_type"] = guarded(lambda: r.type)
        obs["r_version"] = guarded(lambda: r.version)
        if obs["s2v"][0]:
            obs["r_s2v"] = guarded(lambda: r.sample2volts)
            obs["r_range"] = guarded(lambda: r.range_volts)
        else:
            obs["r_s2v"] = (False, "no-s2v")
            obs["r_range"] = (False, "no-s2v")
        if full_reader:
            import logging
            logging.disable(logging.CRITICAL)
            try:
                rr = spikeglx.Reader(p, open=False)
                obs["full"] = {"fs": rr.fs, "nc": rr.nc, "nsync": rr.nsync, "ns": rr.ns, "type": rr.type,
                               "version": rr.version, "s2v": np.array(rr.sample2volts),
                               "range": np.array(rr.range_volts)}
                if rr.type == "nidq" and 1 <= rr.nc <= 64:
                    # open a 4-sample binary next to the meta and read it back in volts
                    b = p.with_suffix(".bin")
                    raw = (np.arange(4 * rr.nc, dtype=np.int16).reshape(4, rr.nc) * 37 - 50).astype(np.int16)
                    try:
                        raw.tofile(b)
                        r2 = spikeglx.Reader(b, ignore_warnings=True)
                        got = np.asarray(r2[0:4, :])
                        want = raw.astype(np.float32) * np.asarray(obs["full"]["s2v"], dtype=np.float32)
                        obs["full_read"] = bool(got.shape == want.shape and np.allclose(got, want, rtol=1e-6, atol=0)
                                                and r2.nc == rr.nc and r2.ns == 4 and r2.type == "nidq")
                        r2.close()
                    except ERRS as e:
                        obs["full_read"] = "exc:" + type(e).__name__
                    finally:
                        b.unlink(missing_ok=True)
            except ERRS as e:
                obs["full"] = "exc:" + type(e).__name__
            finally:
                logging.disable(logging.NOTSET)
    obs["mutated"] = enc_dict(md) != obs["md_enc0"]
    return obs


def conv_ok(x, rng, mi, tag, gm, gs):
    """is the implementation's float x the model's entry (range/maxint/g, or exactly 1)?"""
    x = float(x)
    if tag == 1:
        return x == 1.0
    if gm == 0:
        return not np.isfinite(x)
    e = float(rng / mi / Fraction(gm, 10 ** gs))
    return np.isfinite(x) and abs(x - e) <= 1e-6 * abs(e)


def parse_model_s2v(sec):
    """decode the model's s2v section (see coq/C09/Run.v)"""
    if sec[0] == 0:
        return None
    rm, rs, mi, kind = sec[1:5]
    pos = 5
    vecs = []
    for _ in range(2 if kind == 0 else 1):
        n = sec[pos]
        pos += 1
        vecs.append([tuple(sec[pos + 3 * i: pos + 3 * i + 3]) for i in range(n)])
        pos += 3 * n
    return {"range": Fraction(rm, 10 ** rs), "maxint": mi, "kind": kind, "vecs": vecs}


def enc_impl_s2v(obs, model_sec):
    """s2v section of the implementation's output: the model's own encoding when the observed float
    vectors agree with it numerically, otherwise an encoding that cannot match."""
    ok, val = obs["s2v"]
    if not ok:
        return [0], None
    m = parse_model_s2v(model_sec) if model_sec else None
    keys = sorted(val.keys())
    vecs = [np.asarray(val[k], dtype=float) for k in (["ap", "lf"] if keys == ["ap", "lf"] else keys)]
    why = None
    if m is None:
        why = "model reports an error, implementation returned vectors"
    elif (m["kind"] == 0) != (keys == ["ap", "lf"]) or (m["kind"] == 1 and keys != ["nidq"]):
        why = "stream keys %s" % keys
    elif [len(v) for v in vecs] != [len(v) for v in m["vecs"]]:
        why = "vector lengths %s vs model %s" % ([len(v) for v in vecs], [len(v) for v in m["vecs"]])
    else:
        for vi, (v, mv) in enumerate(zip(vecs, m["vecs"])):
            for c, (x, (tag, gm, gs)) in enumerate(zip(v, mv)):
                if not conv_ok(x, m["range"], m["maxint"], tag, gm, gs):
                    why = "vector %d entry %d: implementation %r, model range %s / maxint %s / gain %s" % (
                        vi, c, float(x), m["range"], m["maxint"], "1 (sync)" if tag == 1 else Fraction(gm, 10 ** gs))
                    break
            if why:
                break
    if why is None:
        return list(model_sec), None
    flat = [2, len(vecs)]
    for v in vecs:
        flat += [len(v)] + [int(min(max(x, -1e6), 1e6) * 1e12) if np.isfinite(x) else -7 for x in v[:50]]
    return flat, why


def enc_impl(obs, model_out):
    """flat encoding of the implementation's observation, same layout as coq/C09/Run.v `run`;
    returns (encoding, reason the s2v vectors differ numerically or None)"""
    if not obs["read_ok"]:
        return [1, 0, 0], None
    msec = None
    if model_out and model_out[0] >= 1 and len(model_out) > model_out[0]:
        msec = model_out[1:1 + model_out[0]]
    sec, why = enc_impl_s2v(obs, msec)
    out = [len(sec)] + sec + [1] + obs["md_enc0"] + enc_str(obs["written"]) + [1 if obs["reread_canon"] else 0]
    ok, v = obs["version"]
    out += [0] if v is None else [1, VERS.index(v) if v in VERS else -9]
    ok, t = obs["type"]
    out += [-1] if not ok else [0] if t is None else [STREAM.get(t, -9) if isinstance(t, str) else -9]
    ok, n = obs["nc"]
    out += enc_zopt(n if ok else None)
    ok, idx = obs["sync"]
    if not ok:
        out += [0]
    else:
        ntr = obs["nc"][1]
        nsy = len(idx)
        start = idx[0] if nsy else None
        out += [1, start if start is not None else -BIG, nsy]
    ok, f = obs["fs"]
    out += [0] if (not ok or f is None) else [1] + enc_value(f)
    ok, ns = obs["r_ns"]
    out += enc_zopt(ns if ok else None)
    ok, mi = obs["maxint"]
    out += enc_zopt(mi if ok else None)
    ok, sv = obs["r_s2v"]
    out += [1, len(sv)] if ok else [0]
    ok, mj = obs["major"]
    out += [0] if (not ok or mj is None) else [1, {1: 1, 2: 2, 2.4: 3, "NPultra": 4}.get(mj, -9)]
    ok, a = obs["async"]
    out += [0] if not ok else [1, len(a), a[0] if len(a) else 0]
    for name in ("maxint_3A", "maxint_NP24"):
        ok, mi = obs[name]
        out += enc_zopt(mi if ok else None)
    return out, why


def fix_sync_start(enc_model, enc_i):
    """range(ntr-nsync, ntr) is empty when nsync <= 0: its first index is then unobservable;
    copy the model's value in that single slot."""
    if -BIG in enc_i:
        k = enc_i.index(-BIG)
        if enc_model and len(enc_model) > k and enc_i[:k] == enc_model[:k] and enc_i[k + 1] == 0:
            enc_i = list(enc_i)
            enc_i[k] = enc_model[k]
    return enc_i


# ----------------------------------------------------------------------------- generators
LETTERS = "abcdefghijklmnopqrstuvwxyzABCDEFGHIJKLMNOPQRSTUVWXYZ"
ALPHA = [chr(c) for c in range(32, 127)] + ["\t", "\x1f", "\xa0", "\xe9", "\xb5", "\u03b1"]
KEYPOOL = ["a", "b", "~b", "b~", "k1", "fileName", "~snsChanMap", "snsChanMap", "user notes", "", "x.y", "A",
           "typeEnabled", "imDatPrb_type", "imDatPrb_port", "imDatPrb_slot", "imProbeSN", "imDatPrb_sn",
           "neuropixelVersion", "serial", "typeThis", "~~t~", "imMaxInt", "imAiRangeMax"]
LEGAL_GAINS = [50, 125, 250, 500, 1000, 1500, 2000, 3000]


def is_numeric(v):
    return bool(v) and NUMRE.fullmatch(v) is not None and v.count(".") < 2


def gen_key(rng):
    if rng.random() < 0.6:
        return rng.choice(KEYPOOL)
    n = rng.choice([1, 2, 3, 5, 8, 12])
    k = "".join(rng.choice(LETTERS + "0123456789_. ~~") for _ in range(n))
    return k


def gen_scalar(rng, maxdig=15):
    """literal over [0-9.] with one optional dot; mantissa < 10^maxdig"""
    kind = rng.random()
    if kind < 0.30:
        nd = rng.choice([1, 1, 2, 3, 5, 9, 11, maxdig - 1, maxdig])
        s = str(rng.randrange(10 ** (nd - 1) if nd > 1 else 0, 10 ** nd))
        if rng.random() < 0.15:
            s = "0" * rng.randrange(1, 4) + s
        if rng.random() < 0.1:
            s += "."
        elif rng.random() < 0.1:
            s += "." + "0" * rng.randrange(1, 4)
        return s
    if kind < 0.45:      # small magnitudes (the F-C09-a region) and boundaries 1e-4, 1e-5
        z = rng.choice([3, 4, 5, 6, 9, 12, 20, 40])
        return rng.choice(["0", "", "00"]) + "." + "0" * z + str(rng.randrange(1, 10 ** rng.choice([1, 2, 4])))
    if kind < 0.55:
        return rng.choice(["0", "0.0", ".0", "0.", "1", "10", "100000", "0.1", "0.5", ".5", "5.", "0.0001", "0.00001",
                           "0.00005", "0.0001000", "999999999999999", "99999999999999.9", "0.999999999999999",
                           "1000000000000000"[:maxdig], "30000.390639481", "0.6", "512", "8192", "32768", "1.1"])
    ni = rng.choice([0, 1, 1, 2, 4, 6, 9])
    nf = rng.randrange(1, max(2, maxdig - ni + 1))
    a = "".join(rng.choice("0123456789") for _ in range(ni))
    b = "".join(rng.choice("0123456789") for _ in range(nf))
    if not a and not b.strip("0"):
        b += "7"
    lit = a + "." + b
    if len((a + b).lstrip("0")) > maxdig:
        lit = a[:1] + "." + b[:3]
    return lit


def gen_ilist(rng):
    n = rng.choice([2, 2, 3, 3, 4, 5, 8])
    xs = [str(rng.randrange(0, 10 ** rng.choice([1, 1, 2, 3, 3, 9]))) for _ in range(n)]
    r = rng.random()
    if r < 0.08:
        xs[rng.randrange(n)] += "."
    elif r < 0.16:
        xs[rng.randrange(n)] += ".0"
    elif r < 0.22:
        xs[rng.randrange(n)] = "0" + xs[0]
    return ",".join(xs)


def gen_string(rng):
    r = rng.random()
    if r < 0.25:
        s = rng.choice(["", "true", "false", "Immediate", "2019-08-15T17:37:20", "1.1.128", "0:383,768", "all",
                        "D:/Testing Data/x=y/test.bin", "a=b=c", "=", "==1", "1.5,2.5", "1.2.3", "-5", "+5", "1e5",
                        " 12", "12 ", "1_0", "5e-05", "NP2_QBSC_00\t", "None", "3A", "(0,384)(0 0 0 500 250 1)",
                        "PXI1Slot2_1ch_Int : 30003.000300", "1,2,x", "..", "1..2", "0x10", "1 2", "\xa05"])
    else:
        n = rng.choice([1, 2, 3, 6, 12, 30])
        pool = ALPHA if rng.random() < 0.6 else list("0123456789.,=~ ")
        s = "".join(rng.choice(pool) for _ in range(n))
    if is_numeric(s):
        s = s + rng.choice(["x", "=", " ", "..", "-"])
        if is_numeric(s):
            s = "s" + s
    return s


def py_expected(cls, lit):
    if cls == "str":
        return lit
    if cls == "scalar":
        return float(lit)
    return [float(x) for x in lit.split(",")]


SEPS = ["\n", "\n", "\n", "\r\n", "\r", "\x0c", "\x0b", "\x1c", "\x1d", "\x1e", "\x85", "\u2028", "\u2029"]


def assemble(rng, lines, plain=False):
    if plain or rng.random() < 0.7:
        sep, end = "\n", "\n"
    else:
        sep = rng.choice(SEPS)
        end = rng.choice([sep, "", "\n"])
        if rng.random() < 0.3:
            return "".join(l + rng.choice(SEPS) for l in lines[:-1]) + (lines[-1] + end if lines else "")
    return sep.join(lines) + (end if lines else "")


def gen_grammar(rng, maxdig=15):
    """a file over the property's grammar; returns (text, expected python dict without derived keys)"""
    n = rng.choice([0, 1, 2, 3, 4, 6, 8, 12])
    lines, exp = [], {}
    for _ in range(n):
        k = gen_key(rng)
        r = rng.random()
        if k.replace("~", "") in ("imProbeSN", "imDatPrb_sn"):
            cls = "scalar"          # int(serial) of a non-numeric string is outside the grammar
            v = rng.choice(["0", "641251510", "18005116811", "0641", "12.0", str(rng.randrange(10 ** 11))])
        elif r < 0.34:
            cls, v = "str", gen_string(rng)
        elif r < 0.78:
            cls, v = "scalar", gen_scalar(rng, maxdig)
        else:
            cls, v = "ilist", gen_ilist(rng)
        if k.replace("~", "") == "imDatPrb_type" and rng.random() < 0.8:
            cls, v = "scalar", rng.choice(["0", "21", "24", "1030", "2013", "1100", "1", "0.0", "21.", "1100.5", "00"])
        lines.append(k + "=" + v)
        exp[k.replace("~", "")] = py_expected(cls, v)
    return assemble(rng, lines), exp


def imro_text(kind, entries, rng):
    """entries: list of (chan, bank, ref, apgain, lfgain)"""
    n = len(entries)
    if kind == "3A":
        hdr = "(%d,%d,%d)" % (rng.randrange(10 ** 8, 10 ** 9), rng.choice([3, 4]), n)
        body = "".join("(%d %d %d %d %d)" % e for e in entries)
    elif kind in ("NP2.1",):
        hdr = "(%d,%d)" % (21, n)
        body = "".join("(%d %d %d %d)" % (e[0], 1 << e[1], e[2], e[0] + 384 * e[1]) for e in entries)
    elif kind in ("NP2.4",):
        hdr = "(%d,%d)" % (24, n)
        body = "".join("(%d %d %d %d %d)" % (e[0], e[0] % 4, e[1], e[2], e[0] + 384 * e[1]) for e in entries)
    else:
        hdr = "(%d,%d)" % (1100 if kind == "NPultra" else 0, n)
        body = "".join("(%d %d %d %d %d %d)" % (e + (rng.choice([0, 1]),)) for e in entries)
    return hdr + body


def subset_text(chans, extra):
    """SpikeGLX snsSaveChanSubset text of a sorted channel list"""
    parts, i = [], 0
    while i < len(chans):
        j = i
        while j + 1 < len(chans) and chans[j + 1] == chans[j] + 1:
            j += 1
        parts.append("%d:%d" % (chans[i], chans[j]) if j > i else "%d" % chans[i])
        i = j + 1
    return ",".join(parts + [str(x) for x in extra])


def gen_probe(rng, big=False):
    """a well-formed synthetic .meta for one probe type / stream; returns (text, intent)"""
    kind = rng.choice(["3A", "3B1", "3B2", "NP2.1", "NP2.4", "NPultra", "nidq"])
    it = {"kind": kind}
    L = []
    fs_lit = rng.choice(["30000", "2500", "30000.390639481", "29999.5", "2500.03", "30003.0003", "12500.25"])
    ns = rng.choice([0, 1, 2, 1000, 75000, 2 ** 20, 10 ** 7 + 3, rng.randrange(1, 10 ** 9)])
    fsq = Fraction(Decimal(fs_lit))
    secs = Fraction(ns) / fsq
    digs = rng.choice([6, 8, 10])
    secs_lit = "%.*f" % (digs, float(secs))
    if len(secs_lit.replace(".", "").lstrip("0")) > 15:
        secs_lit = "%.4f" % float(secs)
    prod = Fraction(Decimal(secs_lit)) * fsq
    if rng.random() < 0.1:      # exact ties, both factors dyadic
        fs_lit, secs_lit = rng.choice([("1", "2.5"), ("1", "3.5"), ("0.5", "5"), ("2", "0.25"), ("0.25", "6")])
        prod = Fraction(Decimal(secs_lit)) * Fraction(Decimal(fs_lit))
        it["ns"] = int(round(prod))     # Python round: half-even on the exact Fraction
    else:
        frac = prod - (prod.numerator // prod.denominator)
        if abs(frac - Fraction(1, 2)) < Fraction(1, 1000):
            secs_lit, prod = "2", 2 * fsq
            frac = prod - (prod.numerator // prod.denominator)
            if abs(frac - Fraction(1, 2)) < Fraction(1, 1000):
                fs_lit, prod = "30000", Fraction(60000)
        it["ns"] = int(round(prod))
    it["fs"] = float(fs_lit)
    L.append("fileTimeSecs=" + secs_lit)
    if kind == "nidq":
        mn, ma, xa, dw = rng.choice([(0, 0, 1, 1), (0, 0, 8, 1), (2, 1, 3, 2), (0, 2, 0, 1), (3, 0, 0, 0),
                                     tuple(rng.randrange(0, 5) for _ in range(4))])
        rng_lit = rng.choice(["5", "2.5", "10", "1.25"])
        gmn = rng.choice(["200", "1", "100", "2.5", "12.5"])
        gma = rng.choice(["1", "10", "0.5", "2"])
        it.update(type="nidq", version=None, nc=mn + ma + xa + dw, nsync=dw, range=Fraction(Decimal(rng_lit)),
                  analog_sync=list(range(mn + ma, mn + ma + xa)),
                  gains=[Fraction(Decimal(gmn))] * mn + [Fraction(Decimal(gma))] * ma + [Fraction(1)] * xa + [None] * dw)
        L += ["typeThis=nidq", "niAiRangeMax=" + rng_lit, "niMNGain=" + gmn, "niMAGain=" + gma,
              "snsMnMaXaDw=%d,%d,%d,%d" % (mn, ma, xa, dw), "nSavedChans=%d" % (mn + ma + xa + dw),
              "niSampRate=" + fs_lit, "acqMnMaXaDw=%d,%d,%d,%d" % (mn, ma, xa, dw), "snsSaveChanSubset=all",
              "niAiRangeMin=-" + rng_lit]
        if rng.random() < 0.3:
            mi = rng.choice([32768, 2048, 65536])
            L.append("imMaxInt=%d" % mi)
        else:
            mi = 32768
        it["maxint"] = mi
        it["subset_prefix"] = True
        it["era3A"] = rng.random() < 0.3
        if it["era3A"]:                 # nidq stream of a 3A (phase 3A / imec-option era) recording
            L.append("typeEnabled=" + rng.choice(["imec,nidq", "nidq"]))
            it["version"] = "3A"
    else:
        stream = rng.choice(["ap", "lf"])
        if kind in ("NP2.1", "NP2.4"):
            stream = rng.choice(["ap", "ap", "lf"])
        nent = 384 if big else rng.choice([4, 8, 12, 16, 24, 32, 48])
        if big and kind == "3A" and rng.random() < 0.5:
            nent = 276
        mode = rng.random()
        if mode < 0.15:
            gp = [(rng.choice(LEGAL_GAINS), rng.choice(LEGAL_GAINS))] * nent        # uniform
        elif mode < 0.3:
            a, b = (rng.choice(LEGAL_GAINS), rng.choice(LEGAL_GAINS)), (rng.choice(LEGAL_GAINS), rng.choice(LEGAL_GAINS))
            cut = rng.randrange(1, nent)
            gp = [a] * cut + [b] * (nent - cut)
        else:
            gp = [(rng.choice(LEGAL_GAINS), rng.choice(LEGAL_GAINS)) for _ in range(nent)]
        entries = [(i, rng.choice([0, 0, 1, 2]), rng.choice([0, 1]), gp[i][0], gp[i][1]) for i in range(nent)]
        # saved channels
        sm = rng.random()
        if sm < 0.45:
            chans = list(range(nent))
        elif sm < 0.7:
            chans = list(range(rng.choice([1, 2, nent - 1, rng.randrange(1, nent + 1)])))
        elif sm < 0.85:
            a = rng.randrange(1, nent)
            chans = list(range(a, rng.randrange(a + 1, nent + 1)))
        else:
            chans = sorted(rng.sample(range(nent), rng.randrange(1, nent + 1)))
        nsy = rng.choice([1, 1, 1, 0, 2])
        n = len(chans)
        prefix = chans == list(range(n))
        rng_lit = rng.choice(["0.6", "0.5", "0.62", "1.2", "0.6000", ".6", "5"])
        np2 = kind in ("NP2.1", "NP2.4")
        if np2:
            mi = rng.choice([8192, 8192, 2048, 512])
            L.append("imMaxInt=%d" % mi)
        elif rng.random() < 0.5:
            mi = rng.choice([512, 512, 8192])
            L.append("imMaxInt=%d" % mi)
        else:
            mi = 512
        col = 3 if stream == "ap" else 4
        if np2:
            gains = [Fraction(80)] * n
        else:
            gains = [Fraction(entries[c][col]) for c in chans]
        it.update(type=stream, version=kind, nc=n + nsy, nsync=nsy, range=Fraction(Decimal(rng_lit)), maxint=mi,
                  gains=gains + [None] * nsy, subset_prefix=prefix,
                  gains_uniform_on_prefix=np2 or [Fraction(entries[c][col]) for c in range(n)] == gains)
        L += ["typeThis=imec", "imAiRangeMax=" + rng_lit, "imAiRangeMin=-" + rng_lit, "imSampRate=" + fs_lit,
              "nSavedChans=%d" % (n + nsy),
              "snsApLfSy=%d,%d,%d" % ((n, 0, nsy) if stream == "ap" else (0, n, nsy)),
              "acqApLfSy=%d,%d,%d" % (nent, nent, 1),
              "snsSaveChanSubset=" + subset_text(chans, [2 * nent + i for i in range(nsy)]),
              rng.choice(["~imroTbl=", "~imroTbl=", "imroTbl="]) + imro_text(kind, entries, rng)]
        sn = str(rng.randrange(10 ** 8, 10 ** 11))
        if kind == "3A":
            L += ["typeEnabled=" + rng.choice(["imec", "imec,nidq"]), "imProbeSN=" + sn, "imProbeOpt=3"]
        else:
            code = {"3B1": ["0"], "3B2": ["0"], "NP2.1": ["21", "1030"], "NP2.4": ["24", "2013"], "NPultra": ["1100"]}[kind]
            L += ["imDatPrb_type=" + rng.choice(code), "imDatPrb_sn=" + sn]
            r = rng.random()
            if kind == "3B1":
                L += [] if r < 0.4 else ["imDatPrb_port=2"] if r < 0.7 else ["imDatPrb_slot=3"]
            elif kind == "3B2" or r < 0.7:
                L += ["imDatPrb_port=%d" % rng.randrange(0, 5), "imDatPrb_slot=%d" % rng.randrange(0, 9)]
        it["serial"] = int(sn)
    L += ["appVersion=20190327", "gateMode=Immediate", "userNotes=", "fileSHA1=1BF3219C35DEA15409576F6764DD9152C3F8A89C"][
        :rng.randrange(0, 5)]
    rng.shuffle(L)
    it["lines"] = L
    return assemble(rng, L, plain=rng.random() < 0.85), it


def small_scalar(rng):
    """numeric literal below 600 (counts derived from it stay small)"""
    r = rng.random()
    if r < 0.5:
        return str(rng.choice([0, 1, 2, 3, 5, 8, 100, 384, 385, 512, rng.randrange(0, 600)]))
    return "%d.%s" % (rng.randrange(0, 600), rng.choice(["0", "5", "25", "000", "125", ""]))


def small_ilist(rng):
    return ",".join(str(rng.choice([0, 0, 1, 2, 3, 8, 384, rng.randrange(0, 500)])) + rng.choice(["", "", "", ".", ".0", ".5"])
                    for _ in range(rng.choice([2, 3, 3, 4, 5])))


def gen_malformed(rng):
    """a probe file with one or two defects, or a defective free-form file"""
    r = rng.random()
    if r < 0.25:
        base, _ = gen_grammar(rng)
        lines = base.split("\n")
        m = rng.random()
        bad = rng.choice(["noequals", "x=1,,2", "x=.", "x=,", "x=1,", "x=,1", "", "x=1.5,2", "x=1.5,2,3", "imProbeSN=abc",
                          "imDatPrb_sn=1.2.3", "imProbeSN= 12", "imProbeSN=-7", "imProbeSN=1_0", "imDatPrb_sn=1,2",
                          "imProbeSN=+", "imProbeSN=\t12\xa0", "imProbeSN=5_", "imProbeSN=0", "x=1.5,2.0,3."])
        lines.insert(rng.randrange(0, len(lines) + 1), bad)
        return "\n".join(lines), "free"
    text, it = gen_probe(rng)
    L = list(it["lines"])
    for _ in range(rng.choice([1, 1, 2])):
        m = rng.random()
        i = rng.randrange(len(L))
        k = L[i].split("=", 1)[0]
        if m < 0.3:
            del L[i]
        elif m < 0.7:
            v = rng.choice([small_scalar(rng), gen_string(rng), small_ilist(rng), "", "0", "0,0,1", "384,384,1", "0,0,0",
                            "384,0", "5", " 5", "-1", "ap", "a", "nidq", "imec", "7,", "0.0", "1,2,3,4,5"])
            if k in ("niMNGain", "niMAGain") and "," in v and is_numeric(v):
                v = small_scalar(rng)       # list-valued gains broadcast in NumPy: outside the model
            L[i] = k + "=" + v
        elif m < 0.85:
            k2 = rng.choice(L).split("=", 1)[0]
            L.append(k2 + "=" + rng.choice([small_scalar(rng), gen_string(rng)] +
                                            ([] if k2 in ("niMNGain", "niMAGain") else [small_ilist(rng)])))
        else:
            L.insert(i, rng.choice(["", "junk", "typeEnabled=1", "imroTbl=5", "imroTbl=(0,2)(0 0 0  250 1)(1 0 0 500  1)",
                                    "niMNGain=3", "imDatPrb_type=7", "nSavedChans=3", "imMaxInt=0", "snsApLfSy=1,0,1"]))
    return assemble(rng, L, plain=True), "probe"


def rand_double(rng):
    """a finite non-negative double with (usually) 16-17 significant digits"""
    r = rng.random()
    if r < 0.25:
        return float(rng.randrange(0, 10 ** rng.choice([1, 3, 9, 15, 16, 17, 19, 22])))      # integer-valued
    if r < 0.35:
        return rng.choice([0.0, 0.1, 0.2 + 0.1, 1 / 3, 2 / 3, 1e-4, 1e-5, 5e-324, 2.2250738585072014e-308, 1e15, 1e16,
                           9007199254740993.0, 0.1 + 0.7, 824.4640643928594, 30000.390639481, 1.7976931348623157e308])
    return rng.random() * 10.0 ** rng.randrange(-30, 25)


def gen_direct(rng):
    """a Python dictionary handed to write_meta_data directly (not obtained from a read)"""
    d = {}
    for _ in range(rng.choice([1, 2, 3, 5, 8])):
        k = gen_key(rng).replace("~", "")
        if k in ("imProbeSN", "imDatPrb_sn", "neuropixelVersion", "serial"):
            k = "k" + k
        r = rng.random()
        if r < 0.3:
            d[k] = gen_string(rng)
        elif r < 0.8:
            d[k] = rand_double(rng)
        else:
            d[k] = [float(rng.randrange(0, 10 ** rng.choice([1, 3, 9, 16]))) for _ in range(rng.choice([2, 3, 5]))]
    return d


def check_direct(ctx, n):
    """write_meta_data on arbitrary dictionaries of strings / doubles / integer-valued lists, then
    read_meta_data (C09_float_dict_roundtrip); and the two float facts that theorem assumes"""
    import spikeglx
    rng = ctx.rng
    tmp = common.tmpdir("C09_direct_")
    done = 0
    try:
        for i in range(n):
            d = gen_direct(rng)
            p = tmp / "d.meta"
            d0 = json.loads(json.dumps(d))
            try:
                def wr():
                    spikeglx.write_meta_data(d, p if i % 2 else str(p))
                    return spikeglx.read_meta_data(str(p) if i % 2 else p)
                back = with_time_limit(30, wr)
                got = {k: v for k, v in back.items() if k not in ("neuropixelVersion", "serial")}
                same = got == d0 and list(got) == list(d0) and all(type(got[k]) is type(d0[k]) for k in d0)
            except (Exception, CaseTimeout) as e:
                ctx.fail("write/read of a dictionary raised %s" % type(e).__name__, {"cls": "direct", "dict": d0},
                         {"kind": "direct_exception"})
                continue
            if d != d0:
                ctx.fail("write_meta_data changed the dictionary it was given", {"cls": "direct", "dict": d0},
                         {"kind": "mutates_input"})
            if not same:
                bad = [k for k in d0 if got.get(k) != d0[k] or type(got.get(k)) is not type(d0[k])]
                ctx.fail("read(write(d)) != d at key(s) %r" % bad[:3], {"cls": "direct", "dict": d0},
                         {"kind": "direct_roundtrip"})
            done += 1
        for i in range(4 * n):
            x = rand_double(rng)
            s = np.format_float_positional(x, trim="-")
            okform = re.fullmatch(r"[0-9]+(\.[0-9]*[1-9])?", s) is not None
            if not okform or float(s) != x or (x.is_integer() and float(str(int(x))) != x):
                ctx.fail("float hypothesis of C09_float_*_roundtrip fails for %r (printed %r)" % (x, s),
                         {"cls": "hypothesis", "x": x}, {"kind": "repr_hypothesis"})
    finally:
        shutil.rmtree(tmp, ignore_errors=True)
    return done


# ----------------------------------------------------------------------------- oracles
def oracle_grammar(obs, exp):
    """round trip and parse on a file over the grammar (implementation only)"""
    bad = []
    if not obs["read_ok"]:
        return [("read_meta_data raised %s on a file over the grammar" % obs["read_exc"], "read_exception")]
    md = dict(obs["md"])
    base = {k: v for k, v in md.items() if k not in ("neuropixelVersion", "serial")}
    expb = {k: v for k, v in exp.items() if k not in ("neuropixelVersion", "serial")}
    if base != expb:
        dk = sorted(set(base) ^ set(expb)) or [k for k in base if base[k] != expb[k]]
        bad.append(("parsed dictionary differs from the key=value reading (tilde removal, split at the first '=', "
                    "numeric coercion, last key wins) at key(s) %r" % dk[:3], "parse"))
    if any("~" in k for k in md):
        bad.append(("tilde left in a key", "tilde"))
    if not obs["reread_ok"] or not obs["reread_pyeq"]:
        bad.append(("read(write(read f)) != read f", "roundtrip"))
    bad += oracle_seq(obs, True)
    return bad


def oracle_seq(obs, in_grammar):
    """str vs Path arguments; write / read / write / read on one path that held a longer file"""
    s = obs["seq"]
    bad = []
    if not obs.get("plain_dict_same", True):
        bad.append(("the *_from_meta getters differ between a plain dict and the Bunch returned by read_meta_data",
                    "plain_dict"))
    if obs.get("mutated"):
        bad.append(("a metadata function changed the dictionary it was given", "mutates_input"))
    if not s["read_str_eq_path"] or not s["write_str_eq_path"]:
        bad.append(("str and Path arguments give different results, or a longer previous file is not truncated",
                    "path_str"))
    if in_grammar and obs["reread_pyeq"] and not (s["rewrite_identical"] and s["final_eq"]):
        bad.append(("write / read / write / read on the same path is not stable", "sequence"))
    return bad


def oracle_probe(obs, it):
    """derived quantities against the generator's intent (independent reading of the fields)"""
    bad = []
    if not obs["read_ok"]:
        return [("read_meta_data raised %s on a well-formed probe file" % obs["read_exc"], "read_exception")]
    if not obs["reread_pyeq"]:
        bad.append(("read(write(read f)) != read f", "roundtrip"))
    bad += oracle_seq(obs, True)

    def val(name):
        ok, v = obs[name]
        if not ok:
            bad.append(("%s raised %s" % (name, v), "exception_" + name))
            return None
        return v
    md = obs["md"]
    if md.get("neuropixelVersion") != it["version"] or val("version") != it["version"] or val("r_version") != it["version"]:
        bad.append(("probe generation %r, expected %r" % (obs["version"], it["version"]), "version"))
    want_major = {"3A": 1, "3B1": 1, "3B2": 1, "NP2.1": 2, "NP2.4": 2.4, "NPultra": "NPultra", None: None}[it["version"]]
    np2 = it["version"] in ("NP2.1", "NP2.4")
    if it["kind"] != "nidq":
        has_mi = any(l.startswith("imMaxInt=") for l in it["lines"]) if "lines" in it else None
        if has_mi is not None:
            w3a = it["maxint"] if (has_mi or not np2) else 512
            wnp = it["maxint"] if has_mi else None
            if obs["maxint_3A"] != (True, w3a):
                bad.append(("max int with neuropixel_version='3A' is %r, expected %r" % (obs["maxint_3A"], w3a), "maxint_arg"))
            if (obs["maxint_NP24"][1] if obs["maxint_NP24"][0] else None) != wnp:
                bad.append(("max int with neuropixel_version='NP2.4' is %r, expected %r" % (obs["maxint_NP24"], wnp), "maxint_arg"))
    if val("major") != want_major:
        bad.append(("major version %r, expected %r" % (obs["major"], want_major), "major"))
    asy = val("async")
    if asy is not None and list(asy) != it.get("analog_sync", []):
        bad.append(("analog sync trace indices %r, expected %r" % (asy, it.get("analog_sync", [])), "analog_sync"))
    if it["kind"] != "nidq" and md.get("serial") != it["serial"]:
        bad.append(("serial %r" % (md.get("serial"),), "serial"))
    if val("type") != it["type"] or val("r_type") != it["type"]:
        bad.append(("stream type %r, expected %r" % (obs["type"], it["type"]), "type"))
    if val("nc") != it["nc"] or val("r_nc") != it["nc"]:
        bad.append(("channel count %r, expected %r" % (obs["nc"], it["nc"]), "nc"))
    sy = val("sync")
    if sy is not None and (list(sy) != list(range(it["nc"] - it["nsync"], it["nc"])) or val("r_nsync") != it["nsync"]):
        bad.append(("sync trace indices %r, expected the last %d of %d" % (sy, it["nsync"], it["nc"]), "nsync"))
    if val("fs") != it["fs"] or val("r_fs") != it["fs"]:
        bad.append(("sampling rate %r, expected %r" % (obs["fs"], it["fs"]), "fs"))
    if val("r_ns") != it["ns"]:
        bad.append(("sample count %r, expected %r" % (obs["r_ns"], it["ns"]), "ns"))
    if val("maxint") != it["maxint"]:
        bad.append(("max int %r, expected %r" % (obs["maxint"], it["maxint"]), "maxint"))
    for name in ("nc", "r_nc", "r_nsync", "r_ns", "maxint"):
        ok, v = obs[name]
        if ok and (not isinstance(v, (int, np.integer)) or isinstance(v, bool)):
            bad.append(("%s is a %s, not an integer" % (name, type(v).__name__), "result_type"))
    s = val("s2v")
    if s is not None:
        want_keys = ["nidq"] if it["kind"] == "nidq" else ["ap", "lf"]
        if sorted(s.keys()) != want_keys:
            bad.append(("sample2volts keys %r" % sorted(s.keys()), "s2v_keys"))
        else:
            v = np.asarray(s[it["type"]], dtype=float)
            rs = val("r_s2v")
            if rs is None or not np.array_equal(np.asarray(rs, dtype=float), v):
                bad.append(("Reader.sample2volts is not the vector of the stream type", "s2v_reader"))
            rv = val("r_range")
            if rv is not None and not np.allclose(np.asarray(rv, dtype=float), v * it["maxint"], rtol=1e-6, atol=0):
                bad.append(("Reader.range_volts != sample2volts * maxint", "range_volts"))
            if len(v) != it["nc"]:
                bad.append(("sample2volts has %d entries for %d saved channels" % (len(v), it["nc"]), "s2v_length"))
            else:
                for c, g in enumerate(it["gains"]):
                    e = 1.0 if g is None else float(it["range"] / it["maxint"] / g)
                    if not (v[c] == 1.0 if g is None else abs(v[c] - e) <= 1e-6 * e):
                        kindtag = "s2v_sync" if g is None else "s2v_gain"
                        bad.append(("volts-per-bit of saved channel %d is %r, expected range/maxint/gain = %r%s" % (
                            c, float(v[c]), e, "" if it["subset_prefix"] else
                            " (saved-channel subset does not start at channel 0: gains of IMRO entries 0..n-1 are used)"),
                            kindtag))
                        break
    return bad


def check_full_reader(obs, ctx, desc):
    f = obs.get("full")
    if f is None or isinstance(f, str):
        return False
    same = (f["fs"] == obs["r_fs"][1] and f["nc"] == obs["r_nc"][1] and f["nsync"] == obs["r_nsync"][1] and
            f["ns"] == obs["r_ns"][1] and f["type"] == obs["r_type"][1] and f["version"] == obs["r_version"][1] and
            obs["r_s2v"][0] and np.array_equal(f["s2v"], np.asarray(obs["r_s2v"][1])) and
            obs["r_range"][0] and np.array_equal(f["range"], np.asarray(obs["r_range"][1])))
    if not same:
        ctx.fail("Reader(meta file) properties differ from the *_from_meta functions on the same file", desc,
                 {"kind": "reader_props"})
    return True


# ----------------------------------------------------------------------------- run
def build_cases(ctx):
    rng = ctx.rng
    th = ctx.thorough()
    cases = []
    for _ in range(30000 if th else 700):
        t, exp = gen_grammar(rng)
        cases.append({"cls": "grammar", "text": t, "exp": exp})
    for _ in range(3000 if th else 150):      # 16-17 significant digits: implementation oracle only
        t, exp = gen_grammar(rng, maxdig=17)
        cases.append({"cls": "bigdigits", "text": t, "exp": exp})
    for _ in range(12000 if th else 700):
        t, it = gen_probe(rng)
        cases.append({"cls": "probe", "text": t, "intent": it, "full": it["kind"] == "nidq"})
    for _ in range(150 if th else 14):
        t, it = gen_probe(rng, big=True)
        cases.append({"cls": "probe", "text": t, "intent": it, "full": True})
    for _ in range(12000 if th else 600):
        t, sub = gen_malformed(rng)
        cases.append({"cls": "malformed", "text": t, "sub": sub})
    return cases


def describe_case(c):
    d = {"cls": c["cls"], "text": c["text"]}
    if "exp" in c:
        d["exp"] = c["exp"]
    if "intent" in c:
        d["intent"] = {k: (str(v) if isinstance(v, Fraction) else [None if g is None else str(g) for g in v]
                           if k == "gains" else v) for k, v in c["intent"].items() if k != "lines"}
    return d


class CaseTimeout(BaseException):
    pass


def _alarm(signum, frame):
    raise CaseTimeout()


def with_time_limit(seconds, f, *a, **k):
    """run f under a wall-clock limit (SIGALRM; pure-Python metadata functions cannot block signals)"""
    import signal
    old = signal.signal(signal.SIGALRM, _alarm)
    signal.setitimer(signal.ITIMER_REAL, seconds)
    try:
        return f(*a, **k)
    finally:
        signal.setitimer(signal.ITIMER_REAL, 0)
        signal.signal(signal.SIGALRM, old)


def observe_all(ctx, cases):
    tmp = common.tmpdir("C09_run_")
    slow = 0
    try:
        for c in cases:
            if slow >= 3:               # a hanging implementation: do not spend the budget on every case
                c["obs"] = None
                continue
            try:
                c["obs"] = with_time_limit(30, impl_observe, c["text"], tmp, full_reader=c.get("full", False))
            except CaseTimeout:
                slow += 1
                c["obs"] = None
                ctx.fail("metadata functions did not return within 30 s", describe_case(c), {"kind": "timeout"})
            except BaseException as e:   # an exception class the metadata layer has no business raising
                if isinstance(e, KeyboardInterrupt):
                    raise
                c["obs"] = None
                ctx.fail("metadata functions raised %r" % (e,), describe_case(c), {"kind": "unexpected_exception"})
    finally:
        shutil.rmtree(tmp, ignore_errors=True)


def guard_case(ctx, desc, what, f, *a):
    """evaluate an oracle / canonicaliser on one observation; an observation it cannot digest (wrong
    type, rank, container) is a failing input of the property, not a harness crash"""
    try:
        return f(*a)
    except Exception as e:
        ctx.fail("%s: the implementation's result cannot be interpreted (%s: %s)" % (what, type(e).__name__, e),
                 desc, {"kind": "malformed_result"})
        return None


def run(ctx):
    # Props: every theorem must be closed under the global context; PropsR (rounding-error budget over
    # the reals) may use the standard library's real-number axioms and nothing else
    common.proof_obligations(ctx, whitelist=sorted(common.STDLIB_AXIOMS), modules=("Props", "PropsR"))
    for n in common.theorem_names(common.COQ / PROP / "Props.v"):
        if n in ctx.theorems and ctx.theorems[n] != "Closed under the global context":
            ctx.broken_proofs.append({"theorem": n, "why": "uses axioms %s; Props.v theorems must be closed" % ctx.theorems[n]})
    cases = build_cases(ctx)
    observe_all(ctx, cases)
    dist = {"grammar": 0, "bigdigits": 0, "probe": 0, "malformed": 0, "read_raises": 0, "s2v_raises": 0,
            "probe_kinds": {}, "subset_not_prefix": 0, "nonuniform_gain_tables": 0, "full_reader": 0,
            "roundtrip_checked": 0, "nonlf_separators": 0, "tilde_keys": 0, "duplicate_keys": 0}
    nontrivial = set()
    for c in cases:
        obs = c["obs"]
        if obs is None:
            continue
        dist[c["cls"]] += 1
        desc = describe_case(c)
        if c["cls"] in ("grammar", "bigdigits"):
            dist["roundtrip_checked"] += 1
            for what, kind in guard_case(ctx, desc, "round-trip oracle", oracle_grammar, obs, c["exp"]) or []:
                ctx.fail(what, desc, {"kind": kind, "cls": c["cls"]})
            body = c["text"]
            dist["nonlf_separators"] += any(s in body for s in SEPS[3:])
            dist["tilde_keys"] += "~" in body
            dist["duplicate_keys"] += c["text"].count("=") > len(c["exp"]) and len(c["exp"]) > 0
            if obs["read_ok"] and obs["md_enc0"][0] > 3:
                nontrivial.add(c["text"])
        elif c["cls"] == "probe":
            it = c["intent"]
            dist["probe_kinds"][it["kind"]] = dist["probe_kinds"].get(it["kind"], 0) + 1
            dist["subset_not_prefix"] += not it["subset_prefix"]
            dist["nonuniform_gain_tables"] += len(set(g for g in it["gains"] if g is not None)) > 1
            for what, kind in guard_case(ctx, desc, "derived-parameter oracle", oracle_probe, obs, it) or []:
                ctx.fail(what, desc, {"kind": kind, "subset_prefix": bool(it["subset_prefix"]), "probe": it["kind"]})
            if c.get("full") and it["kind"] == "nidq" and isinstance(obs.get("full"), str):
                ctx.fail("Reader(meta file) of a nidq stream raises %s" % obs["full"][4:], desc,
                         {"kind": "reader_init", "probe": "nidq"})
            if c.get("full") and it["kind"] == "nidq" and obs.get("full_read", True) is not True:
                ctx.fail("Reader on a nidq binary: read() %s" % (
                    "raises " + obs["full_read"][4:] if isinstance(obs["full_read"], str)
                    else "does not return raw * sample2volts / wrong nc, ns or type"), desc,
                    {"kind": "reader_read", "probe": "nidq"})
            dist["nidq_3A_era"] = dist.get("nidq_3A_era", 0) + bool(it.get("era3A"))
            if c.get("full"):
                dist["full_reader"] += bool(guard_case(ctx, desc, "Reader oracle", check_full_reader, obs, ctx, desc))
            nontrivial.add(c["text"])
        if c["cls"] == "malformed" and obs["read_ok"]:
            for what, kind in guard_case(ctx, desc, "sequence oracle", oracle_seq, obs, False) or []:
                ctx.fail(what, desc, {"kind": kind, "cls": c["cls"]})
        if not obs["read_ok"]:
            dist["read_raises"] += 1
        elif not obs["s2v"][0]:
            dist["s2v_raises"] += 1
    dist["direct_dictionaries"] = check_direct(ctx, 3000 if ctx.thorough() else 300)
    dist["float_hypothesis_samples"] = 4 * (3000 if ctx.thorough() else 300)
    # ---- correspondence with the Coq model (every class except the 16-17 digit scalars)
    sel = [c for c in cases if c["obs"] is not None and c["cls"] != "bigdigits"]
    inputs = [[ord(ch) for ch in c["text"]] for c in sel]
    model = common.Extracted(PROP).run_many(inputs)
    impl_out = []
    for c, mo in zip(sel, model):
        r = guard_case(ctx, describe_case(c), "canonical encoding", enc_impl, c["obs"], mo)
        enc, why = r if r is not None else ([-99], None)
        # only plain integers may reach the comparison: anything else (arrays, floats, strings that slipped
        # into a slot meant for an integer) becomes a value the model never produces
        enc = [int(x) if isinstance(x, (int, np.integer)) and not isinstance(x, bool) else -5 for x in enc]
        enc = fix_sync_start(mo, enc)
        if any(abs(x) >= BIG for x in enc):
            enc = [x if abs(x) < BIG else -8 for x in enc]
        impl_out.append(enc)
        if why:
            ctx.disagree("sample2volts: " + why, describe_case(c))
    common.correspondence(ctx, PROP, HEADER, inputs, impl_out, lambda i: describe_case(sel[i]))
    samples = []
    for c in cases[:: max(1, len(cases) // 7)]:
        o = c["obs"]
        if o is None:
            continue
        try:
            samples.append({"cls": c["cls"], "text": c["text"][:160],
                            "parsed": {str(k): (v if not isinstance(v, str) else v[:40])
                                       for k, v in list(o["md"].items())[:6]} if o["read_ok"] else o["read_exc"],
                            "version": o.get("version", [None, None])[1] if o["read_ok"] else None})
        except Exception:
            samples.append({"cls": c["cls"], "text": c["text"][:160], "parsed": "uninterpretable"})
    return common.finish(
        ctx, TRUSTED,
        rule="synthetic .meta texts from ctx.rng: (grammar) random key=value files over the property's grammar — "
             "tilde keys, duplicate keys, '=' inside values, empty values, scalars of <= 15 digits incl. 1e-40..1e15, "
             "integer lists, every str.splitlines separator; (probe) all of 3A/3B1/3B2/NP2.1/NP2.4/NPultra/nidq x AP/LF "
             "x non-uniform IMRO gain pairs x saved-channel subsets x sync counts; (malformed) the same with deleted / "
             "retyped / duplicated fields and unparsable lines; (bigdigits) 16-17 digit scalars, implementation oracle "
             "only. Each text goes through the real read_meta_data, write_meta_data, read_meta_data again, the "
             "_get_*_from_meta functions, _conversion_sample2v_from_meta and the Reader properties, and through the Coq "
             "model; non-trivial = a grammar file with more than one parsed entry or any probe file; distinct by text",
        samples=samples, evaluations=len([c for c in cases if c["obs"] is not None]) + dist["direct_dictionaries"],
        distinct_nontrivial=len(nontrivial),
        extra={"input_distribution": dist, "exhaustive": False},
        assumptions=["literals of at most 15 significant digits denote distinct doubles that print back as themselves",
                     "float32 arithmetic of sample2volts is within 1e-6 relative of the exact rational"])


def replay(ctx, data):
    inp = data.get("input") or (data.get("correspondence_disagreements") or [{}])[0].get("input")
    if not inp:
        print(json.dumps(data, indent=1)[:3000])
        return 1
    if inp.get("cls") == "direct":
        import spikeglx
        tmp = common.tmpdir("C09_replay_")
        try:
            spikeglx.write_meta_data(inp["dict"], tmp / "d.meta")
            print("written:", repr((tmp / "d.meta").read_text()[:600]))
            back = spikeglx.read_meta_data(tmp / "d.meta")
        except Exception as e:
            print("raised", repr(e))
            return 1
        finally:
            shutil.rmtree(tmp, ignore_errors=True)
        got = {k: v for k, v in back.items() if k not in ("neuropixelVersion", "serial")}
        print("dictionary:", inp["dict"])
        print("read back :", got)
        return 1 if got != inp["dict"] else 0
    if inp.get("cls") == "hypothesis":
        x = float(inp["x"])
        s = np.format_float_positional(x, trim="-")
        print(repr(x), "printed", s, "re-read", float(s))
        return 1 if float(s) != x else 0
    c = {"cls": inp["cls"], "text": inp["text"]}
    tmp = common.tmpdir("C09_replay_")
    try:
        obs = impl_observe(c["text"], tmp)
    except Exception as e:
        print("implementation raised:", repr(e))
        return 1
    finally:
        shutil.rmtree(tmp, ignore_errors=True)
    print("text:", repr(c["text"][:600]))
    if obs["read_ok"]:
        print("implementation parsed:", {k: (v if not isinstance(v, str) else v[:60]) for k, v in obs["md"].items()})
        print("written back:", repr(obs["written"][:400]))
        print("read(write(read f)) == read f:", obs["reread_pyeq"])
        for k in ("version", "type", "nc", "sync", "fs", "r_ns", "maxint"):
            print(k, "=", obs[k])
        if obs["s2v"][0]:
            print("sample2volts:", {k: np.asarray(v)[:8].tolist() for k, v in obs["s2v"][1].items()})
        else:
            print("sample2volts raised", obs["s2v"][1])
    else:
        print("read_meta_data raised", obs["read_exc"])
    print("recorded failing clause:", data.get("what"))
    if "intent" in inp:
        print("generator's intent:", {k: v for k, v in inp["intent"].items() if k != "gains"})
    inputs = [[ord(ch) for ch in c["text"]]]
    mo = common.Extracted(PROP).run_many(inputs)[0]
    enc, why = enc_impl(obs, mo)
    enc = fix_sync_start(mo, enc)
    print("model agrees with implementation:", enc == mo, why or "")
    bad = []
    if c["cls"] in ("grammar", "bigdigits") and "exp" in inp:
        bad = oracle_grammar(obs, inp["exp"])
    elif c["cls"] == "probe" and "intent" in inp:
        it = dict(inp["intent"])
        it["range"] = Fraction(it["range"])
        it["gains"] = [None if g is None else Fraction(g) for g in it["gains"]]
        bad = oracle_probe(obs, it)
    print("property clauses failing on the implementation:", [b[0] for b in bad])
    return 1 if (bad or enc != mo) else 0
