"""C08 — probe geometry: proofs in coq/C08, correspondence against spikeglx / neuropixel."""
import json
import logging
import shutil
import signal
import warnings

import numpy as np

import common

PROP = "C08"
COQCHK_ADMIT = ["IBL.C08.Adc"]
HEADER = "From Coq Require Import ZArith List.\nImport ListNotations.\nFrom IBL.C08 Require Import Run."
TRUSTED = [
    "Coq 8.16.1 kernel + vm_compute (no native_compute); all C08 theorems closed under the global context except "
    "C08_float32_exact_on_grid (Flocq binary32/64: sig_forall_dec, sig_not_dec, functional_extensionality_dep, classic)",
    "hand-written model coq/C08/Model.v of neuropixel.{rc2xy,xy2rc,adc_shifts,dense_layout,trace_header,"
    "split_trace_header} and spikeglx.{geometry_from_meta,_map_channels_from_meta,_split_geometry_into_shanks}, "
    "tied to /repo/src by this run's correspondence",
    "SpikeGLX's site-layout convention (geometry-map entry of a shank-map site: NP1 x=27+32*col-16*(row%2), "
    "z=20*row; NP2 x=27+32*col, z=15*row) is a definition of the model (Model.geom_entry), validated on the two "
    "shipped fixture pairs in every run",
    "np.lexsort is a stable lexicographic sort (last key primary); modelled by a stable insertion sort",
    "integer-valued float32/float64 below 2^24 are exact; the sampling delay k/n_cycles is compared through its "
    "numerator k, recovered with the same float64 division",
    "the regex tokeniser is modelled as a deterministic scanner (Scan.v; codec theorem C08_parse_print_map) and "
    "compared with _map_channels_from_meta on printed and malformed map strings; read_meta_data is exercised "
    "(through files) but not modelled",
    "harness/pC08.py generator, SpikeGLX-syntax printer, canonicaliser and oracle",
    "extraction (Require Extraction, ExtrOcamlBasic only), harness/driver.ml, ocamlfind ocamlopt; a sample of the "
    "same cases is re-evaluated by the kernel (vm_compute)",
]

GEN_CODE = {"NP1": 0, "NP2.1": 1, "NP2.4": 2, "NPultra": 3}
GRID = {"NP1": (16, 11, 20, 20), "NP2.1": (32, 27, 15, 20), "NP2.4": (32, 27, 15, 20), "NPultra": (6, 0, 6, 0)}
ADC = {"NP1": (12, 13), "NP2.1": (16, 16), "NP2.4": (16, 16), "NPultra": (12, 13)}     # channels per ADC, cycles
# site grids (SpikeGLX shank-map coordinates): shanks, columns, rows
SITE_GRID = {"NP1": (1, 2, 480), "NP2.1": (1, 2, 640), "NP2.4": (4, 2, 640), "NPultra": (1, 8, 48)}
TEMPLATES = {
    "NP1": ["sample3A_g0_t0.imec.ap.meta", "sample3B_g0_t0.imec1.ap.meta"],
    "NP2.1": ["sampleNP2.1_g0_t0.imec.ap.meta"],
    "NP2.4": ["sampleNP2.4_4shanks_g0_t0.imec.ap.meta"],
    "NPultra": ["sampleNPultra_g0_t0.imec0.ap.meta"],
}
ALT_TYPE = {"NP2.1": ["21", "1030"], "NP2.4": ["24", "2013"]}
DROP = ("snsShankMap=", "snsGeomMap=", "nSavedChans=", "snsApLfSy=", "snsSaveChanSubset=", "NP2.4_shank=",
        "acqApLfSy=")
KEYS = ["shank", "col", "row", "flag", "x", "y", "sample_shift", "adc", "ind"]
BAD = -777777

_tmpl_cache = {}


def template(name):
    if name not in _tmpl_cache:
        txt = (common.REPO / "src" / "tests" / "fixtures" / name).read_text()
        _tmpl_cache[name] = [l for l in txt.splitlines() if l and not l.lstrip("~").startswith(DROP)]
    return _tmpl_cache[name]


# ---------------------------------------------------------------------------
# SpikeGLX convention: what the acquisition software writes for a site
# ---------------------------------------------------------------------------
def geom_entry(gen, s):
    sh, c, r, f = s
    if gen == "NP1":
        return (sh, 27 + 32 * c - 16 * (r % 2), 20 * r, f)
    return (sh, 27 + 32 * c, 15 * r, f)


def map_text(gen, enc, sites):
    """enc 0: ~snsShankMap, enc 1: ~snsGeomMap (entries already in that encoding)."""
    ns, ncol, nrow = SITE_GRID[gen]
    body = "".join("(%d:%d:%d:%d)" % tuple(s) for s in sites)
    if enc == 0:
        return "~snsShankMap=(%d,%d,%d)%s" % (ns, ncol, nrow, body)
    pn = {"NP1": "NP1010", "NP2.1": "NP2000", "NP2.4": "NP2014", "NPultra": "NP1100"}[gen]
    return "~snsGeomMap=(%s,%d,%d,70)%s" % (pn, ns, 250 if ns > 1 else 0, body)


def meta_text(case):
    gen = case["gen"]
    lines = list(template(case["template"]))
    if case.get("type_code"):
        lines = [("imDatPrb_type=%s" % case["type_code"]) if l.startswith("imDatPrb_type=") else l for l in lines]
    n = len(case["entries"])
    nsaved = case.get("nsaved", n)
    if case["split"] is not None:
        nsaved = sum(1 for s in case["entries"] if s[0] == case["split"])
        lines.append("NP2.4_shank=%d" % case["split"])
    lines.append("acqApLfSy=384,0,1")
    lines.append("nSavedChans=%d" % (nsaved + 1))
    lines.append("snsApLfSy=%d,0,1" % nsaved)
    case["_nsaved"] = nsaved
    lines.append("snsSaveChanSubset=%s" % case.get("subset_text", "0:%d" % nsaved))
    if case["enc"] != 2:
        lines.append(map_text(gen, case["enc"], case["entries"]))
    return "\n".join(lines) + "\n"


# ---------------------------------------------------------------------------
# canonicalisation
# ---------------------------------------------------------------------------
def _scalar_int(a):
    """python int of an integral number below 2^40, BAD for anything else (str, None, nested, nan, bool)."""
    try:
        if isinstance(a, (bool, np.bool_)):
            return BAD
        if isinstance(a, (int, np.integer)):
            return int(a) if abs(int(a)) < 2 ** 40 else BAD
        if isinstance(a, (float, np.floating)):
            a = float(a)
            return int(a) if (a == a and abs(a) < 2 ** 40 and a.is_integer()) else BAD
    except Exception:
        pass
    return BAD


def _items(v):
    """the items of a 1-D sequence; a scalar / None / unsized object has none; rows of a 2-D array are items
    (and canonicalise to BAD)."""
    if isinstance(v, (str, bytes, dict)) or v is None:
        return []
    try:
        return list(v)
    except Exception:
        return []


def ints(v):
    return [_scalar_int(a) for a in _items(v)]


def shift_codes(v, gen):
    a, cyc = ADC[gen]
    lut = {float(np.float64(k) / cyc): k for k in range(a)}
    out = []
    for x in _items(v):
        try:
            out.append(lut.get(float(x), BAD) if isinstance(x, (int, float, np.integer, np.floating)) else BAD)
        except Exception:
            out.append(BAD)
    return out


class Malformed(Exception):
    """the implementation returned something that is not a geometry dictionary"""


class CaseTimeout(Exception):
    pass


class AbortRun(BaseException):
    """too many implementation calls ran into the time limit: stop generating, report what was seen"""


_TIMEOUTS = [0]
CASE_LIMIT_S = 20          # a 384-site case takes about 0.1 s
MAX_TIMEOUTS = 3


def _alarm(signum, frame):
    _TIMEOUTS[0] += 1
    if _TIMEOUTS[0] >= MAX_TIMEOUTS:
        raise AbortRun()
    raise CaseTimeout("implementation did not return within %d s" % CASE_LIMIT_S)


class time_limit:
    """SIGALRM-based limit for pure-Python / NumPy implementation calls (main thread)."""
    def __enter__(self):
        self.old = signal.signal(signal.SIGALRM, _alarm)
        signal.setitimer(signal.ITIMER_REAL, CASE_LIMIT_S)

    def __exit__(self, et, ev, tb):
        signal.setitimer(signal.ITIMER_REAL, 0)
        signal.signal(signal.SIGALRM, self.old)
        return False


class guard:
    """One case = implementation calls + canonicalisation + oracle.  Whatever goes wrong inside (an exception
    of any type, an unusable return value, a hang) is a failing input of the property, never a harness crash."""
    def __init__(self, ctx, d, what):
        self.ctx, self.d, self.what = ctx, d, what
        self.tl = time_limit()

    def __enter__(self):
        self.tl.__enter__()
        return self

    def __exit__(self, et, ev, tb):
        self.tl.__exit__(et, ev, tb)
        if et is None or not issubclass(et, Exception):
            return False
        self.ctx.fail("%s raised or returned something unusable: %r" % (self.what, ev), dict(self.d),
                      {"clause": "exception"})
        return True


def limited(fn, *a, **k):
    with time_limit():
        return fn(*a, **k)


def scaled_ints(v, k):
    """k * value as an integer (|k*v - round| < 1e-3), BAD otherwise: rows of NPultra geometry maps (F-C08-b)"""
    out = []
    for a in _items(v):
        try:
            f = float(a) * k
            out.append(int(round(f)) if (f == f and abs(f) < 2 ** 40 and abs(f - round(f)) < 1e-3 and
                                        isinstance(a, (int, float, np.integer, np.floating))) else BAD)
        except Exception:
            out.append(BAD)
    return out


def canon_geom(g, gen, flag_default=None, row_scale=1):
    if not hasattr(g, "keys") or any(k not in g for k in KEYS if k != "flag"):
        raise Malformed("not a geometry dictionary: %r" % (type(g).__name__ if not hasattr(g, "keys")
                                                          else sorted(map(str, g.keys())),))
    out = {}
    for k in KEYS:
        if k == "flag" and k not in g:
            out[k] = [1] * len(g["col"]) if flag_default is None else flag_default
        elif k == "sample_shift":
            out[k] = shift_codes(g[k], gen)
        elif k == "row" and row_scale != 1:
            out[k] = scaled_ints(g[k], row_scale)
        else:
            out[k] = ints(g[k])
    return out


def flat_geom(cg):
    n = len(cg["col"])
    out = [n]
    for k in KEYS:
        out += cg[k]
    return out


# ---------------------------------------------------------------------------
# implementation runners
# ---------------------------------------------------------------------------
def q_plain(spikeglx, md, gen):
    g, inds = spikeglx.geometry_from_meta(md, return_index=True, sort=True)
    return (canon_geom(g, gen), ints(inds))


def run_geometry(case, tdir, rng=None):
    return limited(_run_geometry, case, tdir, rng)


def _run_geometry(case, tdir, rng=None):
    """-> dict with the canonicalised observations of all public entry points.  The queries are issued in a
    per-case random order (rng), the first one is repeated at the end, and the lf companion file of the same
    probe (same site table) is queried after the ap file: all in one process, on the same map string."""
    import spikeglx
    f = tdir / ("c%d.ap.meta" % case["id"])
    txt = meta_text(case)
    f.write_text(txt)
    gen = case["gen"]
    obs = {}
    rs = case.get("row_scale", 1)

    def q_gfm(srt):
        g, inds = spikeglx.geometry_from_meta(md, return_index=True, sort=srt)
        if rs != 1:
            obs.setdefault("unscaled", {})[srt] = (canon_geom(g, gen), ints(inds))
        return (canon_geom(g, gen, row_scale=rs), ints(inds))

    def q_noindex(srt):
        return canon_geom(spikeglx.geometry_from_meta(md, sort=srt), gen)

    def q_reader(srt):
        sr = spikeglx.Reader(f, open=False, sort=srt)
        return (canon_geom(sr.geometry, gen), ints(sr.raw_channel_order))

    queries = [(("gfm", srt), q_gfm, srt) for srt in (False, True)] + \
              [(("gfm_noindex", srt), q_noindex, srt) for srt in (False, True)] + \
              [(("reader", srt), q_reader, srt) for srt in (False, True)] + \
              [("read_geometry", lambda _: canon_geom(spikeglx.read_geometry(f), gen), None),
               ("nshanks", lambda _: int(spikeglx._get_nshanks_from_meta(md)), None)]
    if rng is not None:
        rng.shuffle(queries)
    with warnings.catch_warnings():
        warnings.simplefilter("ignore")
        md = spikeglx.read_meta_data(f)
        for key, fn, arg in queries:
            obs[key] = fn(arg)
        key, fn, arg = queries[0]
        obs["repeat_same"] = fn(arg) == obs[key]            # same question, same process, same answer
        obs["query_order"] = [str(q[0]) for q in queries]
        # representation variants: file name as str, plain dict, NP2.4_shank as int / numpy integer / str
        var_ok = canon_geom(spikeglx.read_geometry(str(f)), gen) == obs["read_geometry"]
        plain = dict(md)
        var_ok = var_ok and q_plain(spikeglx, plain, gen) == obs[("gfm", True)]
        if case["split"] is not None:
            for v in (int(case["split"]), np.int64(case["split"]), str(case["split"])):
                plain["NP2.4_shank"] = v
                var_ok = var_ok and q_plain(spikeglx, plain, gen) == obs[("gfm", True)]
        obs["variants_same"] = var_ok
        if case["split"] is not None:
            # split_trace_header applied to the parent's unsorted geometry (a dictionary with flag and ind)
            import neuropixel
            parent = {k: v for k, v in dict(md).items() if k != "NP2.4_shank"}
            hp = spikeglx.geometry_from_meta(parent, sort=False)
            obs["split_via_header"] = canon_geom(neuropixel.split_trace_header(hp, shank=case["split"]), gen)
        # the lf file of the same probe carries the same site table
        if case["enc"] != 2 and "snsApLfSy=%d,0,1" % case.get("_nsaved", -1) in txt:
            flf = tdir / ("c%d.lf.meta" % case["id"])
            flf.write_text(txt.replace("snsApLfSy=%d,0,1" % case["_nsaved"], "snsApLfSy=0,%d,1" % case["_nsaved"]))
            obs["lf_read_geometry"] = canon_geom(spikeglx.read_geometry(flf), gen)
            srl = spikeglx.Reader(flf, open=False, sort=False)
            obs["lf_reader_unsorted"] = (canon_geom(srl.geometry, gen), ints(srl.raw_channel_order))
            flf.unlink()
    f.unlink()
    return obs


VERSION_ARG = {"NP1": [1], "NP2.1": [2, 2.1], "NP2.4": [2.4], "NPultra": ["NPultra"]}


# ---------------------------------------------------------------------------
# the property's predicate, evaluated on implementation outputs only
# ---------------------------------------------------------------------------
def expected_site(gen, s):
    """(shank, col, row, flag, x, y) the property demands for the grid site s (shank-map coordinates)."""
    sh, c, r, f = s
    dx, x0, dy, y0 = GRID[gen]
    col = (2 - 2 * c + r % 2) if gen == "NP1" else c
    return (sh, col, r, f, col * dx + x0, r * dy + y0)


def adc_expected(gen, ch):
    a, _ = ADC[gen]
    return (ch % (2 * a)) // 2, 2 * (ch // (2 * a)) + ch % 2


def oracle_geometry(case, obs):
    """list of (clause, message)."""
    gen, sites, split = case["gen"], case["sites"], case["split"]
    bad = []
    gu, iu = obs[("gfm", False)]
    gs, is_ = obs[("gfm", True)]
    keep = [i for i, s in enumerate(sites) if split is None or s[0] == split]
    n = len(keep)
    # every public entry point tells the same story
    if obs[("reader", False)][0] != gu or obs[("reader", True)][0] != gs or obs["read_geometry"] != gs \
            or obs[("gfm_noindex", False)] != gu or obs[("gfm_noindex", True)] != gs:
        bad.append(("entry_points", "Reader.geometry / read_geometry / geometry_from_meta disagree"))
    if not obs.get("repeat_same", True):
        bad.append(("entry_points", "the same geometry query asked twice in one process gives two answers "
                                    "(order of queries %s)" % obs.get("query_order")))
    if "split_via_header" in obs:
        sv = obs["split_via_header"]
        if any(sv[k] != gu[k] for k in KEYS if k != "ind") or sv["ind"] != keep:
            bad.append(("split", "split_trace_header(parent geometry, shank) is not the geometry of the split file"))
    if not obs.get("variants_same", True):
        bad.append(("entry_points", "file name as str / plain dict / NP2.4_shank as int, numpy integer or str "
                                    "changes the geometry"))
    if "lf_read_geometry" in obs and (obs["lf_read_geometry"] != gs or obs["lf_reader_unsorted"][0] != gu):
        bad.append(("entry_points", "the lf file of the same probe (same site table) gives another geometry"))
    for srt, (g, inds) in ((False, (gu, iu)), (True, (gs, is_))):
        ro = obs[("reader", srt)][1]
        if ro[:n] != inds or ro[n:] != list(range(n, len(ro))):
            bad.append(("entry_points", "Reader.raw_channel_order is not the returned index"))
    for name, g in (("unsorted", gu), ("sorted", gs)):
        if any(len(g[k]) != n for k in KEYS):
            bad.append(("each_site_once", "%s geometry does not have one entry per recorded site" % name))
            return bad
    if obs["nshanks"] != len({sites[j][0] for j in keep}):
        bad.append(("entry_points", "_get_nshanks_from_meta is not the number of shanks with recorded sites"))
    # unsorted: entry i describes site keep[i]; the ADC of a channel is fixed by its channel number
    orig = case.get("orig_channels") or list(range(len(sites)))
    for i, j in enumerate(keep):
        e = expected_site(gen, sites[j])
        got = tuple(gu[k][i] for k in ("shank", "col", "row", "flag", "x", "y"))
        if got != e:
            bad.append(("site_values", "unsorted entry %d is %s, the site is %s" % (i, got, e)))
            break
    if gu["ind"] != list(range(n)) or iu != list(range(n)):
        bad.append(("site_values", "unsorted index is not the identity"))
    for i, j in enumerate(keep):
        if (gu["sample_shift"][i], gu["adc"][i]) != adc_expected(gen, orig[j]):
            bad.append(("adc_by_original_channel",
                        "entry %d (original channel %d) has delay/ADC %s, the table says %s" % (
                            i, orig[j], (gu["sample_shift"][i], gu["adc"][i]), adc_expected(gen, orig[j]))))
            break
    # sorted: permutation, order, joint movement
    if sorted(is_) != list(range(n)):
        bad.append(("permutation", "sort index is not a permutation of the sites"))
        return bad
    if gs["ind"] != is_:
        bad.append(("joint", "the 'ind' column is not the sort index"))
    for k in KEYS:
        if k != "ind" and gs[k] != [gu[k][j] for j in is_]:
            bad.append(("joint", "column %s did not move with the sort index" % k))
            break
    keys = [(gs["shank"][i], gs["row"][i], -gs["col"][i], gs["ind"][i]) for i in range(n)]
    if any(a >= b for a, b in zip(keys, keys[1:])):
        bad.append(("order", "not ordered by shank, row, descending column (ties in recording order)"))
    # x/y <-> row/col on every row
    dx, x0, dy, y0 = GRID[gen]
    for g in (gu, gs):
        if any(x != c * dx + x0 or y != r * dy + y0 for x, y, c, r in zip(g["x"], g["y"], g["col"], g["row"])):
            bad.append(("rc_xy", "x/y are not the grid positions of row/col"))
            break
    return bad


# ---------------------------------------------------------------------------
# generators
# ---------------------------------------------------------------------------
SIZES = [1, 2, 3, 4, 5, 7, 11, 12, 13, 15, 16, 17, 23, 24, 25, 31, 32, 33, 47, 48, 49, 95, 96, 97, 191, 192, 276,
         383, 384]


def natural(gen, c):
    """site of channel c in the default dense selection, continued over the whole grid."""
    ns, ncol, nrow = SITE_GRID[gen]
    per = ncol * nrow
    sh, w = divmod(c, per)
    return (sh % ns, w % ncol, w // ncol)


def gen_sites(rng, gen, n, kind):
    ns, ncol, nrow = SITE_GRID[gen]
    total = ns * ncol * nrow
    if kind == "block":            # n consecutive sites in natural order, random start
        st = rng.randrange(0, total - n + 1)
        pos = [natural(gen, st + i) for i in range(n)]
    elif kind == "random":         # arbitrary selection, arbitrary order
        pos = [natural(gen, c) for c in rng.sample(range(total), n)]
    elif kind == "swaps":          # natural block with a few transpositions
        st = rng.randrange(0, total - n + 1)
        pos = [natural(gen, st + i) for i in range(n)]
        for _ in range(rng.randrange(1, 4)):
            a, b = rng.randrange(n), rng.randrange(n)
            pos[a], pos[b] = pos[b], pos[a]
    elif kind == "reversed":
        st = rng.randrange(0, total - n + 1)
        pos = [natural(gen, st + i) for i in range(n)][::-1]
    elif kind == "highrows":       # few sites, rows far above the number of sites, every bank, every shank
        n = min(n, 24)
        cand = [(s_, c_, r_) for s_ in range(ns) for c_ in range(ncol)
                for r_ in sorted({nrow - 1 - k for k in range(0, nrow, max(1, nrow // 40))} | {nrow - 1, nrow - 2})]
        pos = rng.sample(cand, min(n, len(cand)))
    elif kind == "rowsorted":      # rows already non-decreasing; inside a row the sites in increasing, decreasing or
        # random column order (for NP1: SpikeGLX's own order is the decreasing one and needs no sorting)
        st = rng.randrange(0, total - n + 1)
        base = [natural(gen, st + i) for i in range(n)] if rng.random() < 0.5 else \
            [natural(gen, c) for c in rng.sample(range(total), n)]
        within = rng.choice(["asc", "asc", "random", "one_pair"])
        ibl = (lambda p: (2 - 2 * p[1] + p[2] % 2)) if gen == "NP1" else (lambda p: p[1])
        if within == "asc":
            pos = sorted(base, key=lambda p: (p[0], p[2], ibl(p)))
        elif within == "random":
            pos = sorted(base, key=lambda p: (p[0], p[2], rng.random()))
        else:                          # sorted order with exactly one pair of one row exchanged
            pos = sorted(base, key=lambda p: (p[0], p[2], -ibl(p)))
            pairs = [i for i in range(len(pos) - 1) if pos[i][0] == pos[i + 1][0] and pos[i][2] == pos[i + 1][2]]
            if pairs:
                i = rng.choice(pairs)
                pos[i], pos[i + 1] = pos[i + 1], pos[i]
    elif kind == "extremes":       # the corners of the grid: rows 0, 1, nrow-2, nrow-1 of every shank, every column
        cand = [(s_, c_, r_) for s_ in range(ns) for c_ in range(ncol) for r_ in (0, 1, nrow - 2, nrow - 1)]
        order = rng.choice(["shank_desc", "shuffle", "row_desc", "natural"])
        if order == "shank_desc":          # the later shank first in the table
            cand.sort(key=lambda p: (-p[0], p[2], p[1]))
        elif order == "row_desc":
            cand.sort(key=lambda p: (-p[2], -p[0], p[1]))
        elif order == "shuffle":
            rng.shuffle(cand)
        if n < len(cand):              # keep top-row / row-0 pairs of neighbouring shanks together
            keep = [p for p in cand if p[2] in (0, nrow - 1)]
            rest = [p for p in cand if p[2] not in (0, nrow - 1)]
            cand = (keep + rest)[:max(n, 2)]
        pos = cand
        n = len(pos)
    elif kind == "seam":           # a random table forced to contain (shank s, top row) and (shank s+1, row 0)
        pos = [natural(gen, c) for c in rng.sample(range(total), n)]
        forced = []
        for s_ in range(max(1, ns - 1)):
            for c_ in rng.sample(range(ncol), rng.randrange(1, ncol + 1)):
                forced += [((s_ + 1) % ns, c_, 0), (s_, c_, nrow - 1)]       # later shank first
        pos = list(dict.fromkeys(forced + pos))[:max(n, len(forced))]
        if rng.random() < 0.5:
            rng.shuffle(pos)
        n = len(pos)
    elif kind == "fewrows":        # many ties on the row: a handful of rows, all columns and shanks
        rows = rng.sample(range(nrow), min(nrow, max(1, -(-n // (ns * ncol)))))
        allp = [(s, c, r) for r in rows for s in range(ns) for c in range(ncol)]
        rng.shuffle(allp)
        pos = allp[:n]
    else:                          # "interleaved": blocks of 48 channels alternating between shanks (4-shank default)
        pos = []
        base = rng.randrange(0, max(1, nrow - 48))
        order = list(range(ns))
        rng.shuffle(order)
        b = 0
        while len(pos) < n:
            sh = order[b % ns]
            r0 = base + 24 * (b // ns)
            pos += [(sh, i % ncol, (r0 + i // ncol) % nrow) for i in range(48)]
            b += 1
        pos = list(dict.fromkeys(pos))[:n]
    pos = pos[:n]
    return [(s, c, r, 0 if rng.random() < 0.08 else 1) for (s, c, r) in pos]


def make_case(rng, cid, gen, sites, enc, split=None, **kw):
    case = {"id": cid, "gen": gen, "sites": [list(s) for s in sites], "enc": enc, "split": split}
    case["template"] = kw.pop("template", None) or rng.choice(TEMPLATES[gen])
    if gen in ALT_TYPE:
        case["type_code"] = kw.pop("type_code", None) or rng.choice(ALT_TYPE[gen])
    case.update(kw)
    case["entries"] = [list(geom_entry(gen, s)) if enc == 1 else list(s) for s in sites]
    return case


def enc_case_input(case, srt):
    out = [0, GEN_CODE[case["gen"]], case["enc"], 1 if srt else 0,
           -1 if case["split"] is None else case["split"], len(case["entries"])]
    for e in case["entries"]:
        out += list(e)
    return out


def describe(case, srt=None):
    d = {k: case[k] for k in ("gen", "sites", "enc", "split", "template") if k in case}
    for k in ("type_code", "subset_text", "orig_channels", "kind", "nsaved", "row_scale", "entries_override"):
        if case.get(k) is not None:
            d[k] = case[k]
    if srt is not None:
        d["sort"] = srt
    return d


# ---------------------------------------------------------------------------
def fixture_pairs(ctx):
    """The two shipped (shank map, geometry map) fixture pairs: the model's SpikeGLX convention
    (geom_entry) must turn the old encoding's entries into the new file's entries."""
    import re
    import spikeglx
    fx = common.REPO / "src" / "tests" / "fixtures"
    n = 0
    for old, new, gen in (("sample3A_g0_t0.imec.ap.meta", "sample3B_version202304.ap.meta", "NP1"),
                          ("sampleNP2.4_4shanks_g0_t0.imec.ap.meta",
                           "sampleNP2.4_4shanks_appVersion20230905.ap.meta", "NP2.4")):
        mo, mn = spikeglx.read_meta_data(fx / old), spikeglx.read_meta_data(fx / new)
        pat = r"([0-9]*):([0-9]*):([0-9]*):([0-9]*)"
        so = [tuple(int(x) for x in t) for t in re.findall(pat, mo["snsShankMap"])]
        sn = [tuple(int(x) for x in t) for t in re.findall(pat, mn["snsGeomMap"])]
        conv = [geom_entry(gen, s)[:3] for s in so]
        if conv != [s[:3] for s in sn]:
            ctx.disagree("SpikeGLX layout convention of the model does not reproduce fixture %s from %s" % (new, old),
                         {"fixture": new})
        n += len(so)
    return n


def run(ctx):
    # Adc.v holds the exhaustive vm_compute sweeps of the ADC loop (4 x 384 x 384): compiled and kernel-checked by
    # coqc in the build; the thorough tier's coqchk (no VM, would take tens of minutes) takes that module as given
    # and re-checks everything else (Canon.v included, about 75 s)
    # C08_float32_exact_on_grid evaluates Flocq floats: it inherits the four standard-library axioms of the reals;
    # every other theorem is closed under the global context (checked below)
    common.proof_obligations(ctx, whitelist=sorted(common.STDLIB_AXIOMS), coqchk_admit=COQCHK_ADMIT)
    for name, ax in ctx.theorems.items():
        if name != "C08_float32_exact_on_grid" and ax != "Closed under the global context":
            ctx.broken_proofs.append({"theorem": name, "why": "expected to be closed, depends on %s" % (ax,)})
    logging.getLogger("ibllib").setLevel(logging.ERROR)    # "returning defaults" warnings of the no-map cases
    rng = ctx.rng
    tdir = common.tmpdir("C08_")
    inputs, outputs, descr = [], [], []
    dist = {"tables": 0, "shank_map": 0, "geom_map": 0, "no_map": 0, "split": 0, "n_le_12": 0, "n_ge_276": 0,
            "already_sorted": 0, "gen": {g: 0 for g in GEN_CODE}, "kinds": {}, "subset_offset": 0,
            "trace_header": 0, "adc_shifts": 0, "rcxy": 0, "map_texts": 0, "map_texts_malformed": 0,
            "map_texts_valueerror": 0, "map_texts_ambiguous_skipped": 0, "npultra_geom_maps": 0,
            "file_texts": 0, "file_texts_raise": 0, "file_texts_nogeometry": 0, "file_texts_crlf": 0,
            "file_texts_duplicate_map": 0, "file_texts_fallback_typed": 0, "nidq_metas": 0, "purity_queries": 0, "purity_mutations": 0,
            "purity_followups": 0, "unsupported_arguments": 0, "nc_argument": 0, "reader_without_meta": 0,
            "dense_layout_direct": 0, "rcxy_scalar_or_typed": 0}
    nontrivial = set()
    samples = []
    evaluations = 0
    try:
        try:
            n_fix = limited(fixture_pairs, ctx)
        except Exception as e:
            ctx.fail("reading the shipped fixture pairs raised %r" % (e,), {"fn": "fixture_pairs"},
                     {"clause": "exception"})
            n_fix = 0
        ctx.coverage["fixture_convention_sites"] = n_fix
        try:
            # ---------------- geometry_from_meta & friends ----------------
            tables = []
            kinds = ["block", "random", "random", "swaps", "reversed", "fewrows", "interleaved", "highrows", "extremes",
                 "seam", "rowsorted"]
            ntab = 5000 if ctx.thorough() else 110
            for t in range(ntab):
                gen = rng.choice(["NP1", "NP1", "NP2.1", "NP2.4", "NP2.4", "NPultra"])
                kind = rng.choice(kinds)
                r = rng.random()
                n = rng.choice(SIZES) if r < 0.5 else (rng.randrange(1, 60) if r < 0.9 else rng.randrange(60, 385))
                if (ctx.thorough() and t % 10 == 0) or (not ctx.thorough() and t % 12 == 0):
                    n = rng.choice([384, 383, 276])
                tables.append((gen, kind, gen_sites(rng, gen, n, kind)))
            # the whole of every grid, in natural order, 384 sites at a time (every site of every grid is seen)
            for gen in ("NP1", "NP2.1", "NP2.4"):
                ns, ncol, nrow = SITE_GRID[gen]
                total = ns * ncol * nrow
                starts = list(range(0, total, 384))
                if not ctx.thorough():
                    starts = starts[:2] + starts[-1:]
                for st in starts:
                    m = min(384, total - st)
                    tables.append((gen, "grid", [natural(gen, st + i) + (1,) for i in range(m)]))
            cid = 0
            for gen, kind, sites in tables:
                dist["tables"] += 1
                dist["gen"][gen] += 1
                dist["kinds"][kind] = dist["kinds"].get(kind, 0) + 1
                encs = [0] if gen == "NPultra" else [0, 1]
                shanks = sorted({s[0] for s in sites})
                splits = [None]
                if gen == "NP2.4" and rng.random() < 0.7:
                    splits.append(rng.choice(shanks))        # a split file exists only for a shank that has sites
                per_enc = {}
                tmpl = rng.choice(TEMPLATES[gen])
                tcode = rng.choice(ALT_TYPE[gen]) if gen in ALT_TYPE else None
                for split in splits:
                    for enc in encs:
                        case = make_case(rng, cid, gen, sites, enc, split, template=tmpl, type_code=tcode, kind=kind)
                        cid += 1
                        try:
                            obs = run_geometry(case, tdir, rng)
                        except Exception as e:
                            ctx.fail("geometry of a valid site table raised %r" % (e,), describe(case),
                                     {"clause": "exception"})
                            continue
                        for clause, msg in oracle_geometry(case, obs):
                            ctx.fail(msg, describe(case), {"clause": clause})
                        per_enc[(split, enc)] = obs
                        for srt in (False, True):
                            g, inds = obs[("gfm", srt)]
                            inputs.append(enc_case_input(case, srt))
                            outputs.append([1] + flat_geom(g) + inds)
                            descr.append(describe(case, srt))
                            evaluations += 1
                        n = len(sites)
                        dist["shank_map" if enc == 0 else "geom_map"] += 1
                        dist["split"] += split is not None
                        dist["n_le_12"] += n <= 12
                        dist["n_ge_276"] += n >= 276
                        ident = obs[("gfm", True)][1] == list(range(len(obs[("gfm", True)][1])))
                        dist["already_sorted"] += ident
                        if not ident:
                            nontrivial.add((gen, enc, split, tuple(map(tuple, sites))))
                        if len(samples) < 6 and not ident and n <= 8:
                            samples.append({"gen": gen, "encoding": ["shank map", "geometry map"][enc], "split": split,
                                            "entries": case["entries"], "sorted_index": obs[("gfm", True)][1],
                                            "sorted_x": obs[("gfm", True)][0]["x"],
                                            "sorted_y": obs[("gfm", True)][0]["y"]})
                    # the two encodings of one table give the same geometry
                    if (split, 0) in per_enc and (split, 1) in per_enc and \
                            {k: v for k, v in per_enc[(split, 0)].items() if k != "query_order"} != \
                            {k: v for k, v in per_enc[(split, 1)].items() if k != "query_order"}:
                        ctx.fail("shank-map and geometry-map encodings of the same sites give different geometries",
                                 describe(make_case(rng, -1, gen, sites, 0, split, template=tmpl, type_code=tcode)),
                                 {"clause": "encodings"})
                # a split shank is the restriction of its parent
                for split in splits[1:]:
                    for enc in encs:
                        if (None, enc) not in per_enc or (split, enc) not in per_enc:
                            continue
                        for srt in (False, True):
                            pg, _ = per_enc[(None, enc)][("gfm", srt)]
                            cg, _ = per_enc[(split, enc)][("gfm", srt)]
                            idx = [i for i, s in enumerate(pg["shank"]) if s == split]
                            rank = {v: r for r, v in enumerate(sorted(pg["ind"][i] for i in idx))}
                            ok = all(cg[k] == [pg[k][i] for i in idx] for k in KEYS if k != "ind") and \
                                cg["ind"] == [rank[pg["ind"][i]] for i in idx]
                            if not ok:
                                ctx.fail("geometry of a split shank is not the restriction of the parent geometry",
                                         describe(make_case(rng, -1, gen, sites, enc, split, template=tmpl,
                                                            type_code=tcode), srt), {"clause": "split"})
            # ---------------- no map / empty map -> canonical default ----------------
            for gen in GEN_CODE:
                for enc, entries in ((2, None), (0, [])):
                    case = make_case(rng, cid, gen, [], enc, None, kind="default", nsaved=384)
                    cid += 1
                    try:
                        obs = run_geometry(case, tdir)
                    except Exception as e:
                        ctx.fail("geometry without a site table raised %r" % (e,), describe(case), {"clause": "exception"})
                        continue
                    for srt in (False, True):
                        g, inds = obs[("gfm", srt)]
                        inputs.append(enc_case_input(case, srt))
                        outputs.append([1] + flat_geom(g) + inds)
                        descr.append(describe(case, srt))
                        evaluations += 1
                    dist["no_map"] += 1
            # ---------------- saved-channel subsets (F-C08-a) ----------------
            for gen, sub in (("NP1", (24, 60)), ("NP2.1", (32, 40)), ("NP2.4", (100, 199)), ("NP1", (0, 99)),
                             ("NP1", (1, 30))):
                a, b = sub
                sites = [natural(gen, c) + (1,) for c in range(a, b + 1)]
                case = make_case(rng, cid, gen, sites, rng.choice([0, 1]), None, kind="subset",
                                 subset_text="%d:%d,384" % (a, b), orig_channels=list(range(a, b + 1)))
                cid += 1
                try:
                    obs = run_geometry(case, tdir)
                except Exception as e:
                    ctx.fail("geometry of a saved-channel subset raised %r" % (e,), describe(case), {"clause": "exception"})
                    continue
                for clause, msg in oracle_geometry(case, obs):
                    ctx.fail(msg, describe(case), {"clause": clause, "subset": "prefix" if a == 0 else "not_prefix"})
                dist["subset_offset"] += a != 0
                for srt in (False, True):
                    g, inds = obs[("gfm", srt)]
                    inputs.append(enc_case_input(case, srt))
                    outputs.append([1] + flat_geom(g) + inds)
                    descr.append(describe(case, srt))
                    evaluations += 1
            # ---------------- trace_header / split_trace_header / adc_shifts / rc2xy / xy2rc ----------------
            evaluations += run_layouts(ctx, inputs, outputs, descr, dist, tdir)
            evaluations += run_arguments(ctx, inputs, outputs, descr, dist, tdir)
            evaluations += run_nidq(ctx, inputs, outputs, descr, dist, tdir)
            evaluations += run_parser(ctx, inputs, outputs, descr, dist)
            evaluations += run_npultra_geom(ctx, inputs, outputs, descr, dist, tdir)
            evaluations += run_files(ctx, inputs, outputs, descr, dist, tdir)
            # last: under a defect these sequences leave the library's own state modified
            evaluations += run_purity(ctx, dist, tdir)
        except AbortRun:
            ctx.fail("implementation calls keep running into the %d s limit (hang); generation stopped" % CASE_LIMIT_S,
                     {"fn": "time limit"}, {"clause": "exception"})
        m = min(len(inputs), len(outputs), len(descr))
        del inputs[m:], outputs[m:], descr[m:]
        if inputs:
            common.correspondence(ctx, PROP, HEADER, inputs, outputs, lambda i: descr[i], n_kernel=60)
    finally:
        shutil.rmtree(tdir, ignore_errors=True)
    return common.finish(
        ctx, TRUSTED,
        rule="site tables drawn from the NP1 (2x480), NP2.1 (2x640), NP2.4 (4x2x640) and NPultra (8x48) grids: "
             "consecutive blocks, arbitrary selections in arbitrary order, blocks with transpositions, reversed "
             "blocks, few-row tables (column/shank ties), shank-interleaved blocks, plus every grid in natural order "
             "384 sites at a time; sizes boundary-heavy around 12/16/24/32/48/276/384; each table is printed in "
             "SpikeGLX syntax as shank map and as geometry map, with and without an NP2.4_shank key, into a real "
             ".meta file and run through geometry_from_meta (sorted/unsorted, with/without index), read_geometry and "
             "Reader.geometry/raw_channel_order, and through the Coq model; plus trace_header/split_trace_header/"
             "adc_shifts/rc2xy/xy2rc on all canonical layouts and boundary arguments. non-trivial = the sort index is "
             "not the identity; distinct by (generation, encoding, split, table)",
        samples=samples, evaluations=evaluations, distinct_nontrivial=len(nontrivial),
        extra={"input_distribution": dist, "exhaustive": False},
        assumptions=["np.lexsort is stable", "SpikeGLX layout convention (Model.geom_entry)",
                     "float32/float64 integers below 2^24 exact"])


def run_layouts(ctx, inputs, outputs, descr, dist, tdir):
    import neuropixel
    import spikeglx
    rng = ctx.rng
    nev = 0
    # canonical layouts
    combos = [("NP1", 1, 1), ("NP2.1", 2, 1), ("NP2.1", 2.1, 1), ("NP2.4", 2.4, 1), ("NP2.4", 2.4, 4),
              ("NP2.1", 2, 4), ("NPultra", "NPultra", 1)]
    for gen, ver, nshank in combos:
        d = {"fn": "trace_header", "version": ver, "nshank": nshank}
        with guard(ctx, d, "trace_header / split_trace_header"):
            try:
                h = neuropixel.trace_header(version=ver, nshank=nshank)
            except Exception as e:
                ctx.fail("trace_header(%r, %r) raised %r" % (ver, nshank, e), {"version": ver, "nshank": nshank},
                         {"clause": "exception"})
                continue
            ch = canon_geom(h, gen)
            d = {"fn": "trace_header", "version": ver, "nshank": nshank}
            # oracle: the published layouts
            c = np.arange(384)
            dx, x0, dy, y0 = GRID[gen]
            if gen == "NP1":
                row, col, shank = c // 2, np.array([2, 0, 3, 1])[c % 4], c * 0
            elif gen == "NPultra":
                row, col, shank = c // 8, c % 8, c * 0
            elif nshank == 1:
                row, col, shank = c // 2, c % 2, c * 0
            else:
                b = c // 48
                row = (c % 48) // 2 + 24 * np.array([0, 0, 1, 1, 0, 0, 1, 1])[b]
                col, shank = c % 2, np.array([0, 1, 0, 1, 2, 3, 2, 3])[b]
            exp = {"ind": c, "row": row, "col": col, "shank": shank, "x": col * dx + x0, "y": row * dy + y0,
                   "sample_shift": np.array([adc_expected(gen, int(i))[0] for i in c]),
                   "adc": np.array([adc_expected(gen, int(i))[1] for i in c])}
            for k, v in exp.items():
                if ch[k] != [int(a) for a in v]:
                    ctx.fail("trace_header column %s is not the canonical dense layout" % k, d, {"clause": "canonical"})
                    break
            # the canonical layout is the geometry of the canonical dense metadata (unsorted)
            canon_sites = []
            for i in range(384):
                r_, c_, s_ = int(row[i]), int(col[i]), int(shank[i])
                canon_sites.append((s_, (i % 2) if gen == "NP1" else c_, r_, 1))
            for enc in ([0] if gen == "NPultra" else [0, 1]):
                case = make_case(rng, 900000 + nev, gen, canon_sites, enc, None, kind="canonical")
                try:
                    obs = run_geometry(case, tdir)
                    if obs[("gfm", False)][0] != ch:
                        ctx.fail("trace_header differs from the geometry of the canonical dense metadata", d,
                                 {"clause": "canonical"})
                    if gen == "NP1" and obs[("gfm", True)][1] != list(range(384)):
                        ctx.fail("sorting does not preserve the original NP1 order", d, {"clause": "canonical"})
                except Exception as e:
                    ctx.fail("geometry of canonical metadata raised %r" % (e,), describe(case), {"clause": "exception"})
            inputs.append([1, GEN_CODE[gen], nshank, -1])
            outputs.append([1] + flat_geom(ch))
            descr.append(d)
            nev += 1
            dist["trace_header"] += 1
            for s in range(-1, 5):
                if s < 0:
                    continue
                try:
                    hs = neuropixel.split_trace_header(h, shank=s)
                    chs = canon_geom(hs, gen)
                except Exception as e:
                    ctx.fail("split_trace_header raised %r" % (e,), dict(d, shank=s), {"clause": "exception"})
                    continue
                idx = [i for i in range(384) if ch["shank"][i] == s]
                if any(chs[k] != [ch[k][i] for i in idx] for k in KEYS):
                    ctx.fail("split_trace_header is not the restriction to the shank",
                             dict(d, shank=s), {"clause": "split"})
                inputs.append([1, GEN_CODE[gen], nshank, s])
                outputs.append([1] + flat_geom(chs))
                descr.append(dict(d, fn="split_trace_header", shank=s))
                nev += 1
    # adc_shifts
    ncs = sorted({0, 1, 2, 11, 12, 13, 15, 16, 17, 23, 24, 25, 26, 31, 32, 33, 34, 47, 48, 49, 191, 192, 193, 276,
                  382, 383, 384, 385, 500} | {rng.randrange(0, 385) for _ in range(12)})
    for gen in GEN_CODE:
        for ver in VERSION_ARG[gen]:
            for nc in ncs:
                d = {"fn": "adc_shifts", "version": ver, "nc": nc}
                with guard(ctx, d, "adc_shifts"):
                    try:
                        sh, adc = neuropixel.adc_shifts(version=ver, nc=nc)
                    except Exception as e:
                        ctx.fail("adc_shifts raised %r" % (e,), d, {"clause": "exception"})
                        continue
                    shc, adcc = shift_codes(sh, gen), ints(adc)
                    m = min(nc, 384)
                    a, _ = ADC[gen]
                    if shc != [adc_expected(gen, c)[0] for c in range(m)] or \
                            adcc != [adc_expected(gen, c)[1] for c in range(m)]:
                        ctx.fail("adc_shifts is not the per-channel table", d, {"clause": "adc_table"})
                    if nc >= 384:
                        for g_ in set(adcc):
                            dl = [shc[i] for i in range(384) if adcc[i] == g_]
                            if dl != list(range(a)):
                                ctx.fail("an ADC does not serve its channels at distinct evenly spaced delays", d,
                                         {"clause": "adc_table"})
                                break
                    inputs.append([2, GEN_CODE[gen], nc])
                    outputs.append([1, len(shc)] + shc + adcc)
                    descr.append(d)
                    nev += 1
                    dist["adc_shifts"] += 1
    # rc2xy / xy2rc
    for gen in GEN_CODE:
        dx, x0, dy, y0 = GRID[gen]
        for ver in VERSION_ARG[gen]:
            for rep in range(6 if ctx.thorough() else 2):
                n = rng.randrange(1, 40)
                a = [rng.choice([rng.randrange(-50, 5000), rng.randrange(0, 700) * dy + y0, x0, y0, 0])
                     for _ in range(n)]
                b = [rng.choice([rng.randrange(-50, 5000), rng.randrange(0, 8) * dx + x0, x0, y0, 0])
                     for _ in range(n)]
                d = {"fn": "rc2xy/xy2rc", "version": ver, "a": a, "b": b}
                with guard(ctx, d, "rc2xy / xy2rc"):
                    try:
                        xy = neuropixel.rc2xy(np.array(a), np.array(b), version=ver)
                        rc = neuropixel.xy2rc(np.array(a), np.array(b), version=ver)
                        col, row = np.asarray(rc["col"], dtype=float), np.asarray(rc["row"], dtype=float)
                        # inverse on the grid: rc2xy(xy2rc) and xy2rc(rc2xy)
                        back = neuropixel.rc2xy(rc["row"], rc["col"], version=ver)
                        fwd = neuropixel.xy2rc(xy["x"], xy["y"], version=ver)
                    except Exception as e:
                        ctx.fail("rc2xy / xy2rc raised %r" % (e,), d, {"clause": "exception"})
                        continue
                    if not (np.allclose(back["x"], a, rtol=0, atol=1e-9) and np.allclose(back["y"], b, rtol=0, atol=1e-9)
                            and np.array_equal(fwd["row"], a) and np.array_equal(fwd["col"], b)):
                        ctx.fail("rc2xy and xy2rc are not inverses", d, {"clause": "rc_xy"})

                    def num(v, den):
                        m = int(round(float(v) * den))
                        return m if float(m) / den == float(v) else BAD
                    out = ints(xy["x"]) + ints(xy["y"]) + [dx, dy]
                    out += [num(v, dx) for v in col] + [num(v, dy) for v in row]
                    for v in col:
                        out += [1, int(v)] if float(v).is_integer() else [0]
                    for v in row:
                        out += [1, int(v)] if float(v).is_integer() else [0]
                    inputs.append([3, GEN_CODE[gen], n] + a + b)
                    outputs.append(out)
                    descr.append(d)
                    nev += 1
                    dist["rcxy"] += 1
    return nev


UNSUPPORTED = 9      # Run.v: a version value the code has no branch for


def run_arguments(ctx, inputs, outputs, descr, dist, tdir):
    """Round 4 (coverage / parameter audit): argument values the other streams leave at their defaults or never
    reach — unsupported version / nshank values (the arcs of dense_layout and adc_shifts that end in an
    exception), dense_layout called directly, scalar / float32 / int16 arguments of rc2xy and xy2rc, the nc
    argument of geometry_from_meta, Reader without a meta file."""
    import neuropixel
    import spikeglx
    nev = 0
    # -- trace_header / dense_layout: every (version, nshank) class
    for ver, code, nshank in [(2, 1, 2), (2.4, 2, 3), (2, 1, 0), (2.1, 1, -1), (3, UNSUPPORTED, 1),
                              (0, UNSUPPORTED, 1), (1.5, UNSUPPORTED, 1), (3.0, UNSUPPORTED, 4),
                              (1, 0, 3), (1.0, 0, 4), ("NPultra", 3, 4), (2.0, 1, 1), (np.float64(2.4), 2, 4)]:
        d = {"fn": "trace_header", "version": ver, "nshank": nshank}
        with guard(ctx, d, "trace_header with unusual arguments"):
            gen = {0: "NP1", 1: "NP2.1", 2: "NP2.4", 3: "NPultra"}.get(code, "NP1")
            try:
                h = neuropixel.trace_header(version=ver, nshank=nshank)
                out = [1] + flat_geom(canon_geom(h, gen))
                dl = neuropixel.dense_layout(version=ver, nshank=nshank)
                if any(ints(dl[k]) != ints(h[k]) for k in ("ind", "row", "shank", "col", "x", "y")):
                    ctx.fail("dense_layout and trace_header disagree", d, {"clause": "canonical"})
                dist["dense_layout_direct"] += 1
            except (KeyError, UnboundLocalError, TypeError) as e:
                out = [0]
            inputs.append([1, code, nshank, -1])
            outputs.append(out)
            descr.append(d)
            nev += 1
            dist["unsupported_arguments"] += out == [0]
    # -- adc_shifts: versions without a branch
    for ver in (3, 0, 1.5, 3.0, -1):
        d = {"fn": "adc_shifts", "version": ver, "nc": 384}
        with guard(ctx, d, "adc_shifts with an unsupported version"):
            try:
                sh, adc = neuropixel.adc_shifts(version=ver)
                out = [1, len(ints(adc))] + shift_codes(sh, "NP1") + ints(adc)
            except (UnboundLocalError, KeyError, TypeError):
                out = [0]
            inputs.append([2, UNSUPPORTED, 384])
            outputs.append(out)
            descr.append(d)
            nev += 1
            dist["unsupported_arguments"] += out == [0]
    # -- rc2xy / xy2rc: scalars, float32 and int16 arrays, an unsupported version
    rng = ctx.rng
    for gen in GEN_CODE:
        dx, x0, dy, y0 = GRID[gen]
        ver = VERSION_ARG[gen][-1]
        for kind in ("scalar", "float32", "int16"):
            a = [rng.randrange(0, 40) * dy + y0] if kind == "scalar" else [rng.randrange(0, 600) for _ in range(5)]
            b = [rng.randrange(0, 8) * dx + x0] if kind == "scalar" else [rng.randrange(0, 600) for _ in range(5)]
            d = {"fn": "rc2xy/xy2rc", "version": ver, "a": a, "b": b, "kind": kind}
            with guard(ctx, d, "rc2xy / xy2rc"):
                conv = {"scalar": lambda v: v[0], "float32": lambda v: np.array(v, dtype=np.float32),
                        "int16": lambda v: np.array(v, dtype=np.int16)}[kind]
                xy = neuropixel.rc2xy(conv(a), conv(b), version=ver)
                rc = neuropixel.xy2rc(conv(a), conv(b), version=ver)
                col, row = np.atleast_1d(rc["col"]).astype(float), np.atleast_1d(rc["row"]).astype(float)

                def num(v, den):
                    m = int(round(float(v) * den))
                    return m if abs(float(m) / den - float(v)) <= 1e-6 * max(1.0, abs(float(v))) else BAD
                out = ints(np.atleast_1d(xy["x"])) + ints(np.atleast_1d(xy["y"])) + [dx, dy]
                out += [num(v, dx) for v in col] + [num(v, dy) for v in row]
                for v, den in [(v, dx) for v in col] + [(v, dy) for v in row]:
                    m = num(v, den)
                    out += [1, m // den] if (m != BAD and m % den == 0) else [0]
                inputs.append([3, GEN_CODE[gen], len(a)] + a + b)
                outputs.append(out)
                descr.append(d)
                nev += 1
                dist["rcxy_scalar_or_typed"] += 1
    for ver in (3, 0, "3A", None):
        d = {"fn": "rc2xy/xy2rc", "version": ver}
        with guard(ctx, d, "rc2xy / xy2rc with an unsupported version"):
            try:
                neuropixel.rc2xy(np.array([1]), np.array([1]), version=ver)
                neuropixel.xy2rc(np.array([1]), np.array([1]), version=ver)
                out = [1]
            except (KeyError, TypeError):
                out = [0]
            inputs.append([3, UNSUPPORTED, 1, 1, 1])
            outputs.append(out)
            descr.append(d)
            nev += 1
            dist["unsupported_arguments"] += out == [0]
    # -- the nc argument of geometry_from_meta (used only for the index of the no-table fallback)
    for gen in GEN_CODE:
        for nc in (0, 100, 500):
            case = make_case(rng, 700000 + nev, gen, [], 2, None, kind="default_nc", nsaved=384)
            d = dict(describe(case), nc=nc)
            with guard(ctx, d, "geometry_from_meta(nc=...)"):
                f = tdir / "nc.ap.meta"
                f.write_text(meta_text(case))
                md = spikeglx.read_meta_data(f)
                for srt in (False, True):
                    g, inds = spikeglx.geometry_from_meta(md, return_index=True, nc=nc, sort=srt)
                    inp = enc_case_input(case, srt)
                    inp[4] = nc
                    inputs.append(inp)
                    outputs.append([1] + flat_geom(canon_geom(g, gen)) + ints(inds))
                    descr.append(dict(d, sort=srt))
                    nev += 1
                dist["nc_argument"] += 1
    # -- Reader on a binary without any meta file: the NP1 canonical layout
    for nchan in (384, 385):
        d = {"fn": "Reader without meta file", "nc": nchan}
        with guard(ctx, d, "Reader without a meta file"):
            fb = tdir / ("nometa%d.bin" % nchan)
            fb.write_bytes(bytes(nchan * 2 * 4))
            sr = spikeglx.Reader(fb, open=False)
            cg = canon_geom(sr.geometry, "NP1")
            ref = canon_geom(neuropixel.trace_header(version=1), "NP1")
            if cg != ref or int(sr.nc) != nchan:
                ctx.fail("Reader without meta data does not carry the NP1 canonical geometry", d,
                         {"clause": "canonical"})
            inputs.append([1, 0, 1, -1])
            outputs.append([1] + flat_geom(cg))
            descr.append(d)
            nev += 1
            dist["reader_without_meta"] += 1
            fb.unlink()
    return nev


def run_nidq(ctx, inputs, outputs, descr, dist, tdir):
    """No-table fallback as a function of (probe version, stream type) (repo 569e533): nidq metas of the 3B era
    (no probe version) and of the 3A era (typeEnabled key => version 3A) carry no geometry; Reader opens on them
    and leaves raw_channel_order = arange(nc); imec metas without a table keep the default layout of their
    version (the no_map cases of the main stream and the file-text stream)."""
    import spikeglx
    nev = 0
    base = [l for l in (common.REPO / "src" / "tests" / "fixtures" / "sample3B_g0_t0.nidq.meta").read_text()
            .splitlines() if l]
    variants = {
        "3B nidq (fixture)": base,
        "3B nidq without the empty shank map": [l for l in base if "snsShankMap" not in l],
        "3A nidq (typeEnabled)": base + ["typeEnabled=imec,nidq"],
        "3A nidq without the empty shank map": [l for l in base if "snsShankMap" not in l] + ["typeEnabled=nidq"],
        "3A nidq, 8 saved channels": [("nSavedChans=9" if l.startswith("nSavedChans=") else
                                       "snsMnMaXaDw=0,0,8,1" if l.startswith("snsMnMaXaDw=") else l)
                                      for l in base] + ["typeEnabled=imec,nidq"],
    }
    for name, lines in variants.items():
        text = "\n".join(lines) + "\n"
        d = {"fn": "geometry_from_meta(read_meta_data(file))", "gen": "NP1", "text": text, "variant": name}
        with guard(ctx, d, "geometry of a nidq meta file"):
            f = tdir / "x.nidq.meta"
            f.write_bytes(text.encode("ascii"))
            md = spikeglx.read_meta_data(f)
            ncs = int(md["nSavedChans"])
            for srt in (False, True):
                r2 = spikeglx.geometry_from_meta(md, return_index=True, sort=srt)
                r1 = spikeglx.geometry_from_meta(md, sort=srt)
                none = r1 is None and isinstance(r2, tuple) and len(r2) == 2 and r2[0] is None and r2[1] is None
                if not none:
                    ctx.fail("a nidq meta file (%s) gets a probe geometry" % name, dict(d, sort=srt),
                             {"clause": "fallback"})
                    out = [1] + flat_geom(canon_geom(r2[0], "NP1")) + ints(r2[1])
                else:
                    out = [2]
                inputs.append([5, 1 if srt else 0] + [ord(c) for c in text])
                outputs.append(out)
                descr.append(dict(d, sort=srt))
                nev += 1
                sr = spikeglx.Reader(f, open=False, sort=srt)
                sr_s = spikeglx.Reader(str(f), meta_file=str(f), open=False, sort=srt)      # meta_file as str (c43b144)
                for r_ in (sr, sr_s):
                    if r_.geometry is not None or ints(r_.raw_channel_order) != list(range(ncs)) or int(r_.nc) != ncs:
                        ctx.fail("Reader on a nidq meta file (%s): geometry %s, raw_channel_order %s" % (
                            name, type(r_.geometry).__name__, ints(r_.raw_channel_order)[:6]), dict(d, sort=srt),
                            {"clause": "fallback"})
            if spikeglx.read_geometry(f) is not None:
                ctx.fail("read_geometry of a nidq meta file (%s) is not None" % name, d, {"clause": "fallback"})
            f.unlink()
            dist["nidq_metas"] += 1
    return nev


def parse_impl(text, key):
    """_map_channels_from_meta on one map string -> flat encoding of Run.v mode 4."""
    import spikeglx
    try:
        cm = spikeglx._map_channels_from_meta({key: text})
    except ValueError:
        return [0]
    names = ["shank", "col", "row", "flag"] if key == "snsShankMap" else ["shank", "x", "y", "flag"]
    if all(v is None for v in cm.values()):      # "key exists but holds no entry"
        return [1, 0]
    cols = [ints(cm[k]) for k in names]
    out = [1, len(cols[0])]
    for row in zip(*cols):
        out += list(row)
    return out


def run_parser(ctx, inputs, outputs, descr, dist):
    """The tokeniser of the map strings: printed tables must parse back to the table (codec clause);
    malformed neighbours are compared with the model only."""
    import re
    rng = ctx.rng
    alphabet = "0123456789:::(),)( "
    texts = []
    for gen in GEN_CODE:
        for enc in ((0,) if gen == "NPultra" else (0, 1)):
            for _ in range(12 if ctx.thorough() else 3):
                n = rng.randrange(0, 9)
                sites = gen_sites(rng, gen, max(n, 1), "random")[:n]
                entries = [geom_entry(gen, s) if enc == 1 else s for s in sites]
                text = map_text(gen, enc, entries).split("=", 1)[1]
                texts.append((text, entries, enc))
                for _ in range(6 if ctx.thorough() else 3):          # malformed neighbours
                    t = list(text)
                    for _ in range(rng.randrange(1, 4)):
                        k = rng.randrange(len(t) + 1)
                        op = rng.random()
                        if op < 0.4 and k < len(t):
                            del t[k]
                        elif op < 0.8:
                            t.insert(k, rng.choice(alphabet))
                        elif k < len(t):
                            t[k] = rng.choice(alphabet)
                    texts.append(("".join(t), None, enc))
    for t in ["", "()", ":::", "1:2:3", "1:2:3:4", "1:2:3:4:5:6:7:8", "(1:2:3:4)(5:6:7:)", "a1:2:3:4b",
              "0:0:0:1(0:1:0:1)", "12:34:56:78:", "(NP1010,1,0,70)", "(1,2,480)", "::1:2:3:4", "1::2:3",
              "007:08:09:010", "(1,2,480)(0:0:0:1)", "1:2:3:4\n5:6:7:8", "(0:0:0:1) (0:1:0:1)", "9999999:0:0:1"]:
        texts.append((t, None, rng.choice([0, 1])))
    nev = 0
    for text, entries, enc in texts:
        if any(len(r) > 7 for r in re.findall("[0-9]+", text)) or len(text) > 400:
            continue        # beyond exact float32 integers / keep kernel cases small
        if entries is None and re.findall("[0-9]*:[0-9]*:[0-9]*:[0-9]*", text) != \
                re.findall("[0-9]+:[0-9]+:[0-9]+:[0-9]+", text):
            # a field is empty somewhere: whether that is an error or a skipped entry is not fixed by the
            # property (well-formed tables only); such texts are not compared
            dist["map_texts_ambiguous_skipped"] += 1
            continue
        key = "snsShankMap" if enc == 0 else "snsGeomMap"
        d = {"fn": "_map_channels_from_meta", "key": key, "text": text}
        with guard(ctx, d, "_map_channels_from_meta"):
            try:
                out = parse_impl(text, key)
            except Exception as e:
                if entries is not None:
                    ctx.fail("parsing a well-formed map raised %r" % (e,), d, {"clause": "parse"})
                else:
                    ctx.disagree("parsing raised %r (the model knows only ValueError)" % (e,), d)
                continue
            if entries is not None:
                exp = [1, len(entries)] + [int(x) for e_ in entries for x in e_]
                if out != exp:
                    ctx.fail("a printed site table does not parse back to the table", d, {"clause": "parse"})
            inputs.append([4] + [ord(c) for c in text])
            outputs.append(out)
            descr.append(d)
            nev += 1
            dist["map_texts"] += 1
            dist["map_texts_malformed"] += entries is None
            dist["map_texts_valueerror"] += out == [0]
    return nev


def run_npultra_geom(ctx, inputs, outputs, descr, dist, tdir):
    """F-C08-b: NPultra site tables in the geometry-map encoding (x = 6*col, z = 6*row)."""
    rng = ctx.rng
    nev = 0
    tables = [[natural("NPultra", c) + (1,) for c in range(384)]]
    for _ in range(6 if ctx.thorough() else 3):
        tables.append(gen_sites(rng, "NPultra", rng.randrange(1, 20), "random"))
    for sites in tables:
        ref = make_case(rng, 800000 + nev, "NPultra", sites, 0, None, kind="npultra_geom")
        case = make_case(rng, 800100 + nev, "NPultra", sites, 0, None, kind="npultra_geom")
        case["enc"] = 1
        case["row_scale"] = 6      # rows are compared as 6 * row (the model's ROW6 column)
        case["entries"] = [[s[0], 6 * s[1], 6 * s[2], s[3]] for s in sites]
        try:
            o_ref, o = run_geometry(ref, tdir, rng), run_geometry(case, tdir, rng)
        except Exception as e:
            ctx.fail("NPultra geometry raised %r" % (e,), describe(case), {"clause": "exception"})
            continue
        same = all(o.get("unscaled", {}).get(srt) == o_ref[("gfm", srt)] for srt in (False, True))
        if same:
            continue            # the defect has been repaired: the property holds here, nothing to compare
        ctx.fail("NPultra: the geometry-map encoding gives another geometry than the shank-map encoding "
                 "(6 * row = %s...)" % (o[("gfm", False)][0]["row"][:3],), describe(case),
                 {"clause": "encodings", "gen": "NPultra"})
        for srt in (False, True):
            g, inds = o[("gfm", srt)]
            offgrid = BAD in g["row"] or BAD in g["col"]
            inputs.append(enc_case_input(case, srt))
            outputs.append([0] if offgrid else [1] + flat_geom(g) + inds)
            descr.append(describe(case, srt))
            nev += 1
        dist["npultra_geom_maps"] += 1
    return nev


VERSION_LINES = {
    "NP1": [["typeEnabled=imec"], ["imDatPrb_type=0"], ["imDatPrb_type=0", "imDatPrb_port=1", "imDatPrb_slot=2"]],
    "NP2.1": [["imDatPrb_type=21"], ["imDatPrb_type=1030"]],
    "NP2.4": [["imDatPrb_type=24"], ["imDatPrb_type=2013"], ["imDatPrb_type=24.0"]],
    "NPultra": [["imDatPrb_type=1100"]],
}
# no probe version can be derived: nothing at all, or a probe-type number the code does not know
NO_VERSION_LINES = [[], [], ["imDatPrb_type=1123"], ["imDatPrb_type=22"], ["imDatPrb_type=NP1010"]]
FILLER = ["typeThis=imec", "imSampRate=30000", "fileTimeSecs=1.5", "imAiRangeMax=0.6", "userNotes=",
          "imDatPrb_sn=19011116954", "acqApLfSy=384,0,1", "~imroTbl=(0,384)(0 0 0 500 250 1)", "gateMode=Immediate",
          "snsSaveChanSubset=0:3,384", "imMaxInt=512", "fileName=D:/data/x_g0_t0.imec0.ap.bin"]


def run_files(ctx, inputs, outputs, descr, dist, tdir):
    """FILE TEXT -> geometry: small .meta files written byte by byte (line order, line ends, tilde keys,
    repeated keys, both map keys, NP2.4_shank, missing version, malformed lines), read by read_meta_data and
    geometry_from_meta / read_geometry; the model receives the same text (C09 reader + tokeniser + geometry)."""
    import spikeglx
    rng = ctx.rng
    nev = 0
    for k in range(400 if ctx.thorough() else 45):
        gen = rng.choice(["NP1", "NP1", "NP2.1", "NP2.4", "NP2.4", "NPultra"])
        lines = []
        has_version = rng.random() < 0.9
        if has_version:
            lines += rng.choice(VERSION_LINES[gen])
            if gen == "NP1" and rng.random() < 0.2:
                lines.append("imDatPrb_type=24")     # typeEnabled (3A) has priority over any probe type
                if "typeEnabled=imec" not in lines:
                    lines.append("typeEnabled=imec")
        else:
            lines += rng.choice(NO_VERSION_LINES)
        mode = rng.choice(["table", "table", "table", "table", "dup", "both", "nomap", "empty", "bad"])
        enc = 0 if gen == "NPultra" else rng.choice([0, 1])
        key = ["snsShankMap", "snsGeomMap"][enc]
        tilde = rng.choice(["~", ""])
        n = rng.randrange(1, 10)
        sites = gen_sites(rng, gen, n, rng.choice(["random", "fewrows", "highrows"]))[:n]
        entries = [list(geom_entry(gen, s_)) if enc == 1 else list(s_) for s_ in sites]
        mapline = tilde + map_text(gen, enc, entries).lstrip("~")
        split = None
        if mode in ("table", "dup", "both", "bad"):
            lines.append(mapline)
        if mode == "dup":       # an earlier line with the same key and another table: the last one wins
            other = gen_sites(rng, gen, rng.randrange(1, 6), "random")
            ol = rng.choice(["~", ""]) + map_text(gen, enc, [list(geom_entry(gen, s_)) if enc == 1 else list(s_)
                                                           for s_ in other]).lstrip("~")
            lines.insert(0, ol)
            dist["file_texts_duplicate_map"] += 1
        if mode == "both" and gen != "NPultra":     # both keys: the shank map is used
            o_enc = 1 - enc
            lines.append(rng.choice(["~", ""]) + map_text(
                gen, o_enc, [list(geom_entry(gen, s_)) if o_enc == 1 else list(s_) for s_ in sites]).lstrip("~"))
        if mode == "empty":
            lines.append(tilde + map_text(gen, enc, []).lstrip("~"))
        if gen == "NP2.4" and mode in ("table", "dup") and rng.random() < 0.5:
            split = rng.choice(sorted({s_[0] for s_ in sites}))
            lines.append("NP2.4_shank=%d" % split)
        lines += rng.sample(FILLER, rng.randrange(0, 6))
        if mode in ("nomap", "empty") and rng.random() < 0.6:
            # the fallback depends on the stream type: nidq (no snsApLfSy), or an imec stream
            lines = [l for l in lines if not l.startswith(("typeThis=", "snsApLfSy="))]
            lines += rng.choice([["typeThis=nidq", "snsMnMaXaDw=0,0,1,1"], ["typeThis=nidq"],
                                 ["typeThis=nidq", "snsApLfSy=384,0,1"], ["typeThis=imec", "snsApLfSy=0,384,1"],
                                 ["typeThis=imec", "snsApLfSy=384,0,1"], ["snsApLfSy=384"],
                                 ["typeThis=nidq", "snsApLfSy=0,0,1"]])
            dist["file_texts_fallback_typed"] += 1
        if mode != "dup":
            rng.shuffle(lines)
        else:                   # keep the relative order of the two map lines
            first = lines.pop(0)
            rng.shuffle(lines)
            lines.insert(rng.randrange(0, lines.index(mapline) + 1), first)
        if mode == "bad":
            lines.insert(rng.randrange(len(lines) + 1), rng.choice(
                ["a line without the sign", "NP2.4_shank=abc" if gen == "NP2.4" else "no sign here",
                 tilde + key + "=(1,2,3)(0:1::1)", tilde + key + "=12"]))
        eol = rng.choice(["\n", "\n", "\r\n"])
        text = eol.join(lines) + (eol if rng.random() < 0.8 else "")
        dist["file_texts_crlf"] += eol == "\r\n"
        f = tdir / ("t%d.ap.meta" % k)
        f.write_bytes(text.encode("ascii"))
        d = {"fn": "geometry_from_meta(read_meta_data(file))", "gen": gen, "text": text}
        with guard(ctx, d, "geometry from the file text"):
            res = {}
            for srt in (False, True):
                try:
                    with warnings.catch_warnings():
                        warnings.simplefilter("ignore")
                        md = spikeglx.read_meta_data(f)
                        g, inds = spikeglx.geometry_from_meta(md, return_index=True, sort=srt)
                        rg = spikeglx.read_geometry(f) if srt else None
                except Exception as e:
                    res[srt] = ("raise", repr(e))
                    out = [0]
                else:
                    if g is None:
                        out = [2]
                        res[srt] = ("none", None)
                    else:
                        cg = canon_geom(g, gen)
                        offgrid = BAD in cg["row"] or BAD in cg["col"]
                        out = [3] if offgrid else [1] + flat_geom(cg) + ints(inds)
                        res[srt] = ("geom", cg, ints(inds))
                        if srt and canon_geom(rg, gen) != cg:
                            ctx.fail("read_geometry(file) differs from geometry_from_meta(read_meta_data(file))", d,
                                     {"clause": "entry_points"})
                inputs.append([5, 1 if srt else 0] + [ord(c) for c in text])
                outputs.append(out)
                descr.append(dict(d, sort=srt))
                nev += 1
            f.unlink()
            dist["file_texts"] += 1
            dist["file_texts_raise"] += res[False][0] == "raise"
            dist["file_texts_nogeometry"] += res[False][0] == "none"
            # oracle: a well-formed file with a version and a table describes exactly that table
            if has_version and mode in ("table", "dup", "both") and not (gen == "NPultra" and enc == 1):
                if res[False][0] != "geom":
                    ctx.fail("a well-formed meta file with a site table gives %s" % (res[False][:2],), d,
                             {"clause": "file_text"})
                else:
                    cg = res[False][1]
                    keep = [s_ for s_ in sites if split is None or s_[0] == split]
                    got = list(zip(cg["shank"], cg["col"], cg["row"], cg["flag"], cg["x"], cg["y"]))
                    if got != [expected_site(gen, s_) for s_ in keep]:
                        ctx.fail("the geometry read from the file text does not list the sites of its table", d,
                                 {"clause": "file_text"})
    return nev


# ---------------------------------------------------------------------------
# purity: results are fresh arrays, and writing into them changes no later result
# ---------------------------------------------------------------------------
def _arrays(obj, depth=0):
    """every ndarray reachable from a result / a module attribute (dict, list, tuple; depth <= 3)"""
    out = []
    if isinstance(obj, type) or callable(obj):
        return out
    if isinstance(obj, np.ndarray):
        out.append(obj)
    elif depth < 3:
        if hasattr(obj, "keys") and hasattr(obj, "values"):
            for v in list(obj.values()):
                out += _arrays(v, depth + 1)
        elif isinstance(obj, (list, tuple)):
            for v in obj:
                out += _arrays(v, depth + 1)
    return out


def _snapshot(obj):
    """value of a result, independent of the arrays it is made of"""
    if isinstance(obj, np.ndarray):
        return ("arr", str(obj.dtype), obj.shape, obj.tolist())
    if hasattr(obj, "keys") and hasattr(obj, "values"):
        return ("dict", [(str(k), _snapshot(obj[k])) for k in obj.keys()])
    if isinstance(obj, (list, tuple)):
        return ("seq", [_snapshot(v) for v in obj])
    return ("val", repr(obj))


def _mutate(obj, how):
    """write into every array of a result, in place; -> number of arrays written"""
    n = 0
    for a in _arrays(obj):
        if not a.flags.writeable or a.size == 0:
            continue
        try:
            if how == 0:
                a += 384
            elif how == 1:
                a.fill(7)
            else:
                a[...] = np.sort(a, axis=None).reshape(a.shape)[::-1] if a.ndim == 1 else a + 1
                a *= 3
            n += 1
        except Exception:
            pass
    return n


def purity_queries(tdir):
    """name -> zero-argument query; every public way of asking for a layout, an ADC table or a geometry"""
    import neuropixel
    import spikeglx
    rng_sites = {"NP1": [(0, 1, 7, 1), (0, 0, 7, 1), (0, 1, 3, 1), (0, 0, 120, 1)],
                 "NP2.4": [(2, 0, 9, 1), (0, 1, 9, 1), (2, 1, 9, 0), (1, 0, 300, 1), (0, 0, 9, 1)]}
    files = {}
    k = 0
    for gen, sites in rng_sites.items():
        for enc in (0, 1):
            import random
            case = make_case(random.Random(k), 600000 + k, gen, sites, enc, None, kind="purity")
            f = tdir / ("p%d.ap.meta" % k)
            f.write_text(meta_text(case))
            files[(gen, enc)] = f
            k += 1
    import random
    case = make_case(random.Random(99), 600099, "NP2.1", [], 2, None, kind="purity", nsaved=384)
    fdef = tdir / "pdef.ap.meta"
    fdef.write_text(meta_text(case))
    fbin = tdir / "pnometa.bin"
    fbin.write_bytes(bytes(384 * 2 * 4))
    mds = {k_: spikeglx.read_meta_data(f) for k_, f in files.items()}
    mddef = spikeglx.read_meta_data(fdef)
    q = {}
    for ver, ns in ((1, 1), (2, 1), (2.4, 4), ("NPultra", 1)):
        q["trace_header(%r,%r)" % (ver, ns)] = lambda ver=ver, ns=ns: neuropixel.trace_header(version=ver, nshank=ns)
        q["dense_layout(%r,%r)" % (ver, ns)] = lambda ver=ver, ns=ns: neuropixel.dense_layout(version=ver, nshank=ns)
    for ver, nc in ((1, 384), (2, 384), (2.4, 100), ("NPultra", 12)):
        q["adc_shifts(%r,%r)" % (ver, nc)] = lambda ver=ver, nc=nc: neuropixel.adc_shifts(version=ver, nc=nc)
    q["split_trace_header(trace_header(2.4,4),2)"] = \
        lambda: neuropixel.split_trace_header(neuropixel.trace_header(2.4, 4), shank=2)
    q["rc2xy"] = lambda: neuropixel.rc2xy(np.arange(5), np.arange(5) % 2, version=2)
    q["xy2rc"] = lambda: neuropixel.xy2rc(np.array([27, 59]), np.array([20, 35]), version=2.4)
    for (gen, enc), md in mds.items():
        for srt in (False, True):
            q["geometry_from_meta(%s,enc%d,sort=%s)" % (gen, enc, srt)] = \
                lambda md=md, srt=srt: spikeglx.geometry_from_meta(md, return_index=True, sort=srt)
        q["Reader(%s,enc%d).geometry" % (gen, enc)] = \
            lambda f=files[(gen, enc)]: (lambda sr: (sr.geometry, sr.raw_channel_order))(spikeglx.Reader(f, open=False))
        q["read_geometry(%s,enc%d)" % (gen, enc)] = lambda f=files[(gen, enc)]: spikeglx.read_geometry(f)
    q["geometry_from_meta(no table)"] = lambda: spikeglx.geometry_from_meta(mddef, return_index=True)
    q["Reader(no table).geometry"] = lambda: spikeglx.Reader(fdef, open=False).geometry
    q["Reader(no meta file).geometry"] = lambda: spikeglx.Reader(fbin, open=False).geometry
    q["_map_channels_from_meta"] = lambda: spikeglx._map_channels_from_meta(mds[("NP2.4", 0)])
    return q


def module_arrays():
    import neuropixel
    import spikeglx
    out = []
    for mod in (neuropixel, spikeglx):
        for name, v in list(vars(mod).items()):
            if name.startswith("__") or isinstance(v, type(np)):
                continue
            for a in _arrays(v):
                out.append(("%s.%s" % (mod.__name__, name), a))
    return out


def purity_failures(ctx, tdir, dist=None):
    """-> list of (message, description).  The functions of the property are pure: the theorems are about values,
    these sequences validate that nothing the library hands out is shared with its own state or with another
    result, so that a caller writing into a result cannot change what the library answers later."""
    bad = []
    q = purity_queries(tdir)
    names = list(q)
    base = {n: _snapshot(q[n]()) for n in names}                 # the answers of a process nobody has written into
    for i, n in enumerate(names):
        try:
            r1, r2 = q[n](), q[n]()
        except Exception as e:
            bad.append(("%s raises %r (after the earlier writes into results)" % (n, e),
                        {"fn": "purity sequence", "query": n}))
            continue
        a1, a2 = _arrays(r1), _arrays(r2)
        if any(np.shares_memory(x, y) for x in a1 for y in a2):
            bad.append(("two results of %s share memory" % n, {"fn": "purity sequence", "query": n}))
        for mname, m in module_arrays():
            if any(np.shares_memory(x, m) for x in a1):
                bad.append(("a result of %s shares memory with the module attribute %s" % (n, mname),
                            {"fn": "purity sequence", "query": n, "module_attribute": mname}))
                break
        nm = _mutate(r1, i % 3)
        if dist is not None:
            dist["purity_queries"] += 1
            dist["purity_mutations"] += nm
        if _snapshot(r2) != base[n]:
            bad.append(("writing into one result of %s changed another result of the same call" % n,
                        {"fn": "purity sequence", "mutated": n, "then": n + " (earlier result)"}))
        # after the write: the same question, its neighbours, and a rotating selection of all others
        follow = [n] + [names[(i + k) % len(names)] for k in (1, 2, 3, 7, 11)] + \
                 [m_ for m_ in names if m_.startswith(("trace_header(1", "adc_shifts(1", "geometry_from_meta(NP1,enc0,sort=True",
                                                       "geometry_from_meta(no table"))]
        for m_ in dict.fromkeys(follow):
            if dist is not None:
                dist["purity_followups"] += 1
            try:
                now = _snapshot(q[m_]())
            except Exception as e:
                now = ("raised", repr(e))
            if now != base[m_]:
                bad.append(("after writing in place (%s) into every array returned by %s, %s answers differently" % (
                    ["+= 384", "fill(7)", "reverse sort, *= 3"][i % 3], n, m_),
                    {"fn": "purity sequence", "mutated": n, "how": i % 3, "then": m_,
                     "now": str(now)[:200]}))
                break
    return bad


def run_purity(ctx, dist, tdir):
    d = {"fn": "purity sequence"}
    with guard(ctx, d, "purity sequence"):
        for msg, dd in purity_failures(ctx, tdir, dist)[:20]:
            ctx.fail(msg, dd, {"clause": "purity"})
    return 0        # implementation-only sequences: counted in input_distribution, not as model evaluations


def replay(ctx, data):
    inp = data.get("input") or (data.get("correspondence_disagreements") or [{}])[0].get("input")
    if not inp:
        print(json.dumps(data, indent=1)[:3000])
        return 1
    if inp.get("fn") == "geometry_from_meta(read_meta_data(file))":
        import spikeglx
        tdir = common.tmpdir("C08_")
        try:
            f = tdir / "r.ap.meta"
            f.write_bytes(inp["text"].encode("ascii"))
            srt = bool(inp.get("sort", True))
            try:
                g, inds = spikeglx.geometry_from_meta(spikeglx.read_meta_data(f), return_index=True, sort=srt)
                if g is None:
                    out = [2]
                else:
                    cg = canon_geom(g, inp["gen"])
                    out = [3] if (BAD in cg["row"] or BAD in cg["col"]) else [1] + flat_geom(cg) + ints(inds)
            except Exception as e:
                print("implementation raised", repr(e))
                out = [0]
            print("file text:", repr(inp["text"])[:1500])
            print("implementation (flat):", out[:60])
            ids = common.coq_mismatches(PROP, HEADER, [common.flat_cases_term(
                0, [5, 1 if srt else 0] + [ord(c) for c in inp["text"]], out)])
            print("kernel-evaluated model agrees with implementation:", not ids)
            return 1 if ids else 0
        finally:
            shutil.rmtree(tdir, ignore_errors=True)
    if inp.get("fn") == "purity sequence":
        tdir = common.tmpdir("C08_")
        try:
            bad = purity_failures(ctx, tdir)
            print("recorded sequence:", inp)
            for msg, dd in bad[:10]:
                print("FAILS:", msg)
            print("purity sequences failing now:", len(bad))
            return 1 if bad else 0
        finally:
            shutil.rmtree(tdir, ignore_errors=True)
    if inp.get("fn") == "_map_channels_from_meta":
        out = parse_impl(inp["text"], inp["key"])
        print("text:", repr(inp["text"]))
        print("implementation:", out)
        ids = common.coq_mismatches(PROP, HEADER, [common.flat_cases_term(
            0, [4] + [ord(c) for c in inp["text"]], out)])
        print("kernel-evaluated model agrees with implementation:", not ids)
        return 1 if ids else 0
    if "sites" not in inp:
        print("input:", inp)
        print("re-run the call named in the input on the implementation (harness/pC08.py run_layouts)")
        return 1
    rng = ctx.rng
    case = make_case(rng, 0, inp["gen"], [tuple(s) for s in inp["sites"]], inp["enc"], inp.get("split"),
                     template=inp.get("template"), type_code=inp.get("type_code"),
                     **{k: inp[k] for k in ("subset_text", "orig_channels", "nsaved", "row_scale") if k in inp})
    if inp.get("row_scale"):        # NPultra geometry map: entries are (shank, 6*col, 6*row, flag)
        case["entries"] = [[s_[0], 6 * s_[1], 6 * s_[2], s_[3]] for s_ in inp["sites"]]
    tdir = common.tmpdir("C08_")
    try:
        try:
            obs = run_geometry(case, tdir)
        except Exception as e:
            print("implementation raised:", repr(e))
            return 1
        bad = oracle_geometry(case, obs)
        print("metadata map line:", map_text(case["gen"], case["enc"], case["entries"])[:400] if case["enc"] != 2
              else "(none)")
        for srt in (False, True):
            g, inds = obs[("gfm", srt)]
            print("implementation sort=%s:" % srt, {k: v[:12] for k, v in g.items()}, "index", inds[:12])
        print("property clauses failing on the implementation:", bad)
        terms = [common.flat_cases_term(i, enc_case_input(case, srt),
                                        [1] + flat_geom(obs[("gfm", srt)][0]) + obs[("gfm", srt)][1])
                 for i, srt in enumerate((False, True))]
        ids = common.coq_mismatches(PROP, HEADER, terms)
        print("kernel-evaluated model agrees with implementation:", not ids)
        return 1 if (bad or ids) else 0
    finally:
        shutil.rmtree(tdir, ignore_errors=True)
