"""C16 — ibldsp.voltage.saturation: proofs in coq/C16, bit-exact correspondence of the
flags (Flocq binary32/binary64 model) and exact-rational correspondence of the mute."""
import json
import math
import re
import shutil
import warnings
from pathlib import Path
from fractions import Fraction

import numpy as np
import scipy.signal

import common

PROP = "C16"
HEADER = ("From Coq Require Import ZArith List.\nImport ListNotations.\n"
          "From IBL.C16 Require Import Run.")
WHITELIST = sorted(common.STDLIB_AXIOMS)
TRUSTED = [
    "Coq 8.16.1 kernel + vm_compute (no native_compute); Flocq 4.1 BinarySingleNaN as the meaning of "
    "IEEE-754 binary32/binary64 round-to-nearest-even operations",
    "hand-written model coq/C16/Model.v of ibldsp.voltage.saturation, tied to /repo/src by this run's "
    "correspondence (flags bit-exact, mute within 2^-36 of the exact rational value)",
    "NumPy promotion rules as modelled: Python-float operands (0.98, fs, v_per_sec) are rounded to the "
    "array dtype; np.mean of booleans divides in float64; comparisons between dtypes are exact",
    "metadata layer (read_meta_data, _get_max_int_from_meta, IMRO scanner, _conversion_sample2v_from_meta, "
    "Reader.sample2volts): C09's model coq/C09/Model.v, imported, run on the very .meta text; the float32/float64 "
    "arithmetic of sample2volts/range_volts is modelled in coq/C16/Range.v (float('m.dd') = one correctly rounded "
    "division of exact integers) and validated bit-exactly by the correspondence",
    "scipy.signal.windows.cosine(M) enters the run instance as data (the float64 taps of the very call) "
    "and the theorems as a list of taps with hypotheses 0 <= w_k and, for odd M, centre tap = 1",
    "scipy.signal.convolve(mode='same') is modelled as the centred slice of the full linear convolution "
    "(validated by the correspondence, including ns < M)",
    "harness/pC16.py generator, canonicaliser and oracle; NumPy scalar operations as arithmetic oracle "
    "for single IEEE operations in the oracle",
    "extraction (Require Extraction, ExtrOcamlBasic only), harness/driver.ml, ocamlfind ocamlopt; a sample "
    "of the same cases is re-evaluated by the kernel (vm_compute)",
]
INF_E = 100000
NAN_E = 100001
TOL_BITS = 36           # mute tolerance 2^-36 ~ 1.5e-11 (rounding noise of <= 11 float64 additions ~ 1e-15)


# --------------------------------------------------------------------------
# float <-> exact (m, e)
# --------------------------------------------------------------------------
def fme(x):
    x = float(x)
    if math.isinf(x):
        return (1 if x > 0 else -1, INF_E)
    if x != x:
        return (0, NAN_E)
    if x == 0.0:
        return (0, 0)
    m, e = math.frexp(x)
    mi = int(m * (1 << 53))
    e -= 53
    tz = (mi & -mi).bit_length() - 1
    return (mi >> tz, e + tz)


def hexlist(a):
    return [float(v).hex() for v in np.asarray(a, dtype=np.float64).ravel()]     # 'nan' for NaN


# --------------------------------------------------------------------------
# a case
# --------------------------------------------------------------------------
MV_KINDS = ("pyfloat", "pyint", "f32scalar", "f32array", "f64array", "pylist", "badlen", "oddbroadcast")


class Case:
    """data: ndarray [nc, ns] float32/float64; mv: value as passed to saturation()."""

    reader = False
    long = False

    def __init__(self, data, mv_kind, mv_vals, vps, fs, prop, M, origin, calls=1):
        self.layout = (int(np.asarray(data).size) + int(M)) % 2      # deterministic mix of memory layouts
        self.calls = calls          # > 1: the SAME max_voltage object is passed to that many consecutive calls
        self.data = np.ascontiguousarray(data)
        self.mv_kind, self.mv_vals = mv_kind, [float(v) for v in mv_vals]
        self.vps, self.fs, self.prop, self.M, self.origin = float(vps), fs, float(prop), int(M), origin

    def mv_arg(self):
        k, v = self.mv_kind, self.mv_vals
        if k == "pyfloat":
            return float(v[0])
        if k == "pyint":
            return int(v[0])
        if k == "f32scalar":
            return np.float32(v[0])
        if k == "f32array":
            return np.array(v, dtype=np.float32)
        if k in ("f64array", "badlen", "oddbroadcast", "nometa"):
            return np.array(v, dtype=np.float64)
        if k == "pylist":
            return list(v)
        raise ValueError(k)

    def mv_dtype(self):
        return np.float32 if self.mv_kind in ("f32scalar", "f32array") else np.float64

    def mv_array(self):
        return np.array(self.mv_vals, dtype=self.mv_dtype())

    def describe(self):
        return {"dtype": str(self.data.dtype), "shape": list(self.data.shape), "data_hex": hexlist(self.data),
                "mv_kind": self.mv_kind, "mv_hex": [float(v).hex() for v in self.mv_vals],
                "v_per_sec": self.vps.hex(), "fs": self.fs, "proportion": self.prop.hex(),
                "mute_window_samples": self.M, "origin": self.origin, "calls": self.calls}

    @staticmethod
    def from_description(d):
        data = np.array([float.fromhex(h) for h in d["data_hex"]], dtype=np.float64)
        data = data.reshape(d["shape"]).astype(np.dtype(d["dtype"]))
        return Case(data, d["mv_kind"], [float.fromhex(h) for h in d["mv_hex"]],
                    float.fromhex(d["v_per_sec"]), d["fs"], float.fromhex(d["proportion"]),
                    d["mute_window_samples"], d.get("origin", "replay"), calls=d.get("calls", 1))

    def n_exact(self, out):
        """length of the part of the flat output that is compared exactly (header + flags)"""
        return 2 + self.data.shape[1]

    s_index = 12

    def tags(self, clause):
        return {"clause": clause, "mute_window_parity": "even" if self.M % 2 == 0 else "odd"}


def window_fixed(M):
    """The taps of the very SciPy call, as integers w_k * 2^s (exact)."""
    w = scipy.signal.windows.cosine(M)
    fr = [Fraction(float(v)) for v in w]
    s = 56                 # the extracted model's I/O is limited to |values| < 2^62
    while any((f * (1 << s)).denominator != 1 for f in fr):
        s += 1
    assert s <= 61, "window taps need more than 61 fractional bits"
    return w, [int(f * (1 << s)) for f in fr], s


def enc_inp(c):
    nc, ns = c.data.shape
    fd = 0 if c.data.dtype == np.float32 else 1
    fm = 0 if c.mv_dtype() == np.float32 else 1
    _, wi, s = window_fixed(c.M)
    out = [fd, fm, nc, ns, len(c.mv_vals)]
    out += list(fme(float(c.fs))) + list(fme(c.vps)) + list(fme(c.prop)) + [c.M, s] + wi
    for v in c.mv_array():
        out += list(fme(v))
    for v in c.data.ravel().tolist():
        out += list(fme(v))
    return out


class _Timeout(Exception):
    pass


DEFAULTS = {"v_per_sec": 1e-8, "fs": 30000, "proportion": 0.2, "mute_window_samples": 7}


def call_saturation(saturation, c, data, mv, k=0):
    """Three call styles, chosen deterministically per case: every argument by keyword (as
    decompress_destripe_cbin does), all positional, or positional data/max_voltage + keywords.  A parameter
    whose value equals the documented default is NOT passed, so the defaults themselves are exercised."""
    vals = {"v_per_sec": c.vps, "fs": c.fs, "proportion": c.prop, "mute_window_samples": c.M}
    style = (c.layout + c.M + c.data.shape[0] + k) % 3
    if style == 1:
        return saturation(data, mv, c.vps, c.fs, c.prop, c.M)
    kw = {n: v for n, v in vals.items() if not (type(v) is type(DEFAULTS[n]) and v == DEFAULTS[n])}
    if style == 0:
        return saturation(data=data, max_voltage=mv, **kw)
    return saturation(data, mv, **kw)


def _alarm(signum, frame):
    raise _Timeout("implementation call exceeded its time limit (%d s)" % IMPL_TIMEOUT_S[0])


# a normal call takes milliseconds; after the first time-out the limit drops so that a hanging
# implementation cannot stall the check (every further hang is still recorded as a failure)
IMPL_TIMEOUT_S = [60]


def validate_return(c, ret, data, mv):
    """The implementation must return (flags, mute): two 1-D ndarrays of ns entries, bool and floating,
    mute finite, neither sharing memory with the caller's arrays.  Returns (flags, mute) or a message."""
    ns = c.data.shape[1]
    if not isinstance(ret, tuple) or len(ret) != 2:
        return "saturation returned %s instead of a (flags, mute) pair" % (type(ret).__name__,)
    fl, mu = ret
    for name, a in (("flags", fl), ("mute", mu)):
        if not isinstance(a, np.ndarray):
            return "%s is a %s, not a numpy array" % (name, type(a).__name__)
        if a.ndim != 1 or a.shape[0] != ns:
            return "%s has shape %s for ns=%d" % (name, a.shape, ns)
        if np.shares_memory(a, data) or (isinstance(mv, np.ndarray) and np.shares_memory(a, mv)):
            return "%s shares memory with an argument of the caller" % name
    if fl.dtype != np.bool_:
        return "flags have dtype %s, not bool" % fl.dtype
    if mu.dtype.kind != "f":
        return "mute has dtype %s, not floating" % mu.dtype
    if not bool(np.all(np.isfinite(mu))):
        return "mute contains non-finite values"
    return fl, np.asarray(mu, dtype=np.float64)


def impl_observe(c):
    """Run the real function.  Returns
         ("ok", flags, mute, side)   well-formed return value (see validate_return)
         ("raise", exception)        the call raised (any exception type, or timed out)
         ("malformed", message)      it returned something that is not (bool[ns], float[ns])
    With c.calls > 1 the same max_voltage object is handed to consecutive calls (a batch loop re-using
    its range array) and the LAST call is the observation; side lists violated side conditions
    (the caller's range array / data must not be modified)."""
    import signal
    side = []
    old = signal.signal(signal.SIGALRM, _alarm)
    signal.alarm(IMPL_TIMEOUT_S[0])
    try:
        with warnings.catch_warnings():
            warnings.simplefilter("ignore")
            try:
                from ibldsp.voltage import saturation
                mv = c.mv_arg()
                side += list(getattr(c, "reader_side", []))
                keep = np.array(mv, copy=True) if isinstance(mv, np.ndarray) else None
                for k in range(c.calls):
                    # C-contiguous copy, or the transposed view of an [ns, nc] array (what destripe passes)
                    data = c.data.copy() if (c.layout + k) % 2 == 0 else np.ascontiguousarray(c.data.T).T
                    ret = call_saturation(saturation, c, data, mv, k)
                    if not (data.shape == c.data.shape and np.array_equal(data, c.data, equal_nan=True)):
                        side.append(("caller_data_modified", "saturation modified the caller's data array"))
                if keep is not None and not (isinstance(mv, np.ndarray) and keep.shape == mv.shape
                                             and np.array_equal(keep, mv, equal_nan=True)):
                    side.append(("caller_range_modified", "saturation modified the caller's max_voltage array "
                                 "(%r -> %r)" % (keep.ravel()[:3].tolist(), np.asarray(mv).ravel()[:3].tolist())))
                val = validate_return(c, ret, data, mv)
            except BaseException as e:    # any exception is an observation (the oracle decides), never a crash
                if isinstance(e, KeyboardInterrupt):
                    raise
                if isinstance(e, _Timeout):
                    IMPL_TIMEOUT_S[0] = 2
                return ("raise", e)
    finally:
        signal.alarm(0)
        signal.signal(signal.SIGALRM, old)
    if isinstance(val, str):
        return ("malformed", val, side)
    return ("ok", val[0], val[1], side)


def enc_out(c, obs):
    if obs[0] == "raise":
        return [0]
    if obs[0] != "ok":
        return [-777]
    _, _, s = window_fixed(c.M)
    fl, mu = obs[1], obs[2]
    return [1, len(fl)] + [int(bool(b)) for b in fl] + \
        [int(round(Fraction(float(v)) * (1 << s))) for v in mu]


# --------------------------------------------------------------------------
# the property's predicate, evaluated on the implementation's outputs
# --------------------------------------------------------------------------
def expected_flags(c):
    """The rule of the property, sample by sample, with each boundary decided by ONE IEEE
    operation on NumPy scalars of the dtype involved: |x| > mv*0.98 (strict), count/nc >
    proportion (strict, float64), |x[j+1]-x[j]|/fs >= v_per_sec (the source's non-strict
    reading of 'exceeds the slew limit'), last sample: voltage rule only."""
    nc, ns = c.data.shape
    dt = c.data.dtype.type
    mv = c.mv_array()
    thr = mv * mv.dtype.type(0.98)
    if len(thr) == 1:
        thr = np.repeat(thr, nc)
    p = np.float64(c.prop)
    fs, vps = dt(c.fs), dt(c.vps)
    out = []
    for j in range(ns):
        col = c.data[:, j]
        cv = int(np.count_nonzero(np.abs(col) > thr))
        f = bool(np.float64(cv) / np.float64(nc) > p)
        if j + 1 < ns:
            d = c.data[:, j + 1] - col
            cs = int(np.count_nonzero(np.abs(d) / fs >= vps))
            f = f or bool(np.float64(cs) / np.float64(nc) > p)
        else:
            f = f or bool(np.float64(0.0) > p)
        out.append(f)
    return out


def oracle(c, obs):
    """list of (clause, message)."""
    bad = []
    nc, ns = c.data.shape
    if obs[0] == "raise":
        return [("raises", "saturation raised %r on a well-formed input" % (obs[1],))]
    if obs[0] == "malformed":
        return [("malformed_return", obs[1])] + list(obs[2])
    fl, mu = obs[1], obs[2]
    with warnings.catch_warnings():
        warnings.simplefilter("ignore")
        exp = expected_flags(c)
    wrong = [j for j in range(ns) if bool(fl[j]) != exp[j]]
    if wrong:
        bad.append(("flags_rule", "flag at sample %d is %s, the proportion rule gives %s"
                    % (wrong[0], bool(fl[wrong[0]]), exp[wrong[0]])))
    return bad + list(obs[3]) + oracle_mute(c, obs)


def oracle_mute(c, obs):
    """the mute clauses of the property, on the implementation's (flags, mute)"""
    bad = []
    fl, mu = obs[1], obs[2]
    ns = len(fl)
    M = c.M
    if not bool(np.all((mu >= 0) & (mu <= 1))):
        bad.append(("mute_range", "mute leaves [0,1]: min %r max %r" % (float(mu.min()), float(mu.max()))))
    idx = np.flatnonzero(fl)
    nz = [int(j) for j in idx if mu[j] != 0.0]
    if nz:
        bad.append(("mute_zero_on_flag", "mute is %r (not 0) on flagged sample %d" % (float(mu[nz[0]]), nz[0])))
    # 1 farther than the taper half-width M/2 from every flagged sample
    for j in range(ns):
        far = idx.size == 0 or 2 * int(np.min(np.abs(idx - j))) > M
        if far and mu[j] != 1.0:
            bad.append(("mute_one_far", "mute is %r (not 1) at sample %d, farther than M/2 from every flag"
                        % (float(mu[j]), j)))
            break
    # a function of the flags alone: max(0, 1 - sum_k w_k * flag[j + (M-1)//2 - k]) in exact arithmetic
    # (skipped where F-C16-a has been repaired: the faithful formula is then no longer the reference)
    w = [Fraction(float(v)) for v in scipy.signal.windows.cosine(M)]
    h = (M - 1) // 2
    for j in ([] if repaired_even(c, obs) else range(ns)):
        sacc = Fraction(0)
        for k in range(M):
            t = j + h - k
            if 0 <= t < ns and fl[t]:
                sacc += w[k]
        want = max(Fraction(0), 1 - sacc)
        if abs(Fraction(float(mu[j])) - want) > Fraction(1, 1 << TOL_BITS):
            bad.append(("mute_flags_only", "mute at sample %d is %r, the flags alone give %r"
                        % (j, float(mu[j]), float(want))))
            break
    return bad


EVEN_REPAIRED = [False]     # decided once per run from all even-window cases, see even_windows_repaired()


def even_defect_exercised(c, obs):
    """even window and the defective formula leaves a non-zero gain on some flagged sample"""
    if c.M % 2 == 1 or obs[0] != "ok":
        return False
    fl = obs[1]
    ns = len(fl)
    w = scipy.signal.windows.cosine(c.M)
    h = (c.M - 1) // 2
    return any(sum(w[k] for k in range(c.M) if 0 <= j + h - k < ns and fl[j + h - k]) < 1.0
               for j in np.flatnonzero(fl))


def even_windows_repaired(cases, observations):
    """Region of the known finding F-C16-a.  True when, on EVERY case of this run where the
    defective formula would leave a non-zero gain on a flagged sample, the implementation has gain
    0 on all flagged samples: the defect has been repaired.  Even-window mutes are then checked by
    the property clauses only (range, zero on flags, one far away, mirrored input), not against
    the faithful model / formula."""
    ex = [(c, o) for c, o in zip(cases, observations) if even_defect_exercised(c, o)]
    return bool(ex) and all(not np.any(o[2][np.flatnonzero(o[1])] != 0.0) for c, o in ex)


def repaired_even(c, obs):
    return EVEN_REPAIRED[0] and c.M % 2 == 0 and obs[0] == "ok"


def metamorphic(c, obs):
    """Same flags from different voltages (all signs flipped, channels reversed) must give
    the same flags and bit-identical mute."""
    if obs[0] != "ok" or c.mv_kind in ("badlen", "oddbroadcast"):
        return []
    c2 = Case(-c.data[::-1, :], c.mv_kind, c.mv_vals[::-1], c.vps, c.fs, c.prop, c.M, c.origin)
    o2 = impl_observe(c2)
    if o2[0] != "ok":
        return [("raises", "saturation raised %r on the mirrored input" % (o2[1],))]
    if not np.array_equal(o2[1], obs[1]):
        return [("flags_rule", "flags change when channels are reversed and all signs flipped")]
    if not np.array_equal(o2[2], obs[2]):
        return [("mute_flags_only", "mute differs between two inputs with identical flags")]
    return []


# --------------------------------------------------------------------------
# generators
# --------------------------------------------------------------------------
PROPS = [0.2, 0.2, 0.2, 0.1, 0.25, 0.5, 1 / 3, 0.05, 0.9, 0.0, 1.0, 0.75]
NCS = [1, 2, 3, 4, 5, 6, 7, 8, 9, 10, 12, 15, 16, 20, 25, 32, 40, 64, 100, 384, 385, 399, 400]


def near(dt, x, k):
    """x moved k ulps (k may be negative) in dtype dt."""
    x = dt(x)
    for _ in range(abs(k)):
        x = np.nextafter(x, dt(np.inf) if k > 0 else dt(-np.inf))
    return x


def counts_near(rng, p, nc):
    b = int(math.floor(p * nc))
    cand = {b - 1, b, b + 1, b + 2, 0, nc, int(math.ceil(p * nc))}
    return [x for x in sorted(cand) if 0 <= x <= nc]


def flag_pattern(rng, ns):
    """Target pattern of events: isolated, runs touching the ends, adjacent runs."""
    kind = rng.choice(["isolated", "start", "end", "both_ends", "adjacent", "random", "none", "all", "gap1"])
    f = [False] * ns
    if ns == 0:
        return f
    if kind == "isolated":
        f[rng.randrange(ns)] = True
    elif kind == "start":
        for j in range(rng.randrange(1, min(ns, 4) + 1)):
            f[j] = True
    elif kind == "end":
        for j in range(rng.randrange(1, min(ns, 4) + 1)):
            f[ns - 1 - j] = True
    elif kind == "both_ends":
        f[0] = f[ns - 1] = True
        if ns > 3 and rng.random() < 0.5:
            f[1] = True
    elif kind in ("adjacent", "gap1"):
        a = rng.randrange(ns)
        gap = 1 if kind == "gap1" else rng.randrange(1, 12)
        for j in range(a, min(ns, a + rng.randrange(1, 4))):
            f[j] = True
        for j in range(min(ns, a + 3 + gap), min(ns, a + 3 + gap + rng.randrange(1, 4))):
            f[j] = True
    elif kind == "random":
        q = rng.random()
        f = [rng.random() < q for _ in range(ns)]
    elif kind == "all":
        f = [True] * ns
    return f


def pick_mv(rng, dt, nc, allow_int=True):
    kinds = ["pyfloat", "f32scalar", "f32array", "f64array", "pylist"] + (["pyint"] if allow_int else [])
    kind = rng.choice(kinds)
    base = rng.choice([0.6, 1.2, 0.0005859375, 1.0, 0.3, 5e-3, 32768 * 2.34375e-6, 2.0 ** -7])
    if kind == "pyint":
        return kind, [float(rng.choice([1, 2, 3, 512, 32767]))]
    if kind in ("pyfloat", "f32scalar"):
        v = base * rng.choice([1.0, 1.0, 1 + rng.random()])
        return kind, [float(np.float32(v)) if kind == "f32scalar" else v]
    vals = [base * rng.choice([1.0, 0.5, 2.0, 1 + rng.random()]) for _ in range(nc)]
    if kind == "f32array":
        vals = [float(np.float32(v)) for v in vals]
    return kind, vals


def gen_voltage_lattice(rng, nc, ns, M):
    """Voltage rule in isolation: the slew limit is out of reach; every sample gets a count of
    channels strictly above the threshold chosen just below / at / above proportion*nc, the
    other channels sit exactly on the threshold, one ulp below it, or low."""
    dt = rng.choice([np.float32, np.float64])
    p = rng.choice(PROPS)
    kind, mvv = pick_mv(rng, dt, nc)
    c = Case(np.zeros((nc, ns), dtype=dt), kind, mvv, 1e30 if dt == np.float64 else 1e25, 30000, p, M, "voltage_lattice")
    mv = c.mv_array()
    thr = mv * mv.dtype.type(0.98)
    thr = np.repeat(thr, nc) if len(thr) == 1 else thr
    pat = flag_pattern(rng, ns)
    cn = counts_near(rng, p, nc)
    lim = p * nc
    hi = [x for x in cn if x / nc > p] or [nc]
    lo = [x for x in cn if not (x / nc > p)] or [0]
    data = np.zeros((nc, ns), dtype=dt)
    for j in range(ns):
        cnt = rng.choice(hi if pat[j] else lo)
        chans = list(range(nc))
        rng.shuffle(chans)
        for i, ch in enumerate(chans):
            t = thr[ch]
            # smallest data-dtype value strictly above t, largest value <= t
            above = dt(t)
            while not (above > t):
                above = np.nextafter(above, dt(np.inf))
            at = dt(t)
            while at > t:
                at = np.nextafter(at, dt(-np.inf))
            if i < cnt:
                v = rng.choice([above, above, near(dt, above, 1), dt(above * dt(1.5)), dt(mv[ch % len(mv)])])
                if not (abs(v) > t):
                    v = above
            else:
                v = rng.choice([at, at, near(dt, at, -1), dt(0), dt(at * dt(0.5))])
            data[ch, j] = v if rng.random() < 0.5 else -v
    _ = lim
    c.data = data
    return c


def slew_limit(dt, fs, vps):
    """smallest d >= 0 in dtype dt with d / fs >= vps (both rounded to dt)."""
    fsd, vd = dt(fs), dt(vps)
    d = dt(vd * fsd)
    while d / fsd >= vd and d > 0:
        d = np.nextafter(d, dt(-np.inf))
    while not (d / fsd >= vd):
        d = np.nextafter(d, dt(np.inf))
    return d


def gen_slew_lattice(rng, nc, ns, M):
    """Slew rule in isolation: full scale out of reach; between consecutive samples a chosen
    number of channels jumps by exactly the limit or more, the others one ulp less or little."""
    dt = rng.choice([np.float32, np.float64])
    p = rng.choice(PROPS)
    fs = rng.choice([30000, 30000, 2500, 30000.0, 1, 32768])
    vps = rng.choice([1e-8, 1e-8, 3e-9, 2.0 ** -20, 1e-6, 0.1])
    c = Case(np.zeros((nc, ns), dtype=dt), rng.choice(["pyfloat", "f64array"]), [1e6], vps, fs, p, M, "slew_lattice")
    if c.mv_kind == "f64array":
        c.mv_vals = [1e6] * nc
    dmin = slew_limit(dt, fs, vps)
    pat = flag_pattern(rng, max(ns - 1, 0))
    cn = counts_near(rng, p, nc)
    hi = [x for x in cn if x / nc > p] or [nc]
    lo = [x for x in cn if not (x / nc > p)] or [0]
    data = np.zeros((nc, ns), dtype=dt)
    for j in range(ns - 1):
        cnt = rng.choice(hi if pat[j] else lo)
        chans = list(range(nc))
        rng.shuffle(chans)
        for i, ch in enumerate(chans):
            if i < cnt:
                d = rng.choice([dmin, dmin, near(dt, dmin, 1), dt(dmin * dt(3))])
            else:
                d = rng.choice([near(dt, dmin, -1), near(dt, dmin, -1), dt(0), dt(dmin * dt(0.25))])
            x = data[ch, j]
            if x != 0 and rng.random() < 0.6:
                y = dt(0) if abs(x) == d else (dt(x - d) if x > 0 else dt(x + d))
                # keep the intended side of the limit after rounding of the subtraction
                if (abs(dt(y - x)) / dt(fs) >= dt(vps)) != (i < cnt):
                    y = dt(x + d) if x > 0 else dt(x - d)
            else:
                y = dt(x + d) if rng.random() < 0.5 else dt(x - d)
            data[ch, j + 1] = y
    c.data = data
    return c


def gen_random(rng, nc, ns, M):
    """Realistic mix: both rules active, random voltages around the thresholds."""
    dt = rng.choice([np.float32, np.float64])
    p = rng.choice(PROPS)
    kind, mvv = pick_mv(rng, dt, nc)
    fs = rng.choice([30000, 2500, 30000.0])
    vps = rng.choice([1e-8, 1e-5, 2e-5, 1e-4])
    nprng = np.random.default_rng(rng.randrange(1 << 32))
    mvmean = float(np.mean(mvv))
    base = nprng.normal(0, mvmean * 0.02, size=(1, ns)) + nprng.normal(0, mvmean * 0.002, size=(nc, ns))
    pat = flag_pattern(rng, ns)
    for j in range(ns):
        if pat[j]:
            frac = rng.choice([p * 0.5, p, min(1.0, p * 1.5), 1.0])
            sel = nprng.random(nc) < frac
            base[sel, j] = mvmean * nprng.choice([0.97, 0.979, 0.981, 1.0, -1.0, -0.985], size=int(sel.sum()))
    return Case(base.astype(dt), kind, mvv, vps, fs, p, M, "random")


def gen_tiny(rng, M):
    """Small arrays over a lattice of values around one threshold (dense coverage of shapes)."""
    dt = rng.choice([np.float32, np.float64])
    nc, ns = rng.randrange(1, 5), rng.randrange(0, 7)
    p = rng.choice([0.2, 0.5, 0.25, 0.0, 1 / 3])
    kind, mvv = pick_mv(rng, dt, nc)
    mv = Case(np.zeros((1, 1), dtype=dt), kind, mvv, 1, 1, p, M, "").mv_array()
    t = (mv * mv.dtype.type(0.98))[0]
    vps, fs = rng.choice([(1e-8, 30000), (float(t) / 4, 2), (1e30, 1)])
    lat = [dt(0), dt(t), near(dt, dt(t), 1), near(dt, dt(t), -1), dt(t / 2), near(dt, dt(t), 2)]
    data = np.array([[rng.choice(lat) * rng.choice([1, -1]) for _ in range(ns)] for _ in range(nc)],
                    dtype=dt).reshape(nc, ns)
    return Case(data, kind, mvv, vps, fs, p, M, "tiny")


# --------------------------------------------------------------------------
# third anchor: max_voltage = spikeglx.Reader.range_volts[:nc - nsync]
# --------------------------------------------------------------------------
FIXTURES = {
    "np1_3a_ap": ("sample3A_g0_t0.imec.ap.meta", "c16_g0_t0.imec.ap.meta"),
    "np1_3b_ap": ("sample3B_g0_t0.imec1.ap.meta", "c16_g0_t0.imec1.ap.meta"),
    "np1_3b_lf": ("sample3B_g0_t0.imec1.lf.meta", "c16_g0_t0.imec1.lf.meta"),
    "np21_ap": ("sampleNP2.1_g0_t0.imec.ap.meta", "c16_g0_t0.imec0.ap.meta"),
    "np24_ap": ("sampleNP2.4_4shanks_g0_t0.imec.ap.meta", "c16_g0_t0.imec0.ap.meta"),
    "ultra_ap": ("sampleNPultra_g0_t0.imec0.ap.meta", "c16_g0_t0.imec0.ap.meta"),
    "nidq": ("sample3B_g0_t0.nidq.meta", "c16_g0_t0.nidq.meta"),
}
NP1_GAINS = [50, 125, 250, 500, 1000, 1500, 2000, 3000]


def fixture_text(kind):
    f = Path(common.REPO) / "src" / "tests" / "fixtures" / FIXTURES[kind][0]
    return f.read_bytes().decode("utf-8")


def synth_meta(rng, kind):
    """A fixture .meta with harness-chosen IMRO gains / range / maxint.  Returns (text, per-channel
    TRUE full scale as exact Fractions for the voltage channels of the stream: range / gain)."""
    text = fixture_text(kind)
    rmax = rng.choice(["0.6", "0.6", "1.2", "0.5", "0.62"])
    if kind == "nidq":
        mn, ma = rng.choice([(200, 1), (100, 2), (1, 1)])
        text = re.sub(r"niMNGain=[^\r\n]*", "niMNGain=%d" % mn, text)
        text = re.sub(r"niMAGain=[^\r\n]*", "niMAGain=%d" % ma, text)
        text = re.sub(r"snsMnMaXaDw=[^\r\n]*", "snsMnMaXaDw=2,3,1,1", text)
        text = re.sub(r"nSavedChans=[^\r\n]*", "nSavedChans=7", text)
        text = re.sub(r"niAiRangeMax=[^\r\n]*", "niAiRangeMax=5", text)
        fs = [Fraction(5, mn)] * 2 + [Fraction(5, ma)] * 3 + [Fraction(5)]
        return text, fs
    text = re.sub(r"imAiRangeMax=[^\r\n]*", "imAiRangeMax=" + rmax, text)
    r = Fraction(rmax)
    if kind in ("np21_ap", "np24_ap"):
        mi = rng.choice(["8192", "8192", "2048"])
        text = re.sub(r"imMaxInt=[^\r\n]*", "imMaxInt=" + mi, text)
        return text, [r / 80] * 384
    if kind == "ultra_ap" and rng.random() < 0.5:
        text = re.sub(r"imMaxInt=[^\r\n]*", "imMaxInt=512", text)
    # non-uniform gains: blocks, alternating, random from the legal set, only channel 0 different, uniform
    layout = rng.choice(["halves", "thirds", "alternate", "random2", "random", "first_differs", "uniform"])
    g2 = rng.sample(NP1_GAINS, 3)

    def gain_pair(ch):
        if layout == "halves":
            a = g2[0] if ch < 192 else g2[1]
        elif layout == "thirds":
            a = g2[min(2, ch // 128)]
        elif layout == "alternate":
            a = g2[ch % 2]
        elif layout == "random2":
            a = g2[gp_rand[ch] % 2]
        elif layout == "random":
            a = NP1_GAINS[gp_rand[ch] % len(NP1_GAINS)]
        elif layout == "first_differs":
            a = g2[0] if ch == 0 else g2[1]
        else:
            a = g2[0]
        return a, NP1_GAINS[(NP1_GAINS.index(a) + 3) % len(NP1_GAINS)]
    gp_rand = [rng.randrange(1 << 16) for _ in range(384)]
    line = re.search(r"~imroTbl=([^\r\n]*)", text).group(1)
    header = line[:line.index(")") + 1]
    entries = re.findall(r"\(([0-9 ]+)\)", line[len(header):])
    assert len(entries) == 384, len(entries)
    new, fs = [], []
    want_lf = kind.endswith("_lf")
    for e in entries:
        f = e.split(" ")
        a, l = gain_pair(int(f[0]))
        f[3], f[4] = str(a), str(l)
        new.append("(" + " ".join(f) + ")")
        fs.append(r / (l if want_lf else a))
    text = text.replace("~imroTbl=" + line, "~imroTbl=" + header + "".join(new))
    return text, fs


class ReaderCase(Case):
    """saturation(data, max_voltage=Reader(meta).range_volts[:nc - nsync], fs=Reader.fs) as
    decompress_destripe_cbin calls it; the .meta text is harness-synthesised."""
    reader = True
    s_index = 10

    def __init__(self, kind, text, true_fs, data, vps, prop, M, origin):
        Case.__init__(self, data, "reader", [], vps, 0.0, prop, M, origin)
        self.kind, self.text, self.true_fs = kind, text, true_fs
        self.rv = None

    def mv_arg(self):
        import logging
        import spikeglx
        logging.getLogger("ibllib").setLevel(logging.ERROR)
        d = common.tmpdir("C16_meta_")
        try:
            f = d / FIXTURES[self.kind][1]
            f.write_bytes(self.text.encode("utf-8"))
            self.reader_side = []
            sr = spikeglx.Reader(f)
            self.fs = float(sr.fs)
            ncv = int(sr.nc) - int(sr.nsync)
            s2v0 = np.array(sr.sample2volts, copy=True)
            first = sr.range_volts
            if not isinstance(first, np.ndarray):
                self.reader_side.append(("range_volts", "Reader.range_volts is a %s, not a numpy array"
                                         % type(first).__name__))
            rv = np.array(first, copy=True)
            again = np.array(sr.range_volts, copy=True)
            if not (rv.shape == again.shape and np.array_equal(rv, again)) or \
                    not np.array_equal(s2v0, np.array(sr.sample2volts)):
                self.reader_side.append(("range_volts", "Reader.range_volts changes between two reads / modifies "
                                         "sample2volts (%r then %r)" % (rv.ravel()[:2].tolist(), again.ravel()[:2].tolist())))
            self.rv = rv[:ncv]
        finally:
            shutil.rmtree(d, ignore_errors=True)
        self.mv_vals = [float(v) for v in np.asarray(self.rv, dtype=np.float64).ravel()]
        return self.rv

    def mv_dtype(self):
        return self.rv.dtype.type if (self.rv is not None and self.rv.dtype.kind == "f") else np.float32

    def mv_array(self):
        return np.array(self.rv)

    def n_exact(self, out):
        return len(out) if out[0] != 1 else 1 + 2 + 2 * out[1] + 1 + self.data.shape[1]

    def describe(self):
        d = Case.describe(self)
        d.update({"reader_kind": self.kind, "meta_text": self.text,
                  "true_full_scale": [str(f) for f in self.true_fs]})
        return d

    def tags(self, clause):
        t = Case.tags(self, clause)
        t["reader_kind"] = self.kind
        return t


class NoMetaCase(Case):
    """Reader on a flat binary WITHOUT a .meta file (nc, fs guessed from the file size): range_volts is
    sample2volts * nan, an unknown full scale; the amplitude clause can then never fire, the slew clause
    is unaffected."""

    def __init__(self, nc_file, data, vps, prop, M):
        Case.__init__(self, data, "nometa", [float("nan")] * data.shape[0], vps, 30000, prop, M, "reader_nometa")
        self.nc_file = nc_file

    def mv_arg(self):
        import logging
        import spikeglx
        logging.getLogger("ibllib").setLevel(logging.ERROR)
        d = common.tmpdir("C16_nometa_")
        try:
            f = d / "raw_g0_t0.imec0.ap.bin"
            np.zeros((6, self.nc_file), dtype=np.int16).tofile(f)
            sr = spikeglx.Reader(f)
            try:
                self.fs = sr.fs
                rv = np.array(sr.range_volts, copy=True)[:sr.nc - sr.nsync]
            finally:
                sr.close()
        finally:
            shutil.rmtree(d, ignore_errors=True)
        if rv.shape != (self.data.shape[0],) or rv.dtype.kind != "f" or not bool(np.all(np.isnan(rv))):
            self.reader_side = [("range_volts", "Reader without metadata: range_volts[:nc-nsync] is %r %s, expected %d NaN"
                                 % (rv.shape, rv.dtype, self.data.shape[0]))]
        self.rv_dtype = rv.dtype.type if rv.dtype.kind == "f" else np.float64
        return rv

    def mv_dtype(self):
        return getattr(self, "rv_dtype", np.float64)

    def describe(self):
        d = Case.describe(self)
        d["nometa_nc_file"] = self.nc_file
        return d


def gen_nometa(rng, nc_file, M):
    ncv = 384
    ns = rng.randrange(5, 10)
    dt = rng.choice([np.float32, np.float64])
    p = rng.choice([0.2, 0.1, 0.25])
    data = np.zeros((ncv, ns))
    nprng = np.random.default_rng(rng.randrange(1 << 32))
    for j in range(ns):
        sel = nprng.random(ncv) < rng.choice([0.0, p * 0.5, p * 1.5, 1.0])
        data[sel, j] = rng.choice([1e-3, -2e-3, 5.0, 1e-5])
    return NoMetaCase(nc_file, data.astype(dt), 1e-8, p, M)


def canon_float(x, prec, emin):
    """(mantissa, exponent) as Flocq stores a finite float of the format"""
    x = float(x)
    if x == 0.0:
        return [0, 0]
    if math.isinf(x):
        return [1 if x > 0 else -1, INF_E]
    _, E = math.frexp(x)
    e = max(E - prec, emin)
    m = Fraction(x) / Fraction(2) ** e
    assert m.denominator == 1
    return [int(m), e]


def enc_inp_reader(c):
    ncv, ns = c.data.shape
    fd = 0 if c.data.dtype == np.float32 else 1
    _, wi, s = window_fixed(c.M)
    out = [2, fd, ns] + list(fme(float(c.fs))) + list(fme(c.vps)) + list(fme(c.prop)) + [c.M, s] + wi
    cps = [ord(ch) for ch in c.text]
    out += [len(cps)] + cps
    for v in c.data.ravel().tolist():
        out += list(fme(v))
    return out


def enc_out_reader(c, obs):
    if obs[0] == "raise":
        return [0]
    if obs[0] != "ok" or c.rv is None or c.rv.ndim != 1 or c.rv.dtype.kind != "f" \
            or not bool(np.all(np.isfinite(c.rv))):
        return [-777]
    _, _, s = window_fixed(c.M)
    fl, mu = obs[1], obs[2]
    f32 = c.rv.dtype == np.float32
    out = [1, len(c.rv), 0 if f32 else 1]
    for v in c.rv:
        out += canon_float(v, 24, -149) if f32 else canon_float(v, 53, -1074)
    return out + [len(fl)] + [int(bool(b)) for b in fl] + [int(round(Fraction(float(v)) * (1 << s))) for v in mu]


def oracle_reader(c, obs):
    """Physical truth, exact rationals: full scale of channel c = imAiRangeMax / gain_c (harness-known
    gains); flag j <=> more than proportion of the channels have |x| > 0.98 * full scale, or jump by
    >= v_per_sec * fs into j+1.  The generator keeps every value at least 0.5 % away from each
    boundary, far beyond float32 rounding (6e-8), so this exact rule must be met."""
    if obs[0] == "raise":
        return [("raises", "Reader.range_volts / saturation raised %r" % (obs[1],))]
    if obs[0] == "malformed":
        return [("malformed_return", obs[1])] + list(obs[2])
    bad = []
    fl, mu = obs[1], obs[2]
    ncv, ns = c.data.shape
    rv = c.rv
    if not isinstance(rv, np.ndarray) or rv.ndim != 1 or rv.dtype.kind != "f" or not bool(np.all(np.isfinite(rv))):
        return [("range_volts", "Reader.range_volts[:nc-nsync] is not a finite 1-D float array: %r"
                 % (getattr(rv, "shape", None),))] + list(obs[3])
    if len(c.rv) != ncv or len(c.true_fs) != ncv:
        return [("range_volts", "range_volts[:nc-nsync] has %d entries for %d voltage channels" % (len(c.rv), ncv))]
    rel = [abs(Fraction(float(v)) / t - 1) for v, t in zip(c.rv, c.true_fs)]
    worst = max(range(ncv), key=lambda i: rel[i])
    if rel[worst] > Fraction(1, 10 ** 5):
        bad.append(("range_volts", "Reader.range_volts[%d] = %r V, imAiRangeMax / gain = %r V"
                    % (worst, float(c.rv[worst]), float(c.true_fs[worst]))))
    p = Fraction(c.prop)
    lim = Fraction(c.vps) * Fraction(float(c.fs))
    X = [[Fraction(v) for v in row] for row in c.data.tolist()]
    thr = [Fraction(98, 100) * t for t in c.true_fs]
    exp = []
    for j in range(ns):
        cv = sum(1 for ch in range(ncv) if abs(X[ch][j]) > thr[ch])
        f = Fraction(cv, ncv) > p
        if j + 1 < ns:
            cs = sum(1 for ch in range(ncv) if abs(X[ch][j + 1] - X[ch][j]) >= lim)
            f = f or Fraction(cs, ncv) > p
        exp.append(f)
    wrong = [j for j in range(ns) if bool(fl[j]) != exp[j]]
    if wrong:
        bad.append(("flags_rule_reader", "with max_voltage = Reader.range_volts, flag at sample %d is %s; the rule "
                    "with full scale imAiRangeMax/gain per channel gives %s" % (wrong[0], bool(fl[wrong[0]]), exp[wrong[0]])))
    return bad + list(obs[3]) + oracle_mute(c, obs)


def gen_reader(rng, kind, M):
    text, true_fs = synth_meta(rng, kind)
    ncv = len(true_fs)
    ns = rng.randrange(6, 13)
    dt = rng.choice([np.float32, np.float32, np.float64])
    p = rng.choice([0.2, 0.2, 0.1, 0.25, 0.05])
    slew_on = rng.random() < 0.4
    vps = 1e-8 if slew_on else 1e3
    fsf = np.array([float(f) for f in true_fs])
    data = np.zeros((ncv, ns))
    groups = sorted(set(true_fs))
    nprng = np.random.default_rng(rng.randrange(1 << 32))
    for j in range(ns):
        g = rng.choice(groups)
        members = np.array([t == g for t in true_fs])
        # a level relative to the channel's OWN full scale, >= 0.5 % away from the 98 % boundary;
        # the other channels follow at the same VOLTAGE (so they sit at another fraction of theirs)
        level = rng.choice([0.0, 0.5, 0.90, 0.97, 0.972, 0.99, 1.0, 1.7, 3.5])
        volt = level * float(g)
        who = rng.choice(["group", "group", "all", "fraction"])
        if who == "group":
            sel = members
        elif who == "all":
            sel = np.ones(ncv, dtype=bool)
        else:
            sel = nprng.random(ncv) < rng.choice([p * 0.5, p * 1.5, 0.5])
        col = np.where(sel, volt * nprng.choice([1.0, -1.0], size=ncv), 0.0)
        # keep clear of every channel's own boundary
        ratio = np.abs(col) / (0.98 * fsf)
        col[(ratio > 0.994) & (ratio < 1.006)] *= 0.9
        data[:, j] = col
    if slew_on:     # keep every jump at least 2 % away from the slew limit v_per_sec * fs, else switch the rule off
        fs_txt = float(re.search(r"(?:im|ni)SampRate=([0-9.]+)", text).group(1))
        d = np.abs(np.diff(data, axis=1)) / (vps * fs_txt)
        if np.any(np.abs(d - 1.0) < 0.02):
            vps = 1e3
    return ReaderCase(kind, text, true_fs, data.astype(dt), vps, p, M, "reader_" + kind)




# --------------------------------------------------------------------------
# LONG recordings (ns around 2**20 and beyond): exact mute clauses by a vectorised NumPy oracle
# --------------------------------------------------------------------------
# The Coq model is not run on a million samples.  What is checked are consequences of the proved
# theorems, which hold for EVERY length: C16_mute_range (0 <= mute <= 1), C16_mute_zero_on_flags,
# C16_mute_one_outside_support (exactly 1 outside the reach of every flag) and
# C16_mute_depends_on_flags_only + C16_mute_one_outside_support: the mute around a group of flags
# depends on the flags within reach and on the distance to the array ends only, so the same flag
# pattern embedded in a SHORT array (the "twin", which does go through the model) must give
# bit-identical mute values around the flags.
LONG_EDGE = 1024          # flags live within this distance of the start, the end or the centre
SHORT_NS = 4 * LONG_EDGE


class LongCase(Case):
    """nc x ns float32 zeros with unit spikes (range 1.0, slew rule off) at start-/end-/centre-relative
    positions; the same relative positions in an array of SHORT_NS samples are the twin."""
    long = True

    def __init__(self, ns, nc, M, at_start, at_end, at_mid, origin="long"):
        self.par = {"ns": int(ns), "nc": int(nc), "M": int(M), "at_start": sorted(at_start),
                    "at_end": sorted(at_end), "at_mid": sorted(at_mid)}
        Case.__init__(self, self.build(ns), "pyfloat", [1.0], 1e30, 30000, 0.2, M, origin)

    def positions(self, ns):
        p = self.par
        return sorted(set(p["at_start"]) | {ns - 1 - e for e in p["at_end"]} | {ns // 2 + m for m in p["at_mid"]})

    def build(self, ns):
        data = np.zeros((self.par["nc"], ns), dtype=np.float32)
        pos = self.positions(ns)
        data[:, pos] = np.float32(1.0)
        data[0, pos[::2]] = np.float32(-1.0)
        return data

    def twin(self):
        p = self.par
        t = LongCase(SHORT_NS, p["nc"], p["M"], p["at_start"], p["at_end"], p["at_mid"], origin="long_short_twin")
        t.long = False
        return t

    def describe(self):
        return {"long_case": self.par, "dtype": "float32", "shape": list(self.data.shape),
                "mute_window_samples": self.M, "origin": self.origin}


def gen_long(rng, ns, nc, M):
    k = LONG_EDGE - 2 * M - 4
    def some(n, lo, hi):
        out = set()
        for _ in range(n):
            a = rng.randrange(lo, hi)
            out |= set(range(a, min(hi, a + rng.choice([1, 1, 2, 3]))))
            if rng.random() < 0.4:
                out.add(min(hi - 1, a + rng.choice([2, M // 2 + 1, M, M + 1])))     # adjacent runs
        return out
    at_start = some(3, 0, k) | {0} if rng.random() < 0.7 else some(3, 1, k)
    at_end = some(3, 0, k) | ({0} if rng.random() < 0.7 else set())
    at_mid = some(3, -k // 2, k // 2)
    return LongCase(ns, nc, M, at_start, at_end, at_mid)


def oracle_long(c, obs, twin_obs):
    """exact clauses, vectorised; list of (clause, message)"""
    if obs[0] == "raise":
        return [("raises", "saturation raised %r on a long recording" % (obs[1],))]
    if obs[0] == "malformed":
        return [("malformed_return", obs[1])] + list(obs[2])
    fl, mu = obs[1], obs[2]
    ns, M = c.data.shape[1], c.M
    bad = list(obs[3])
    pos = np.array(c.positions(ns))
    exp = np.zeros(ns, dtype=bool)
    exp[pos] = True
    if not np.array_equal(fl, exp):
        j = int(np.flatnonzero(fl != exp)[0])
        bad.append(("flags_rule", "long recording: flag at sample %d is %s, the rule gives %s" % (j, bool(fl[j]), bool(exp[j]))))
        return bad
    if not bool(np.all((mu >= 0) & (mu <= 1))):
        j = int(np.flatnonzero(~((mu >= 0) & (mu <= 1)))[0])
        bad.append(("mute_range", "long recording (ns=%d): mute[%d] = %r leaves [0,1]" % (ns, j, float(mu[j]))))
    if M % 2 == 1 and np.any(mu[pos] != 0.0):
        j = int(pos[np.flatnonzero(mu[pos] != 0.0)[0]])
        bad.append(("mute_zero_on_flag", "long recording: mute is %r (not 0) on flagged sample %d" % (float(mu[j]), j)))
    far = np.ones(ns, dtype=bool)
    for i in pos:
        far[max(0, i - M // 2):i + M // 2 + 1] = False
    w = np.flatnonzero(far & (mu != 1.0))
    if w.size:
        bad.append(("mute_one_far", "long recording (ns=%d): mute is %r (not 1) at sample %d, farther than M/2 from "
                    "every flag (%d such samples)" % (ns, float(mu[w[0]]), int(w[0]), int(w.size))))
    if twin_obs is not None and twin_obs[0] == "ok":
        mt = twin_obs[2]
        E, h = LONG_EDGE, SHORT_NS // 2
        for name, a, b in (("start", mu[:E], mt[:E]), ("end", mu[-E:], mt[-E:]),
                           ("centre", mu[ns // 2 - E // 2: ns // 2 + E // 2], mt[h - E // 2: h + E // 2])):
            if not np.array_equal(a, b):
                j = int(np.flatnonzero(a != b)[0])
                bad.append(("mute_flags_only", "the same flag pattern gives a different mute in a %d-sample and in a "
                            "%d-sample array (%s region, offset %d: %r vs %r)"
                            % (ns, SHORT_NS, name, j, float(a[j]), float(b[j]))))
                break
    return bad


def run_long(ctx, long_cases, dist):
    """observe each long case and its short twin; the twins are returned to join the ordinary cases"""
    twins = []
    for c in long_cases:
        t = c.twin()
        twins.append(t)
        obs = impl_observe(c)
        try:
            bad = oracle_long(c, obs, impl_observe(t))
        except Exception as e:
            bad = [("malformed_return", "the long-recording oracle could not be evaluated: %r" % (e,))]
        for clause, msg in bad:
            ctx.fail(msg, c.describe(), c.tags(clause))
        dist["long_ns"] = dist.get("long_ns", []) + [c.data.shape[1]]
        c.data = None           # release the memory
    return twins



# --------------------------------------------------------------------------
# two-decimal proportions at whole-number boundaries (p * nc = K exactly)
# --------------------------------------------------------------------------
# coq/C16/SweepP.v: the 25 (j, nc) with p = j/100, nc <= 400, on which a count-form test
# (count > p * nc) differs from the source's mean-form (count / nc > p) at count = K
DISAGREEING_PAIRS = [(29, 100), (29, 200), (29, 400), (35, 180), (35, 340), (35, 360), (41, 300),
                     (57, 100), (57, 200), (57, 300), (57, 400), (58, 50), (58, 100), (58, 200), (58, 400),
                     (69, 300), (70, 90), (70, 170), (70, 180), (70, 330), (70, 340), (70, 350), (70, 360),
                     (82, 150), (82, 300)]
CONTROL_PAIRS = [(20, 5), (20, 385), (20, 400), (25, 384), (29, 300), (35, 20), (50, 2), (50, 384), (58, 150),
                 (70, 10), (75, 4), (10, 10), (1, 100), (99, 400), (33, 100)]


def gen_exact_proportion(rng, j, nc, clause):
    """proportion j/100 on nc channels, K = j*nc/100 a whole number: consecutive samples with exactly
    K-1, K, K+1 (and K again) offending channels, nested sets so that nothing else comes near the
    boundary; clause 'amplitude' (slew rule off) or 'slew' (full scale out of reach)."""
    K = j * nc // 100
    assert j * nc == 100 * K
    dt = rng.choice([np.float32, np.float64])
    counts = [K, max(K - 1, 0), min(K + 1, nc), K]
    rng.shuffle(counts)
    counts = [0] + counts + [K]
    order = list(range(nc))
    rng.shuffle(order)
    data = np.zeros((nc, len(counts) + 1), dtype=dt)
    if clause == "amplitude":
        for jj, c in enumerate(counts):
            data[order[:c], jj] = dt(rng.choice([0.99, -0.99, 1.5]))
        return Case(data, rng.choice(["pyfloat", "f64array"]), [1.0] if True else None, 1e30 if dt == np.float64 else 1e25,
                    30000, j / 100, rng.choice([7, 3]), "exact_proportion_amplitude")
    step = dt(1e-3)         # slew limit v_per_sec * fs = 3e-4: a step of 1e-3 is over, 0 is under
    for jj, c in enumerate(counts):
        data[:, jj + 1] = data[:, jj]
        sel = order[:c]
        data[sel, jj + 1] = np.where(data[sel, jj] == 0, step, dt(0))
    return Case(data, "pyfloat", [1e6], 1e-8, 30000, j / 100, rng.choice([7, 5]), "exact_proportion_slew")


def gen_special(rng):
    """Infinities from overflowing differences, negative proportion (the appended 0 fires),
    shapes that broadcast oddly or not at all."""
    out = []
    d = np.array([[3e38, -3e38, 0, 0, 0, 1e-3], [1.0, 1.0, 1.0, 1.0, 1.0, 1.0]], dtype=np.float32)
    out.append(Case(d, "pyfloat", [1e39], 1e-8, 30000, 0.2, 7, "special_inf"))
    out.append(Case(d, "pyfloat", [1e39], 1e-8, 30000, 0.5, 4, "special_inf"))
    out.append(Case(np.zeros((3, 5)), "pyfloat", [1.0], 1e-8, 30000, -0.1, 3, "special_negprop"))
    out.append(Case(np.zeros((3, 1)), "pyfloat", [1.0], 1e-8, 30000, 0.0, 3, "special_ns1"))
    for nc, k in ((3, 2), (2, 3), (1, 3), (4, 4), (1, 1), (5, 4)):
        data = np.array([[rng.choice([0.0, 0.98, 0.99, 1.0, -1.0]) for _ in range(6)] for _ in range(nc)])
        kind = "f64array" if (k == nc or k == 1) else ("oddbroadcast" if nc == 1 else "badlen")
        out.append(Case(data.astype(rng.choice([np.float32, np.float64])), kind,
                        [rng.choice([1.0, 1.01, 0.5]) for _ in range(k)], 1e-8, 30000, rng.choice([0.2, 0.5]),
                        rng.choice([3, 7]), "special_broadcast"))
    # the property's boundary in the default configuration: exactly 20 % of the channels
    for nc in (5, 10, 385, 400):
        for extra in (0, 1):
            data = np.zeros((nc, 9), dtype=np.float32)
            data[: nc // 5 + extra, 4] = 0.6
            out.append(Case(data, "pyfloat", [0.6], 1.0, 30000, 0.2, 7, "special_default_boundary"))
    return out


def gen_cases(ctx):
    rng = ctx.rng
    cases = gen_special(rng)
    n = 20 if ctx.thorough() else 1
    windows = list(range(1, 13))
    for rep in range(60 * n):
        for g in (gen_voltage_lattice, gen_slew_lattice, gen_random):
            nc = rng.choice(NCS[:18]) if rng.random() < 0.8 else rng.randrange(1, 60)
            ns = rng.choice([1, 2, 3, 5, 8, 12, 20, 30, 40]) if rng.random() < 0.7 else rng.randrange(1, 50)
            M = rng.choice([7, 7, 3, 5, 9, 11] + windows)
            cases.append(g(rng, nc, ns, M))
    for rep in range(12 * n):     # many channels, few samples
        for g in (gen_voltage_lattice, gen_slew_lattice, gen_random):
            nc = rng.choice(NCS[18:] + [rng.randrange(60, 401)])
            ns = rng.randrange(2, 13)
            cases.append(g(rng, nc, ns, rng.choice([7, 3, 4, 5, 11])))
    for rep in range(250 * n):
        cases.append(gen_tiny(rng, rng.choice(windows)))
    # batch loops re-using one float64 range array (and one list) over consecutive calls
    for rep in range(24 * n):
        g = (gen_voltage_lattice, gen_random)[rep % 2]
        c = g(rng, rng.choice([2, 5, 8, 10, 20]), rng.choice([3, 8, 12]), rng.choice([7, 3, 5]))
        c.mv_kind = rng.choice(["f64array", "f64array", "pylist", "f32array"])
        if len(c.mv_vals) == 1:
            c.mv_vals = c.mv_vals * c.data.shape[0]
        if c.mv_kind == "f32array":
            c.mv_vals = [float(np.float32(v)) for v in c.mv_vals]
        c.calls = rng.choice([2, 3, 4])
        c.origin = "shared_range_sequence"
        cases.append(c)
    # max_voltage taken from spikeglx.Reader.range_volts of synthesised .meta files
    kinds = ["np1_3b_ap", "np1_3a_ap", "np1_3b_lf", "ultra_ap", "np21_ap", "np24_ap", "nidq"]
    for rep in range(3 * n):
        for kind in kinds + ["np1_3b_ap", "np1_3a_ap"]:
            cases.append(gen_reader(rng, kind, rng.choice([7, 7, 3, 5, 9])))
    # exactly-the-proportion counts for two-decimal proportions: every pair on which a count-form test
    # would differ (SweepP.v), plus controls; amplitude and slew clause
    ctrl = CONTROL_PAIRS if ctx.thorough() else rng.sample(CONTROL_PAIRS, 7)
    for k, (j, nc) in enumerate(DISAGREEING_PAIRS + ctrl):
        both = ctx.thorough() or nc <= 200
        if both or k % 2 == 0:
            cases.append(gen_exact_proportion(rng, j, nc, "amplitude"))
        if both or k % 2 == 1:
            cases.append(gen_exact_proportion(rng, j, nc, "slew"))
    # a reader without metadata (unknown full scale = NaN); NaN samples; tapers longer than usual / than the array
    cases.append(gen_nometa(rng, 385, 7))
    cases.append(gen_nometa(rng, 384, rng.choice([3, 5])))
    for rep in range(10 * n):
        c = gen_tiny(rng, rng.choice([7, 3, 5]))
        if c.data.size:
            idx = [rng.randrange(c.data.size) for _ in range(1 + c.data.size // 6)]
            c.data.ravel()[idx] = np.nan
        if rep % 3 == 0 and c.mv_kind in ("f32array", "f64array", "pylist"):
            c.mv_vals[rng.randrange(len(c.mv_vals))] = float("nan")
        c.origin = "nan_values"
        cases.append(c)
    for M in [13, 25, 31, 64, 101][: (5 if ctx.thorough() else 3)] + ([rng.choice([13, 25, 31, 64, 101])] * 2):
        g = rng.choice([gen_voltage_lattice, gen_random])
        c = g(rng, rng.choice([1, 3, 10]), rng.choice([5, 30, 2 * M + 3]), M)
        c.origin = "wide_taper"
        cases.append(c)
    return cases


# --------------------------------------------------------------------------
def compare_model(ctx, cases, inputs, outs, observations):
    """flags exactly, mute within 2^(s-TOL_BITS); extracted model on all, kernel on a sample."""
    model = common.Extracted(PROP).run_many(inputs, nproc=4)
    for i, c in enumerate(cases):
        m, o = model[i], outs[i]
        s = inputs[i][c.s_index]
        ne = c.n_exact(o)
        tol = 1 << (s - TOL_BITS)
        what = None
        if len(m) != len(o) or m[:ne] != o[:ne]:
            k = next((j for j, (a, b) in enumerate(zip(m, o)) if a != b), min(len(m), len(o)))
            what = "model and implementation differ at output position %d (header/%sflags; model %s, " \
                   "implementation %s)" % (k, "range_volts/" if c.reader else "", m[k:k + 4], o[k:k + 4])
        elif repaired_even(c, observations[i]):
            outs[i] = m          # the kernel sample then only re-checks the flags of this case
        else:
            k = next((j for j in range(ne, len(m)) if abs(m[j] - o[j]) > tol), None)
            if k is not None:
                what = "model and implementation mute differ at sample %d (model %r, implementation %r)" % (
                    k - ne, m[k] / (1 << s), o[k] / (1 << s))
        if what:
            ctx.disagree(what, c.describe(), c.tags("correspondence"))
    idx = list(range(len(cases)))
    small = sorted(idx, key=lambda i: len(inputs[i]))
    pick = small[:25] + ctx.rng.sample(idx, min(len(idx), 35))
    pick = [i for i in dict.fromkeys(pick) if len(inputs[i]) < 1500]
    terms = [common.flat_cases_term(i, inputs[i], outs[i]) for i in pick]
    bad = common.coq_mismatches(PROP, HEADER, terms, shard=20) if terms else []
    for i in bad:
        ctx.disagree("kernel-evaluated model and implementation differ", cases[i].describe(),
                     cases[i].tags("correspondence"))
    ctx.coverage["model_evaluations_extracted"] = len(idx)
    ctx.coverage["model_evaluations_kernel"] = len(pick)


def run(ctx):
    common.proof_obligations(ctx, whitelist=WHITELIST)
    cases = gen_cases(ctx)
    long_sizes = [(2 ** 20 + 1, 1, 7), (2 ** 20 + 7, 2, 5), (65536, 2, 7), (70001, 1, 9)]
    if ctx.thorough():
        long_sizes += [(2 ** 20 - 1, 1, 7), (2 ** 20, 1, 7), (2 ** 20 + 1, 2, 11), (2 ** 21 + 3, 1, 7), (2 ** 22, 1, 9),
                       (2 ** 20 + 2, 1, 3)]
    long_cases = [gen_long(ctx.rng, ns, nc, M) for ns, nc, M in long_sizes]
    inputs, outs, observations = [], [], []
    dist = {"origin": {}, "dtype": {}, "mv_kind": {}, "window": {}, "nc_max": 0, "ns_max": 0,
            "raises": 0, "flag_at_first": 0, "flag_at_last": 0, "isolated_flag": 0, "no_flag": 0, "all_flag": 0,
            "count_exactly_at_proportion": 0}
    nontrivial = set()
    cases += run_long(ctx, long_cases, dist)
    for c in cases:
        observations.append(impl_observe(c))
    EVEN_REPAIRED[0] = even_windows_repaired(cases, observations)
    if EVEN_REPAIRED[0]:
        ctx.notes.append("even mute windows behave as repaired (F-C16-a no longer reproduces)")
    for c, obs in zip(cases, observations):
        inputs.append(enc_inp_reader(c) if c.reader else enc_inp(c))
        outs.append(enc_out_reader(c, obs) if c.reader else enc_out(c, obs))
        nc, ns = c.data.shape
        for k, v in (("origin", c.origin), ("dtype", str(c.data.dtype)), ("mv_kind", c.mv_kind),
                     ("window", str(c.M))):
            dist[k][v] = dist[k].get(v, 0) + 1
        dist["nc_max"], dist["ns_max"] = max(dist["nc_max"], nc), max(dist["ns_max"], ns)
        if c.mv_kind == "badlen":
            dist["raises"] += obs[0] == "raise"
            if obs[0] != "raise" or not isinstance(obs[1], ValueError):
                ctx.fail("max_voltage of incompatible length: expected NumPy's broadcast ValueError, got %r"
                         % (obs[1] if obs[0] == "raise" else "a result",), c.describe(), c.tags("raises"))
            continue
        if c.mv_kind == "oddbroadcast":     # one data row against k ranges: model only
            continue
        try:
            bad = oracle_reader(c, obs) if c.reader else oracle(c, obs) + metamorphic(c, obs)
        except Exception as e:      # the oracle itself must never take the check down
            bad = [("malformed_return", "the property oracle could not be evaluated on the implementation's "
                    "output: %r" % (e,))]
        for clause, msg in bad:
            ctx.fail(msg, c.describe(), c.tags(clause))
        if obs[0] == "ok" and ns > 0 and not any(cl in ("range_volts", "malformed_return") for cl, _ in bad):
            fl = obs[1]
            dist["flag_at_first"] += bool(fl[0])
            dist["flag_at_last"] += bool(fl[-1])
            dist["no_flag"] += not fl.any()
            dist["all_flag"] += bool(fl.all())
            f = [False] + [bool(b) for b in fl] + [False]
            dist["isolated_flag"] += any(f[j] and not f[j - 1] and not f[j + 1] for j in range(1, ns + 1))
            cnt = np.count_nonzero(np.abs(c.data) > (c.mv_array() * c.mv_dtype()(0.98))[:, None], axis=0)
            dist["count_exactly_at_proportion"] += bool(np.any(cnt / nc == c.prop))
            if fl.any() and not fl.all():
                nontrivial.add(hash((c.data.tobytes(), c.data.shape, tuple(c.mv_vals), c.mv_kind, c.vps, c.prop, c.M)))
    compare_model(ctx, cases, inputs, outs, observations)
    samples = []
    for c, ob in list(zip(cases, observations))[:: max(1, len(cases) // 7)]:
        samples.append({"origin": c.origin, "dtype": str(c.data.dtype), "shape": list(c.data.shape),
                        "mv_kind": c.mv_kind, "proportion": c.prop, "mute_window_samples": c.M, "calls": c.calls,
                        "flags": [int(b) for b in ob[1][:16]] if ob[0] == "ok" else "raises"})
    return common.finish(
        ctx, TRUSTED,
        rule="voltage arrays built on a lattice: per sample the number of channels strictly above fl(0.98*range) "
             "(resp. at/above the slew limit) is chosen one below / at / above proportion*nc, the remaining "
             "channels sit exactly on the boundary, one ulp inside it, or low; float32 and float64 data; scalar, "
             "array, list, int, float32 ranges; windows 1..12; flag patterns isolated / runs at both ends / "
             "adjacent runs; plus random mixed-rule arrays, tiny arrays over a value lattice, special cases "
             "(inf, negative proportion, broadcasting), batch sequences re-using one range array over 2-4 calls, and "
             "reader cases: .meta files synthesised from the fixtures (NP1 3A/3B AP and LF, NPultra with non-uniform "
             "IMRO gains in 7 layouts, NP2.1/2.4, nidq) opened with spikeglx.Reader, max_voltage = "
             "range_volts[:nc-nsync], fs = Reader.fs, channels driven to 0.5/0.90/0.97/0.99/1.0/1.7/3.5 x the full "
             "scale of one gain group, oracle in exact rationals with full scale = imAiRangeMax/gain.  Each case runs the real ibldsp.voltage.saturation, the "
             "property oracle, a mirrored-input metamorphic check and the Coq model (flags bit-exact, mute "
             "within 2^-36).  non-trivial = at least one flagged and one unflagged sample; distinct by content",
        samples=samples, evaluations=len(cases) + len(long_cases), distinct_nontrivial=len(nontrivial),
        extra={"input_distribution": dist, "exhaustive": False},
        assumptions=["NaN samples / NaN ranges follow IEEE (every comparison false) and are part of the correspondence",
                     "fs and v_per_sec are Python scalars (a NumPy float64 scalar fs would promote float32 data)",
                     "'exceeds the slew limit' is read as the source reads it: >= (non-strict)",
                     "'taper half-width' is read as M/2 samples"])


def replay(ctx, data):
    inp = data.get("input") or (data.get("correspondence_disagreements") or [{}])[0].get("input")
    if not inp:
        print(json.dumps(data, indent=1)[:3000])
        return 1
    if "long_case" in inp:
        q = inp["long_case"]
        c = LongCase(q["ns"], q["nc"], q["M"], q["at_start"], q["at_end"], q["at_mid"])
        obs = impl_observe(c)
        bad = oracle_long(c, obs, impl_observe(c.twin()))
        print("long recording ns=%d nc=%d M=%d, flags at %s" % (q["ns"], q["nc"], q["M"], c.positions(q["ns"])[:20]))
        print("property clauses failing on the implementation:", bad)
        return 1 if bad else 0
    c = Case.from_description(inp)
    if "nometa_nc_file" in inp:
        c = NoMetaCase(inp["nometa_nc_file"], c.data, c.vps, c.prop, c.M)
    if "meta_text" in inp:
        c = ReaderCase(inp["reader_kind"], inp["meta_text"], [Fraction(f) for f in inp["true_full_scale"]],
                       c.data, c.vps, c.prop, c.M, c.origin)
    obs = impl_observe(c)
    if obs[0] != "ok":
        print("implementation %s:" % obs[0], repr(obs[1]))
    else:
        print("implementation flags:", obs[1].astype(int).tolist())
        print("implementation mute :", [float(v) for v in obs[2]])
    if c.reader:
        if c.rv is not None:
            print("Reader.range_volts[:8]:", [float(v) for v in c.rv[:8]], " true full scale[:8]:",
                  [float(f) for f in c.true_fs[:8]])
        bad = oracle_reader(c, obs)
    else:
        bad = [] if c.mv_kind in ("badlen", "oddbroadcast") else oracle(c, obs) + metamorphic(c, obs)
    print("property clauses failing on the implementation:", bad)
    i, o = (enc_inp_reader(c), enc_out_reader(c, obs)) if c.reader else (enc_inp(c), enc_out(c, obs))
    ids = common.coq_mismatches(PROP, HEADER, [common.flat_cases_term(0, i, o)])
    m = common.Extracted(PROP).run_many([i], nproc=1)[0]
    ns = c.data.shape[1]
    ne = c.n_exact(m)
    print("model flags         :", m[ne - ns:ne] if m[0] == 1 else "raises")
    if m[0] == 1:
        print("model mute          :", [v / (1 << i[c.s_index]) for v in m[ne:]])
    print("kernel-evaluated model agrees with implementation:", not ids)
    return 1 if (bad or ids) else 0
