"""C16 — ibldsp.voltage.saturation: proofs in coq/C16, bit-exact correspondence of the
flags (Flocq binary32/binary64 model) and exact-rational correspondence of the mute."""
import json
import math
import warnings
from fractions import Fraction

import numpy as np
import scipy.signal

import common

PROP = "C16"
HEADER = ("From Coq Require Import ZArith List.\nImport ListNotations.\n"
          "From IBL.C16 Require Import Run.")
WHITELIST = sorted(common.STDLIB_AXIOMS)
TRUSTED = [
    "Coq 8.16.1 kernel + vm_compute (no native_compute); Flocq 4.1 BinarySingleNaN as the meaning of "
    "IEEE-754 binary32/binary64 round-to-nearest-even operations",
    "hand-written model coq/C16/Model.v of ibldsp.voltage.saturation, tied to /repo/src by this run's "
    "correspondence (flags bit-exact, mute within 2^-36 of the exact rational value)",
    "NumPy promotion rules as modelled: Python-float operands (0.98, fs, v_per_sec) are rounded to the "
    "array dtype; np.mean of booleans divides in float64; comparisons between dtypes are exact",
    "scipy.signal.windows.cosine(M) enters the run instance as data (the float64 taps of the very call) "
    "and the theorems as a list of taps with hypotheses 0 <= w_k and, for odd M, centre tap = 1",
    "scipy.signal.convolve(mode='same') is modelled as the centred slice of the full linear convolution "
    "(validated by the correspondence, including ns < M)",
    "harness/pC16.py generator, canonicaliser and oracle; NumPy scalar operations as arithmetic oracle "
    "for single IEEE operations in the oracle",
    "extraction (Require Extraction, ExtrOcamlBasic only), harness/driver.ml, ocamlfind ocamlopt; a sample "
    "of the same cases is re-evaluated by the kernel (vm_compute)",
]
INF_E = 100000
TOL_BITS = 36           # mute tolerance 2^-36 ~ 1.5e-11 (rounding noise of <= 11 float64 additions ~ 1e-15)


# --------------------------------------------------------------------------
# float <-> exact (m, e)
# --------------------------------------------------------------------------
def fme(x):
    x = float(x)
    if math.isinf(x):
        return (1 if x > 0 else -1, INF_E)
    if x != x:
        raise ValueError("NaN is outside the domain")
    if x == 0.0:
        return (0, 0)
    m, e = math.frexp(x)
    mi = int(m * (1 << 53))
    e -= 53
    tz = (mi & -mi).bit_length() - 1
    return (mi >> tz, e + tz)


def hexlist(a):
    return [float(v).hex() for v in np.asarray(a, dtype=np.float64).ravel()]


# --------------------------------------------------------------------------
# a case
# --------------------------------------------------------------------------
MV_KINDS = ("pyfloat", "pyint", "f32scalar", "f32array", "f64array", "pylist", "badlen", "oddbroadcast")


class Case:
    """data: ndarray [nc, ns] float32/float64; mv: value as passed to saturation()."""

    def __init__(self, data, mv_kind, mv_vals, vps, fs, prop, M, origin):
        self.data = np.ascontiguousarray(data)
        self.mv_kind, self.mv_vals = mv_kind, [float(v) for v in mv_vals]
        self.vps, self.fs, self.prop, self.M, self.origin = float(vps), fs, float(prop), int(M), origin

    def mv_arg(self):
        k, v = self.mv_kind, self.mv_vals
        if k == "pyfloat":
            return float(v[0])
        if k == "pyint":
            return int(v[0])
        if k == "f32scalar":
            return np.float32(v[0])
        if k == "f32array":
            return np.array(v, dtype=np.float32)
        if k in ("f64array", "badlen", "oddbroadcast"):
            return np.array(v, dtype=np.float64)
        if k == "pylist":
            return list(v)
        raise ValueError(k)

    def mv_dtype(self):
        return np.float32 if self.mv_kind in ("f32scalar", "f32array") else np.float64

    def mv_array(self):
        return np.array(self.mv_vals, dtype=self.mv_dtype())

    def describe(self):
        return {"dtype": str(self.data.dtype), "shape": list(self.data.shape), "data_hex": hexlist(self.data),
                "mv_kind": self.mv_kind, "mv_hex": [float(v).hex() for v in self.mv_vals],
                "v_per_sec": self.vps.hex(), "fs": self.fs, "proportion": self.prop.hex(),
                "mute_window_samples": self.M, "origin": self.origin}

    @staticmethod
    def from_description(d):
        data = np.array([float.fromhex(h) for h in d["data_hex"]], dtype=np.float64)
        data = data.reshape(d["shape"]).astype(np.dtype(d["dtype"]))
        return Case(data, d["mv_kind"], [float.fromhex(h) for h in d["mv_hex"]],
                    float.fromhex(d["v_per_sec"]), d["fs"], float.fromhex(d["proportion"]),
                    d["mute_window_samples"], d.get("origin", "replay"))

    def tags(self, clause):
        return {"clause": clause, "mute_window_parity": "even" if self.M % 2 == 0 else "odd"}


def window_fixed(M):
    """The taps of the very SciPy call, as integers w_k * 2^s (exact)."""
    w = scipy.signal.windows.cosine(M)
    fr = [Fraction(float(v)) for v in w]
    s = 56                 # the extracted model's I/O is limited to |values| < 2^62
    while any((f * (1 << s)).denominator != 1 for f in fr):
        s += 1
    assert s <= 61, "window taps need more than 61 fractional bits"
    return w, [int(f * (1 << s)) for f in fr], s


def enc_inp(c):
    nc, ns = c.data.shape
    fd = 0 if c.data.dtype == np.float32 else 1
    fm = 0 if c.mv_dtype() == np.float32 else 1
    _, wi, s = window_fixed(c.M)
    out = [fd, fm, nc, ns, len(c.mv_vals)]
    out += list(fme(float(c.fs))) + list(fme(c.vps)) + list(fme(c.prop)) + [c.M, s] + wi
    for v in c.mv_array():
        out += list(fme(v))
    for v in c.data.ravel().tolist():
        out += list(fme(v))
    return out


def impl_observe(c):
    """Run the real function; returns ("ok", flags, mute) or ("raise", exception)."""
    from ibldsp.voltage import saturation
    with warnings.catch_warnings():
        warnings.simplefilter("ignore")
        try:
            fl, mu = saturation(c.data.copy(), c.mv_arg(), v_per_sec=c.vps, fs=c.fs, proportion=c.prop,
                                mute_window_samples=c.M)
        except ValueError as e:
            return ("raise", e)
    return ("ok", np.asarray(fl), np.asarray(mu))


def enc_out(c, obs):
    if obs[0] == "raise":
        return [0]
    _, _, s = window_fixed(c.M)
    fl, mu = obs[1], obs[2]
    return [1, len(fl)] + [int(bool(b)) for b in fl] + \
        [int(round(Fraction(float(v)) * (1 << s))) for v in mu]


# --------------------------------------------------------------------------
# the property's predicate, evaluated on the implementation's outputs
# --------------------------------------------------------------------------
def expected_flags(c):
    """The rule of the property, sample by sample, with each boundary decided by ONE IEEE
    operation on NumPy scalars of the dtype involved: |x| > mv*0.98 (strict), count/nc >
    proportion (strict, float64), |x[j+1]-x[j]|/fs >= v_per_sec (the source's non-strict
    reading of 'exceeds the slew limit'), last sample: voltage rule only."""
    nc, ns = c.data.shape
    dt = c.data.dtype.type
    mv = c.mv_array()
    thr = mv * mv.dtype.type(0.98)
    if len(thr) == 1:
        thr = np.repeat(thr, nc)
    p = np.float64(c.prop)
    fs, vps = dt(c.fs), dt(c.vps)
    out = []
    for j in range(ns):
        col = c.data[:, j]
        cv = int(np.count_nonzero(np.abs(col) > thr))
        f = bool(np.float64(cv) / np.float64(nc) > p)
        if j + 1 < ns:
            d = c.data[:, j + 1] - col
            cs = int(np.count_nonzero(np.abs(d) / fs >= vps))
            f = f or bool(np.float64(cs) / np.float64(nc) > p)
        else:
            f = f or bool(np.float64(0.0) > p)
        out.append(f)
    return out


def oracle(c, obs):
    """list of (clause, message)."""
    bad = []
    nc, ns = c.data.shape
    if obs[0] == "raise":
        return [("raises", "saturation raised %r on a well-formed input" % (obs[1],))]
    fl, mu = obs[1], obs[2]
    if fl.shape != (ns,) or mu.shape != (ns,) or fl.dtype != np.bool_:
        return [("shape", "outputs have shapes %s %s dtype %s for ns=%d" % (fl.shape, mu.shape, fl.dtype, ns))]
    with warnings.catch_warnings():
        warnings.simplefilter("ignore")
        exp = expected_flags(c)
    wrong = [j for j in range(ns) if bool(fl[j]) != exp[j]]
    if wrong:
        bad.append(("flags_rule", "flag at sample %d is %s, the proportion rule gives %s"
                    % (wrong[0], bool(fl[wrong[0]]), exp[wrong[0]])))
    M = c.M
    if not bool(np.all((mu >= 0) & (mu <= 1))):
        bad.append(("mute_range", "mute leaves [0,1]: min %r max %r" % (float(mu.min()), float(mu.max()))))
    idx = np.flatnonzero(fl)
    nz = [int(j) for j in idx if mu[j] != 0.0]
    if nz:
        bad.append(("mute_zero_on_flag", "mute is %r (not 0) on flagged sample %d" % (float(mu[nz[0]]), nz[0])))
    # 1 farther than the taper half-width M/2 from every flagged sample
    for j in range(ns):
        far = idx.size == 0 or 2 * int(np.min(np.abs(idx - j))) > M
        if far and mu[j] != 1.0:
            bad.append(("mute_one_far", "mute is %r (not 1) at sample %d, farther than M/2 from every flag"
                        % (float(mu[j]), j)))
            break
    # a function of the flags alone: max(0, 1 - sum_k w_k * flag[j + (M-1)//2 - k]) in exact arithmetic
    # (skipped where F-C16-a has been repaired: the faithful formula is then no longer the reference)
    w = [Fraction(float(v)) for v in scipy.signal.windows.cosine(M)]
    h = (M - 1) // 2
    for j in ([] if repaired_even(c, obs) else range(ns)):
        sacc = Fraction(0)
        for k in range(M):
            t = j + h - k
            if 0 <= t < ns and fl[t]:
                sacc += w[k]
        want = max(Fraction(0), 1 - sacc)
        if abs(Fraction(float(mu[j])) - want) > Fraction(1, 1 << TOL_BITS):
            bad.append(("mute_flags_only", "mute at sample %d is %r, the flags alone give %r"
                        % (j, float(mu[j]), float(want))))
            break
    return bad


EVEN_REPAIRED = [False]     # decided once per run from all even-window cases, see even_windows_repaired()


def even_defect_exercised(c, obs):
    """even window and the defective formula leaves a non-zero gain on some flagged sample"""
    if c.M % 2 == 1 or obs[0] != "ok" or obs[1].shape != obs[2].shape:
        return False
    fl = obs[1]
    ns = len(fl)
    w = scipy.signal.windows.cosine(c.M)
    h = (c.M - 1) // 2
    return any(sum(w[k] for k in range(c.M) if 0 <= j + h - k < ns and fl[j + h - k]) < 1.0
               for j in np.flatnonzero(fl))


def even_windows_repaired(cases, observations):
    """Region of the known finding F-C16-a.  True when, on EVERY case of this run where the
    defective formula would leave a non-zero gain on a flagged sample, the implementation has gain
    0 on all flagged samples: the defect has been repaired.  Even-window mutes are then checked by
    the property clauses only (range, zero on flags, one far away, mirrored input), not against
    the faithful model / formula."""
    ex = [(c, o) for c, o in zip(cases, observations) if even_defect_exercised(c, o)]
    return bool(ex) and all(not np.any(o[2][np.flatnonzero(o[1])] != 0.0) for c, o in ex)


def repaired_even(c, obs):
    return EVEN_REPAIRED[0] and c.M % 2 == 0 and obs[0] == "ok"


def metamorphic(c, obs):
    """Same flags from different voltages (all signs flipped, channels reversed) must give
    the same flags and bit-identical mute."""
    if obs[0] != "ok" or c.mv_kind in ("badlen", "oddbroadcast"):
        return []
    c2 = Case(-c.data[::-1, :], c.mv_kind, c.mv_vals[::-1], c.vps, c.fs, c.prop, c.M, c.origin)
    o2 = impl_observe(c2)
    if o2[0] != "ok":
        return [("raises", "saturation raised %r on the mirrored input" % (o2[1],))]
    if not np.array_equal(o2[1], obs[1]):
        return [("flags_rule", "flags change when channels are reversed and all signs flipped")]
    if not np.array_equal(o2[2], obs[2]):
        return [("mute_flags_only", "mute differs between two inputs with identical flags")]
    return []


# --------------------------------------------------------------------------
# generators
# --------------------------------------------------------------------------
PROPS = [0.2, 0.2, 0.2, 0.1, 0.25, 0.5, 1 / 3, 0.05, 0.9, 0.0, 1.0, 0.75]
NCS = [1, 2, 3, 4, 5, 6, 7, 8, 9, 10, 12, 15, 16, 20, 25, 32, 40, 64, 100, 384, 385, 399, 400]


def near(dt, x, k):
    """x moved k ulps (k may be negative) in dtype dt."""
    x = dt(x)
    for _ in range(abs(k)):
        x = np.nextafter(x, dt(np.inf) if k > 0 else dt(-np.inf))
    return x


def counts_near(rng, p, nc):
    b = int(math.floor(p * nc))
    cand = {b - 1, b, b + 1, b + 2, 0, nc, int(math.ceil(p * nc))}
    return [x for x in sorted(cand) if 0 <= x <= nc]


def flag_pattern(rng, ns):
    """Target pattern of events: isolated, runs touching the ends, adjacent runs."""
    kind = rng.choice(["isolated", "start", "end", "both_ends", "adjacent", "random", "none", "all", "gap1"])
    f = [False] * ns
    if ns == 0:
        return f
    if kind == "isolated":
        f[rng.randrange(ns)] = True
    elif kind == "start":
        for j in range(rng.randrange(1, min(ns, 4) + 1)):
            f[j] = True
    elif kind == "end":
        for j in range(rng.randrange(1, min(ns, 4) + 1)):
            f[ns - 1 - j] = True
    elif kind == "both_ends":
        f[0] = f[ns - 1] = True
        if ns > 3 and rng.random() < 0.5:
            f[1] = True
    elif kind in ("adjacent", "gap1"):
        a = rng.randrange(ns)
        gap = 1 if kind == "gap1" else rng.randrange(1, 12)
        for j in range(a, min(ns, a + rng.randrange(1, 4))):
            f[j] = True
        for j in range(min(ns, a + 3 + gap), min(ns, a + 3 + gap + rng.randrange(1, 4))):
            f[j] = True
    elif kind == "random":
        q = rng.random()
        f = [rng.random() < q for _ in range(ns)]
    elif kind == "all":
        f = [True] * ns
    return f


def pick_mv(rng, dt, nc, allow_int=True):
    kinds = ["pyfloat", "f32scalar", "f32array", "f64array", "pylist"] + (["pyint"] if allow_int else [])
    kind = rng.choice(kinds)
    base = rng.choice([0.6, 1.2, 0.0005859375, 1.0, 0.3, 5e-3, 32768 * 2.34375e-6, 2.0 ** -7])
    if kind == "pyint":
        return kind, [float(rng.choice([1, 2, 3, 512, 32767]))]
    if kind in ("pyfloat", "f32scalar"):
        v = base * rng.choice([1.0, 1.0, 1 + rng.random()])
        return kind, [float(np.float32(v)) if kind == "f32scalar" else v]
    vals = [base * rng.choice([1.0, 0.5, 2.0, 1 + rng.random()]) for _ in range(nc)]
    if kind == "f32array":
        vals = [float(np.float32(v)) for v in vals]
    return kind, vals


def gen_voltage_lattice(rng, nc, ns, M):
    """Voltage rule in isolation: the slew limit is out of reach; every sample gets a count of
    channels strictly above the threshold chosen just below / at / above proportion*nc, the
    other channels sit exactly on the threshold, one ulp below it, or low."""
    dt = rng.choice([np.float32, np.float64])
    p = rng.choice(PROPS)
    kind, mvv = pick_mv(rng, dt, nc)
    c = Case(np.zeros((nc, ns), dtype=dt), kind, mvv, 1e30 if dt == np.float64 else 1e25, 30000, p, M, "voltage_lattice")
    mv = c.mv_array()
    thr = mv * mv.dtype.type(0.98)
    thr = np.repeat(thr, nc) if len(thr) == 1 else thr
    pat = flag_pattern(rng, ns)
    cn = counts_near(rng, p, nc)
    lim = p * nc
    hi = [x for x in cn if x / nc > p] or [nc]
    lo = [x for x in cn if not (x / nc > p)] or [0]
    data = np.zeros((nc, ns), dtype=dt)
    for j in range(ns):
        cnt = rng.choice(hi if pat[j] else lo)
        chans = list(range(nc))
        rng.shuffle(chans)
        for i, ch in enumerate(chans):
            t = thr[ch]
            # smallest data-dtype value strictly above t, largest value <= t
            above = dt(t)
            while not (above > t):
                above = np.nextafter(above, dt(np.inf))
            at = dt(t)
            while at > t:
                at = np.nextafter(at, dt(-np.inf))
            if i < cnt:
                v = rng.choice([above, above, near(dt, above, 1), dt(above * dt(1.5)), dt(mv[ch % len(mv)])])
                if not (abs(v) > t):
                    v = above
            else:
                v = rng.choice([at, at, near(dt, at, -1), dt(0), dt(at * dt(0.5))])
            data[ch, j] = v if rng.random() < 0.5 else -v
    _ = lim
    c.data = data
    return c


def slew_limit(dt, fs, vps):
    """smallest d >= 0 in dtype dt with d / fs >= vps (both rounded to dt)."""
    fsd, vd = dt(fs), dt(vps)
    d = dt(vd * fsd)
    while d / fsd >= vd and d > 0:
        d = np.nextafter(d, dt(-np.inf))
    while not (d / fsd >= vd):
        d = np.nextafter(d, dt(np.inf))
    return d


def gen_slew_lattice(rng, nc, ns, M):
    """Slew rule in isolation: full scale out of reach; between consecutive samples a chosen
    number of channels jumps by exactly the limit or more, the others one ulp less or little."""
    dt = rng.choice([np.float32, np.float64])
    p = rng.choice(PROPS)
    fs = rng.choice([30000, 30000, 2500, 30000.0, 1, 32768])
    vps = rng.choice([1e-8, 1e-8, 3e-9, 2.0 ** -20, 1e-6, 0.1])
    c = Case(np.zeros((nc, ns), dtype=dt), rng.choice(["pyfloat", "f64array"]), [1e6], vps, fs, p, M, "slew_lattice")
    if c.mv_kind == "f64array":
        c.mv_vals = [1e6] * nc
    dmin = slew_limit(dt, fs, vps)
    pat = flag_pattern(rng, max(ns - 1, 0))
    cn = counts_near(rng, p, nc)
    hi = [x for x in cn if x / nc > p] or [nc]
    lo = [x for x in cn if not (x / nc > p)] or [0]
    data = np.zeros((nc, ns), dtype=dt)
    for j in range(ns - 1):
        cnt = rng.choice(hi if pat[j] else lo)
        chans = list(range(nc))
        rng.shuffle(chans)
        for i, ch in enumerate(chans):
            if i < cnt:
                d = rng.choice([dmin, dmin, near(dt, dmin, 1), dt(dmin * dt(3))])
            else:
                d = rng.choice([near(dt, dmin, -1), near(dt, dmin, -1), dt(0), dt(dmin * dt(0.25))])
            x = data[ch, j]
            if x != 0 and rng.random() < 0.6:
                y = dt(0) if abs(x) == d else (dt(x - d) if x > 0 else dt(x + d))
                # keep the intended side of the limit after rounding of the subtraction
                if (abs(dt(y - x)) / dt(fs) >= dt(vps)) != (i < cnt):
                    y = dt(x + d) if x > 0 else dt(x - d)
            else:
                y = dt(x + d) if rng.random() < 0.5 else dt(x - d)
            data[ch, j + 1] = y
    c.data = data
    return c


def gen_random(rng, nc, ns, M):
    """Realistic mix: both rules active, random voltages around the thresholds."""
    dt = rng.choice([np.float32, np.float64])
    p = rng.choice(PROPS)
    kind, mvv = pick_mv(rng, dt, nc)
    fs = rng.choice([30000, 2500, 30000.0])
    vps = rng.choice([1e-8, 1e-5, 2e-5, 1e-4])
    nprng = np.random.default_rng(rng.randrange(1 << 32))
    mvmean = float(np.mean(mvv))
    base = nprng.normal(0, mvmean * 0.02, size=(1, ns)) + nprng.normal(0, mvmean * 0.002, size=(nc, ns))
    pat = flag_pattern(rng, ns)
    for j in range(ns):
        if pat[j]:
            frac = rng.choice([p * 0.5, p, min(1.0, p * 1.5), 1.0])
            sel = nprng.random(nc) < frac
            base[sel, j] = mvmean * nprng.choice([0.97, 0.979, 0.981, 1.0, -1.0, -0.985], size=int(sel.sum()))
    return Case(base.astype(dt), kind, mvv, vps, fs, p, M, "random")


def gen_tiny(rng, M):
    """Small arrays over a lattice of values around one threshold (dense coverage of shapes)."""
    dt = rng.choice([np.float32, np.float64])
    nc, ns = rng.randrange(1, 5), rng.randrange(0, 7)
    p = rng.choice([0.2, 0.5, 0.25, 0.0, 1 / 3])
    kind, mvv = pick_mv(rng, dt, nc)
    mv = Case(np.zeros((1, 1), dtype=dt), kind, mvv, 1, 1, p, M, "").mv_array()
    t = (mv * mv.dtype.type(0.98))[0]
    vps, fs = rng.choice([(1e-8, 30000), (float(t) / 4, 2), (1e30, 1)])
    lat = [dt(0), dt(t), near(dt, dt(t), 1), near(dt, dt(t), -1), dt(t / 2), near(dt, dt(t), 2)]
    data = np.array([[rng.choice(lat) * rng.choice([1, -1]) for _ in range(ns)] for _ in range(nc)],
                    dtype=dt).reshape(nc, ns)
    return Case(data, kind, mvv, vps, fs, p, M, "tiny")


def gen_special(rng):
    """Infinities from overflowing differences, negative proportion (the appended 0 fires),
    shapes that broadcast oddly or not at all."""
    out = []
    d = np.array([[3e38, -3e38, 0, 0, 0, 1e-3], [1.0, 1.0, 1.0, 1.0, 1.0, 1.0]], dtype=np.float32)
    out.append(Case(d, "pyfloat", [1e39], 1e-8, 30000, 0.2, 7, "special_inf"))
    out.append(Case(d, "pyfloat", [1e39], 1e-8, 30000, 0.5, 4, "special_inf"))
    out.append(Case(np.zeros((3, 5)), "pyfloat", [1.0], 1e-8, 30000, -0.1, 3, "special_negprop"))
    out.append(Case(np.zeros((3, 1)), "pyfloat", [1.0], 1e-8, 30000, 0.0, 3, "special_ns1"))
    for nc, k in ((3, 2), (2, 3), (1, 3), (4, 4), (1, 1), (5, 4)):
        data = np.array([[rng.choice([0.0, 0.98, 0.99, 1.0, -1.0]) for _ in range(6)] for _ in range(nc)])
        kind = "f64array" if (k == nc or k == 1) else ("oddbroadcast" if nc == 1 else "badlen")
        out.append(Case(data.astype(rng.choice([np.float32, np.float64])), kind,
                        [rng.choice([1.0, 1.01, 0.5]) for _ in range(k)], 1e-8, 30000, rng.choice([0.2, 0.5]),
                        rng.choice([3, 7]), "special_broadcast"))
    # the property's boundary in the default configuration: exactly 20 % of the channels
    for nc in (5, 10, 385, 400):
        for extra in (0, 1):
            data = np.zeros((nc, 9), dtype=np.float32)
            data[: nc // 5 + extra, 4] = 0.6
            out.append(Case(data, "pyfloat", [0.6], 1.0, 30000, 0.2, 7, "special_default_boundary"))
    return out


def gen_cases(ctx):
    rng = ctx.rng
    cases = gen_special(rng)
    n = 20 if ctx.thorough() else 1
    windows = list(range(1, 13))
    for rep in range(60 * n):
        for g in (gen_voltage_lattice, gen_slew_lattice, gen_random):
            nc = rng.choice(NCS[:18]) if rng.random() < 0.8 else rng.randrange(1, 60)
            ns = rng.choice([1, 2, 3, 5, 8, 12, 20, 30, 40]) if rng.random() < 0.7 else rng.randrange(1, 50)
            M = rng.choice([7, 7, 3, 5, 9, 11] + windows)
            cases.append(g(rng, nc, ns, M))
    for rep in range(12 * n):     # many channels, few samples
        for g in (gen_voltage_lattice, gen_slew_lattice, gen_random):
            nc = rng.choice(NCS[18:] + [rng.randrange(60, 401)])
            ns = rng.randrange(2, 13)
            cases.append(g(rng, nc, ns, rng.choice([7, 3, 4, 5, 11])))
    for rep in range(250 * n):
        cases.append(gen_tiny(rng, rng.choice(windows)))
    return cases


# --------------------------------------------------------------------------
def compare_model(ctx, cases, inputs, outs, observations):
    """flags exactly, mute within 2^(s-TOL_BITS); extracted model on all, kernel on a sample."""
    model = common.Extracted(PROP).run_many(inputs, nproc=4)
    for i, c in enumerate(cases):
        m, o = model[i], outs[i]
        ns = c.data.shape[1]
        s = inputs[i][12]
        tol = 1 << (s - TOL_BITS)
        what = None
        if len(m) != len(o) or m[:2 + ns] != o[:2 + ns]:
            k = next((j for j, (a, b) in enumerate(zip(m, o)) if a != b), min(len(m), len(o)))
            what = "model and implementation differ at output position %d (header/flags; model %s, " \
                   "implementation %s)" % (k, m[k:k + 4], o[k:k + 4])
        elif repaired_even(c, observations[i]):
            outs[i] = m          # the kernel sample then only re-checks the flags of this case
        else:
            k = next((j for j in range(2 + ns, len(m)) if abs(m[j] - o[j]) > tol), None)
            if k is not None:
                what = "model and implementation mute differ at sample %d (model %r, implementation %r)" % (
                    k - 2 - ns, m[k] / (1 << s), o[k] / (1 << s))
        if what:
            ctx.disagree(what, c.describe(), c.tags("correspondence"))
    idx = list(range(len(cases)))
    small = sorted(idx, key=lambda i: len(inputs[i]))
    pick = small[:25] + ctx.rng.sample(idx, min(len(idx), 35))
    pick = [i for i in dict.fromkeys(pick) if len(inputs[i]) < 1500]
    terms = [common.flat_cases_term(i, inputs[i], outs[i]) for i in pick]
    bad = common.coq_mismatches(PROP, HEADER, terms, shard=20) if terms else []
    for i in bad:
        ctx.disagree("kernel-evaluated model and implementation differ", cases[i].describe(),
                     cases[i].tags("correspondence"))
    ctx.coverage["model_evaluations_extracted"] = len(idx)
    ctx.coverage["model_evaluations_kernel"] = len(pick)


def run(ctx):
    common.proof_obligations(ctx, whitelist=WHITELIST)
    cases = gen_cases(ctx)
    inputs, outs, observations = [], [], []
    dist = {"origin": {}, "dtype": {}, "mv_kind": {}, "window": {}, "nc_max": 0, "ns_max": 0,
            "raises": 0, "flag_at_first": 0, "flag_at_last": 0, "isolated_flag": 0, "no_flag": 0, "all_flag": 0,
            "count_exactly_at_proportion": 0}
    nontrivial = set()
    for c in cases:
        observations.append(impl_observe(c))
    EVEN_REPAIRED[0] = even_windows_repaired(cases, observations)
    if EVEN_REPAIRED[0]:
        ctx.notes.append("even mute windows behave as repaired (F-C16-a no longer reproduces)")
    for c, obs in zip(cases, observations):
        inputs.append(enc_inp(c))
        outs.append(enc_out(c, obs))
        nc, ns = c.data.shape
        for k, v in (("origin", c.origin), ("dtype", str(c.data.dtype)), ("mv_kind", c.mv_kind),
                     ("window", str(c.M))):
            dist[k][v] = dist[k].get(v, 0) + 1
        dist["nc_max"], dist["ns_max"] = max(dist["nc_max"], nc), max(dist["ns_max"], ns)
        if c.mv_kind == "badlen":
            dist["raises"] += obs[0] == "raise"
            if obs[0] != "raise":
                ctx.fail("saturation accepted a max_voltage of incompatible length", c.describe(), c.tags("raises"))
            continue
        if c.mv_kind == "oddbroadcast":     # one data row against k ranges: model only
            continue
        bad = oracle(c, obs) + metamorphic(c, obs)
        for clause, msg in bad:
            ctx.fail(msg, c.describe(), c.tags(clause))
        if obs[0] == "ok" and ns > 0:
            fl = obs[1]
            dist["flag_at_first"] += bool(fl[0])
            dist["flag_at_last"] += bool(fl[-1])
            dist["no_flag"] += not fl.any()
            dist["all_flag"] += bool(fl.all())
            f = [False] + [bool(b) for b in fl] + [False]
            dist["isolated_flag"] += any(f[j] and not f[j - 1] and not f[j + 1] for j in range(1, ns + 1))
            cnt = np.count_nonzero(np.abs(c.data) > (c.mv_array() * c.mv_dtype()(0.98))[:, None], axis=0)
            dist["count_exactly_at_proportion"] += bool(np.any(cnt / nc == c.prop))
            if fl.any() and not fl.all():
                nontrivial.add(hash((c.data.tobytes(), c.data.shape, tuple(c.mv_vals), c.mv_kind, c.vps, c.prop, c.M)))
    compare_model(ctx, cases, inputs, outs, observations)
    samples = []
    for c, o in list(zip(cases, outs))[:: max(1, len(cases) // 6)]:
        ns = c.data.shape[1]
        samples.append({"origin": c.origin, "dtype": str(c.data.dtype), "shape": list(c.data.shape),
                        "mv_kind": c.mv_kind, "proportion": c.prop, "mute_window_samples": c.M,
                        "flags": o[2:2 + ns][:16]})
    return common.finish(
        ctx, TRUSTED,
        rule="voltage arrays built on a lattice: per sample the number of channels strictly above fl(0.98*range) "
             "(resp. at/above the slew limit) is chosen one below / at / above proportion*nc, the remaining "
             "channels sit exactly on the boundary, one ulp inside it, or low; float32 and float64 data; scalar, "
             "array, list, int, float32 ranges; windows 1..12; flag patterns isolated / runs at both ends / "
             "adjacent runs; plus random mixed-rule arrays, tiny arrays over a value lattice and special cases "
             "(inf, negative proportion, broadcasting).  Each case runs the real ibldsp.voltage.saturation, the "
             "property oracle, a mirrored-input metamorphic check and the Coq model (flags bit-exact, mute "
             "within 2^-36).  non-trivial = at least one flagged and one unflagged sample; distinct by content",
        samples=samples, evaluations=len(cases), distinct_nontrivial=len(nontrivial),
        extra={"input_distribution": dist, "exhaustive": False},
        assumptions=["NaN voltages are outside the domain",
                     "fs and v_per_sec are Python scalars (a NumPy float64 scalar fs would promote float32 data)",
                     "'exceeds the slew limit' is read as the source reads it: >= (non-strict)",
                     "'taper half-width' is read as M/2 samples"])


def replay(ctx, data):
    inp = data.get("input") or (data.get("correspondence_disagreements") or [{}])[0].get("input")
    if not inp:
        print(json.dumps(data, indent=1)[:3000])
        return 1
    c = Case.from_description(inp)
    obs = impl_observe(c)
    if obs[0] == "raise":
        print("implementation raised:", repr(obs[1]))
    else:
        print("implementation flags:", obs[1].astype(int).tolist())
        print("implementation mute :", [float(v) for v in obs[2]])
    bad = [] if c.mv_kind in ("badlen", "oddbroadcast") else oracle(c, obs) + metamorphic(c, obs)
    print("property clauses failing on the implementation:", bad)
    i, o = enc_inp(c), enc_out(c, obs)
    ids = common.coq_mismatches(PROP, HEADER, [common.flat_cases_term(0, i, o)])
    m = common.Extracted(PROP).run_many([i], nproc=1)[0]
    ns = c.data.shape[1]
    print("model flags         :", m[2:2 + ns] if m[0] == 1 else "raises")
    if m[0] == 1:
        print("model mute          :", [v / (1 << i[12]) for v in m[2 + ns:]])
    print("kernel-evaluated model agrees with implementation:", not ids)
    return 1 if (bad or ids) else 0
