"""C20 — venn counting, stack, smoothers, Savitzky-Golay, cadzow/SVD rank reduction.

Proofs in coq/C20; correspondence against ibldsp.spiketrains / voltage.stack / smooth /
cadzow from IBLNPX_REPO (default /repo); property oracle evaluated on the implementation.
"""
import contextlib
import io
import json
import math
import types
from fractions import Fraction

import numpy as np

import common

PROP = "C20"
HEADER = "From Coq Require Import ZArith List.\nImport ListNotations.\nFrom IBL.C20 Require Import Run."
WHITELIST = sorted(common.STDLIB_AXIOMS)      # used by C20_svd_rank_float_exact (Flocq / Reals) only — enforced in _run
AXIOM_THEOREMS = {"C20_svd_rank_float_exact", "C20_svd_rank_exact_share"}
TRUSTED = [
    "coqchk re-checks IBL.C20.Props and all it depends on EXCEPT the module IBL.C20.RankSweep (three exhaustive vm_compute "
    "sweeps, compiled and kernel-checked by coqc, admitted for coqchk only: coverage.coqchk.Props.admitted_modules_not_rechecked)",
    "Coq 8.16.1 kernel + vm_compute (no native_compute); every C20 theorem is closed under the global context except "
    "C20_svd_rank_float_exact (Flocq 4.1 + Reals: ClassicalDedekindReals.sig_forall_dec, sig_not_dec, "
    "functional_extensionality_dep, Classical_Prop.classic)",
    "hand-written models coq/C20/Model.v of _spikes_venn, voltage.stack, smooth.rolling_window/lp/"
    "non_uniform_savgol and cadzow.trajectory/denoise, tied to the source by this run's correspondence",
    "np.searchsorted on a sorted train selects the spikes with off <= sample < off+chunk (trains are sorted: domain)",
    "external numerics as Section variables with hypotheses: np.linalg.inv returns a left inverse of the normal "
    "matrix; derank(T)=T when the requested rank is not below rank(T) (np.linalg.svd reconstructs); ft.lp keeps the "
    "length and has DC gain 1 (fcn_cosine(b)(0)=0); window weights sum to a non-zero number; the field has "
    "characteristic 0",
    "float64 n*pad modelled exactly by integer round-to-nearest-even to 53 bits (IEEE-754 host fact)",
    "svd_rank is the exact integer floor(rank*size/nc); that the binary64 expression int(rank*size/nc) equals it is "
    "PROVED (C20_svd_rank_float_exact, all operands < 2^26) under the IEEE-754 reading: Python int/int = correctly "
    "rounded quotient (round-to-nearest-even), int() = floor of a non-negative float; the NumPy sweep nc <= 200/400 and "
    "the ranks actually passed to _svd_denoise for every collection size 1..100 tie that reading to the source",
    "harness/pC20.py generators, canonicalisers, tolerances and oracle; during the cadzow phase numba.jit is the "
    "identity decorator (iblutil's ismember2d otherwise re-compiles its helper on every call); one layout per run "
    "is evaluated with and without it and compared",
    "extraction (ExtrOcamlBasic only; Z/positive/Q kept inductive), harness/driver.ml, ocamlfind ocamlopt; a sample "
    "of the same cases is re-evaluated by the kernel (vm_compute)",
]
VENN_DTYPES = [("int64", "int64"), ("int32", "int16"), ("uint32", "uint16"), ("float64", "float32"),
               ("uint64", "int64")]
WINDOWS = ["flat", "hanning", "hamming", "bartlett", "blackman"]


class BadOutput(Exception):
    """the implementation returned something that is not the documented kind of value"""


def as_array(x, shape, what, kinds="fiu"):
    """x must be a NumPy array of exactly this shape and a numeric kind; anything else is a BadOutput"""
    if not isinstance(x, np.ndarray):
        raise BadOutput("%s returned %s instead of a NumPy array" % (what, type(x).__name__))
    if tuple(x.shape) != tuple(shape):
        raise BadOutput("%s returned shape %s, expected %s" % (what, tuple(x.shape), tuple(shape)))
    if x.dtype.kind not in kinds:
        raise BadOutput("%s returned dtype %s" % (what, x.dtype))
    return x


def unchanged(before, after, what):
    """inputs must not be modified in place"""
    for b, a in zip(before, after):
        if not (isinstance(a, np.ndarray) and a.shape == b.shape and np.array_equal(a, b, equal_nan=True)):
            raise BadOutput("%s modified its input in place" % what)


@contextlib.contextmanager
def quiet():
    with contextlib.redirect_stdout(io.StringIO()), contextlib.redirect_stderr(io.StringIO()):
        yield


# ----------------------------------------------------------------------------
# 1. venn
# ----------------------------------------------------------------------------
def venn_call(case, chunk=None):
    """Real spikes_venn2/3.  Returns list of counts in key order, or ('exc', name)."""
    from ibldsp import spiketrains
    n = len(case["trains"])
    # representation varies with the case: the result must not depend on the integer / float dtype
    sdt, cdt = VENN_DTYPES[(len(case["trains"][0]) + int(case["chunk"]) + case["nchan"]) % len(VENN_DTYPES)]
    st = tuple(np.array([s for s, _ in t], dtype=sdt) for t in case["trains"])
    ct = tuple(np.array([c for _, c in t], dtype=cdt) for t in case["trains"])
    fn = spiketrains.spikes_venn2 if n == 2 else spiketrains.spikes_venn3
    kw = dict(samples_binsize=case["xbin"] or None, channels_binsize=case["ybin"], fs=case["fs"],
              num_channels=case["nchan"], chunk_size=(case["chunk"] if chunk is None else chunk) or None)
    before = [a.copy() for a in st + ct]
    try:
        with quiet():
            res = fn(st, ct, **kw)
    except Exception as e:  # noqa
        return ("exc", type(e).__name__)
    keys = [format(i, "0%db" % n) for i in range(1, 2 ** n)]
    try:
        unchanged(before, st + ct, "spikes_venn")
        if not isinstance(res, dict) or sorted(res.keys()) != sorted(keys):
            return ("exc", "result is not the documented dictionary of %d region counts" % len(keys))
        out = [int(res[k]) for k in keys]
        if any(float(res[k]) != v for k, v in zip(keys, out)):
            return ("exc", "non-integer region count")
        return out
    except BadOutput as e:
        return ("exc", str(e))
    except Exception as e:  # noqa
        return ("exc", "uninterpretable result: %r" % (e,))


def venn_enc_inp(case):
    out = [1, len(case["trains"]), case["xbin"], case["ybin"], case["nchan"], case["chunk"], case["fs"]]
    for t in case["trains"]:
        out += [len(t)] + [s for s, _ in t] + [c for _, c in t]
    return out


def venn_oracle(case, res):
    """Every spike of every sorter is attributed to exactly one region."""
    n = len(case["trains"])
    bad = []
    for s in range(n):
        tot = sum(v for c, v in enumerate(res, start=1) if format(c, "0%db" % n)[s] == "1")
        if tot != len(case["trains"][s]):
            bad.append("sorter %d: regions containing it sum to %d, it has %d spikes" % (s, tot, len(case["trains"][s])))
    if any(v < 0 for v in res):
        bad.append("negative region count")
    return bad


def gen_train(rng, tmax, nchan_hi, k, base=None):
    sp = []
    for _ in range(k):
        if base and rng.random() < 0.6:      # coincident (or nearly) with a spike of another sorter
            s, c = rng.choice(base)
            s = max(0, s + rng.choice([0, 0, 0, 1, -1, 2, -3]))
            c = min(max(0, c + rng.choice([0, 0, 1, -1])), nchan_hi)
        else:
            s, c = rng.randrange(0, tmax + 1), rng.randrange(0, nchan_hi + 1)
        sp.append((s, c))
        if rng.random() < 0.25:
            sp.append((s, c))               # several spikes of one sorter in one bin
    sp.sort(key=lambda p: p[0])
    return sp


def gen_venn(ctx, ncases):
    rng = ctx.rng
    cases = []
    for k in range(ncases):
        n = rng.choice([2, 3])
        xbin = rng.choice([1, 2, 3, 4, 5, 7, 12])
        ybin = rng.choice([1, 2, 4])
        nchan = rng.choice([4, 8, 12, 16, 32])
        tmax = rng.choice([0, 1, 5, 20, 60, 150])
        chunk = rng.choice([1, 2, xbin, xbin - 1 or 1, xbin + 1, 2 * xbin, 3 * xbin + 1, 10, 25, 64,
                            tmax or 1, tmax + 1, tmax + 2, 1000, rng.randrange(1, 200),
                            # every residue modulo the time bin
                            rng.randrange(1, 5) * xbin + k % xbin, rng.randrange(0, 3) * xbin + k % xbin or 1,
                            rng.randrange(1, 5) * xbin + k % xbin])
        if tmax // chunk > 60:
            chunk = max(chunk, tmax // 60 + 1)
        hi = nchan - 1 if rng.random() < 0.9 else nchan + 2 * ybin     # sometimes beyond the last bin: ValueError
        nsp = rng.choice([1, 1, 2, 5, 12, 30])
        trains = []
        for s in range(n):
            trains.append(gen_train(rng, tmax, hi, max(1, nsp + rng.randrange(-2, 3)),
                                    base=trains[0] if trains else None))
        r = rng.random()
        if r < 0.15 and chunk <= tmax:
            # spikes exactly on chunk boundaries (first sample of a chunk), in one or all sorters
            for t in (trains if rng.random() < 0.5 else trains[:1]):
                t.append((chunk * rng.randrange(0, tmax // chunk + 1), rng.randrange(0, nchan)))
                t.sort(key=lambda p: p[0])
        last = max([sp[0] for t in trains for sp in t] or [0])
        if 0.15 <= r < 0.40 and last > 0:
            # chunk size equal to / a divisor of the sample index of the last spike
            divs = [d for d in range(1, last + 1) if last % d == 0 and last // d <= 60]
            chunk = rng.choice(divs + [last, last])
        if rng.random() < 0.03:
            trains[rng.randrange(n)] = []    # np.max of an empty train: ValueError (outside the domain)
        cases.append({"trains": trains, "xbin": xbin, "ybin": ybin, "nchan": nchan, "chunk": chunk, "fs": 30000})
    # defaults (binsize / chunk from fs) on small fs so that the model stays small
    for fs in (2500, 5000, 12500):
        if int(0.4 * fs / 1000) == fs // 2500:
            t = gen_train(rng, 200, 7, 20)
            cases.append({"trains": [t, gen_train(rng, 200, 7, 15, base=t)], "xbin": 0, "ybin": 2, "nchan": 8,
                          "chunk": 100, "fs": fs})
    return cases


# ----------------------------------------------------------------------------
# 2. stack
# ----------------------------------------------------------------------------
def wsum(d, axis=0):
    """order-sensitive exact aggregate: sum_k (k+1) * row_k."""
    k = np.arange(1, d.shape[0] + 1, dtype=np.int64)
    return (d * k[:, None]).sum(axis=0)


def stack_call(word, data):
    from ibldsp import voltage
    d = np.array(data, dtype=np.int64).reshape(len(word), -1)
    w = np.array(word, dtype=np.int64)
    before = [d.copy(), w.copy()]
    try:
        st, fold = voltage.stack(d, w, fcn_agg=wsum)
        unchanged(before, [d, w], "stack")
        st = as_array(st, (len(set(word)), d.shape[1]), "stack")
        fold = as_array(fold, (len(set(word)),), "stack (fold)", kinds="iu")
    except BadOutput as e:
        return ("exc", str(e))
    except Exception as e:  # noqa
        return ("exc", type(e).__name__)
    return [int(st.shape[0])] + [int(v) for v in st.flatten()] + [int(f) for f in fold]


def stack_oracle(word, data, ctx, desc):
    """default aggregate (nanmean) on float data: row per distinct label in sorted order,
    mean of exactly its traces, fold = multiplicity"""
    from ibldsp import voltage
    d = np.array(data, dtype=float).reshape(len(word), -1)
    try:
        st, fold = voltage.stack(d, np.array(word))
        st = as_array(st, (len(set(word)), d.shape[1]), "stack", kinds="f")
        fold = as_array(fold, (len(set(word)),), "stack (fold)", kinds="iu")
    except Exception as e:  # noqa
        ctx.fail("stack: %s" % (e if isinstance(e, BadOutput) else repr(e)), desc, {"kind": "stack_exception"})
        return
    labels = sorted(set(word))
    ok = st.shape == (len(labels), d.shape[1]) and list(map(int, fold)) == [word.count(g) for g in labels]
    if ok:
        for r, g in enumerate(labels):
            rows = d[[i for i, w in enumerate(word) if w == g], :]
            ok = ok and np.allclose(st[r], rows.mean(axis=0), rtol=0, atol=1e-9 * (1 + np.abs(d).max()))
    if not ok:
        ctx.fail("stack: rows are not the per-label means in sorted label order with the right fold", desc,
                 {"kind": "stack_spec"})


def stack_header_call(word, data, ns, hdr, key_dtypes):
    """stack with a header dict (several keys / dtypes).  Returns (flat observation, failure or None):
    flat = ngroups :: per key the per-label sums (mean x fold, must be integers) ++ fold"""
    from ibldsp import voltage
    labels = sorted(set(word))
    header = {"k%d" % i: np.array(v, dtype=dt) for i, (v, dt) in enumerate(zip(hdr, key_dtypes))}
    keys = list(header.keys())
    d = np.array(data, dtype=float).reshape(len(word), ns)
    try:
        st, hs = voltage.stack(d, np.array(word), header=dict(header))
        st = as_array(st, (len(labels), ns), "stack", kinds="f")
        if not isinstance(hs, dict) or sorted(hs.keys()) != sorted(keys + ["fold"]):
            raise BadOutput("stack(header=...) returned %s, expected a dict with the header keys and 'fold'"
                            % (sorted(hs.keys()) if isinstance(hs, dict) else type(hs).__name__))
        fold = as_array(np.asarray(hs["fold"]), (len(labels),), "stack (fold)", kinds="iu")
        flat = [len(labels)]
        bad = None
        for kname, v, dt in zip(keys, hdr, key_dtypes):
            agg = as_array(np.asarray(hs[kname]), (len(labels),), "stack header %s" % kname, kinds="fiu").astype(float)
            exact = [np.mean([v[i] for i, w in enumerate(word) if w == g]) for g in labels]
            tol = (1e-5 if dt == "float32" else 1e-9) * (1 + max(abs(x) for x in v))     # float32 keys keep float32 means
            if not np.allclose(agg, exact, rtol=0, atol=tol):
                bad = "stack: aggregated header '%s' entry i is not the mean over the traces of the i-th smallest label " \
                      "(got %s, expected %s)" % (kname, agg.tolist(), [float(e) for e in exact])
            sums = agg * np.array([word.count(g) for g in labels], dtype=float)
            flat += [int(round(float(x))) if np.isfinite(x) else -999999 for x in sums]
        rows = np.array([d[[i for i, w in enumerate(word) if w == g], :].mean(axis=0) for g in labels])
        if not np.allclose(st, rows, rtol=0, atol=1e-9 * (1 + np.abs(d).max())) or \
                [int(f) for f in fold] != [word.count(g) for g in labels]:
            bad = bad or "stack(header=...): rows / fold are not the per-label means / multiplicities"
        return flat + [int(f) for f in fold], bad
    except BadOutput as e:
        return None, str(e)
    except Exception as e:  # noqa
        return None, "stack(header=...) raised %r" % (e,)


def stack_int_call(word, data, dtype):
    """default aggregate (nanmean) on integer-typed traces: the result keeps the integer dtype"""
    from ibldsp import voltage
    try:
        st, fold = voltage.stack(np.array(data, dtype=dtype).reshape(len(word), -1), np.array(word))
        st = as_array(st, (len(set(word)), len(data) // len(word)), "stack")
        fold = as_array(fold, (len(set(word)),), "stack (fold)", kinds="iu")
    except BadOutput as e:
        return ("exc", str(e)), None
    except Exception as e:  # noqa
        return ("exc", type(e).__name__), None
    if st.dtype != np.dtype(dtype):
        return ("float", None), st          # F-C20-b repaired: the aggregate keeps its own dtype
    return [int(st.shape[0])] + [int(v) for v in st.flatten()] + [int(f) for f in fold], st


def gen_stack(ctx, ncases):
    rng = ctx.rng
    cases = []
    for _ in range(ncases):
        ntr = rng.choice([1, 2, 3, 5, 8, 13, 24])
        ns = rng.choice([1, 2, 3, 5])
        nl = rng.choice([1, 2, 3, ntr])
        pool = rng.sample(range(-5, 40), min(nl, 45))
        word = [rng.choice(pool) for _ in range(ntr)]
        data = [rng.randrange(-50, 51) for _ in range(ntr * ns)]
        cases.append({"word": word, "data": data, "ns": ns})
    return cases


# ----------------------------------------------------------------------------
# 3. rolling_window / lp
# ----------------------------------------------------------------------------
def rolling_mult(n, w):
    """multiplicity matrix observed through one-hot probes with the flat window"""
    from ibldsp import smooth
    rows = []
    for p in range(n):
        e = np.zeros(n)
        e[p] = 1.0
        e0 = e.copy()
        try:
            out = smooth.rolling_window(e, window_len=w, window="flat")
        except ValueError:
            return [0], True
        out = as_array(out, np.shape(out) if isinstance(out, np.ndarray) and out.ndim == 1 else (n,), "rolling_window")
        unchanged([e0], [e], "rolling_window")
        rows.append(out * (w if w >= 3 else 1))
    m = np.array(rows).T                      # m[k][p]
    mi = np.rint(m)
    exact = bool(np.all(np.abs(m - mi) < 1e-9))
    return [1, int(m.shape[0])] + [int(v) for v in mi.flatten()], exact


def lp_observe(x, pad, fac=(0.1, 0.15)):
    """smooth.lp with the external frequency-domain filter replaced by a recording identity"""
    from ibldsp import smooth
    rec = {}

    def fake_lp(ts, si, b, axis=None):
        rec["padded"] = np.array(ts)
        rec["args"] = (float(si), [float(v) for v in np.asarray(b)])
        return ts
    orig = smooth.ft
    smooth.ft = types.SimpleNamespace(lp=fake_lp)
    try:
        xa = np.array(x, dtype=np.int64)
        out = smooth.lp(xa, list(fac), pad=pad)
    finally:
        smooth.ft = orig
    if not (isinstance(out, np.ndarray) and out.ndim == 1):
        raise BadOutput("smooth.lp returned %s" % (type(out).__name__ if not isinstance(out, np.ndarray) else "shape %s" % (out.shape,)))
    unchanged([np.array(x, dtype=np.int64)], [xa], "smooth.lp")
    padded = rec["padded"]
    if rec["args"] != (1.0, [float(fac[0]) / 2, float(fac[1]) / 2]):
        raise ValueError("ft.lp called with si, b = %r (expected 1, fac / 2)" % (rec["args"],))
    lpad = (len(padded) - len(x)) // 2
    return [int(lpad), len(padded)] + [int(v) for v in padded] + [len(out)] + [int(v) for v in out]


def float_me(pad):
    """pad = m * 2^-e with integer m < 2^53"""
    if pad == 0:
        return 0, 0
    mant, ex = math.frexp(pad)
    m = int(mant * 2 ** 53)
    e = 53 - ex
    while m % 2 == 0 and e > 0:
        m //= 2
        e -= 1
    assert Fraction(m, 2 ** e) == Fraction(pad) and e >= 0
    return m, e


# ----------------------------------------------------------------------------
# 4. savgol
# ----------------------------------------------------------------------------
def savgol_call(window, polynom, x, y):
    from ibldsp import smooth
    xa, ya = np.array(x, dtype=float), np.array(y, dtype=float)
    try:
        with np.errstate(all="ignore"):
            out = smooth.non_uniform_savgol(xa, ya, window, polynom)
    except ValueError:
        return ("exc", 1)
    except UnboundLocalError:
        return ("exc", 2)
    except Exception as e:  # noqa
        return ("exc", type(e).__name__)
    try:
        unchanged([np.array(x, dtype=float), np.array(y, dtype=float)], [xa, ya], "non_uniform_savgol")
        return as_array(out, (len(x),), "non_uniform_savgol", kinds="f")
    except BadOutput as e:
        return ("exc", str(e))


def gen_abscissae(rng, n, maxgap):
    x = [rng.randrange(-5, 6)]
    for _ in range(n - 1):
        x.append(x[-1] + rng.randrange(1, maxgap + 1))
    return x


# ----------------------------------------------------------------------------
# 5. cadzow
# ----------------------------------------------------------------------------
@contextlib.contextmanager
def plain_numba():
    """iblutil.numerical.ismember2d re-declares (and so re-compiles, 0.3 s) a numba-jitted helper on
    every call.  Inside this context numba.jit is the identity decorator: the same helper runs as
    plain Python.  One layout per run is evaluated both ways and compared (see _run)."""
    import numba
    orig = numba.jit
    numba.jit = lambda *a, **k: (a[0] if a and callable(a[0]) and not k else (lambda f: f))
    try:
        yield
    finally:
        numba.jit = orig


def traj_call(x, y):
    from ibldsp import cadzow
    try:
        T, it, itr, trc = cadzow.trajectory(np.array(x, dtype=float), np.array(y, dtype=float))
        nr, nc = T.shape
        ent = -np.ones(nr * nc, dtype=np.int64)
        ent[np.asarray(it[0]) * nc + np.asarray(it[1])] = itr
    except Exception as e:  # noqa
        return ("exc", type(e).__name__)
    return [int(nr), int(nc), nr * nc] + [int(v) for v in ent] + [len(trc)] + [int(v) for v in trc], [int(v) for v in trc]


def layouts(ctx):
    """site layouts: complete grids 1-4 columns x 4-40 rows, checkerboards (NP1), subsets, shuffles"""
    rng = ctx.rng
    out = []
    rows_all = list(range(4, 41)) if ctx.thorough() else [4, 5, 6, 7, 9, 12, 13, 17, 24, 37, 40]
    for ncol in (1, 2, 3, 4):
        for nrow in rows_all:
            if ncol * nrow > (96 if not ctx.thorough() else 160):
                continue
            xs = [16 * c for c in range(ncol)]
            ys = [20 * r for r in range(nrow)]
            full = [(xx, yy) for yy in ys for xx in xs]
            out.append(("grid", ncol, nrow, full))
            if ncol in (2, 4) and nrow % 2 == 0:
                cb = [(xx, yy) for (r, yy) in enumerate(ys) for (c, xx) in enumerate(xs) if (r + c) % 2 == 0]
                out.append(("checker", ncol, nrow, cb))
            if rng.random() < 0.5 and len(full) > 6:
                sub = [p for p in full if rng.random() < 0.8]
                if len(sub) >= 4:
                    out.append(("subset", ncol, nrow, sub))
            if rng.random() < 0.4:
                sh = list(full)
                rng.shuffle(sh)
                out.append(("shuffled", ncol, nrow, sh))
    return out


def denoise_checked(A, x, y, **kw):
    """cadzow.denoise on a private copy; the result must be a complex array of the input's shape and the
    arguments must not be modified (the comparison is always against the caller's untouched original)"""
    from ibldsp import cadzow
    a_in, x_in, y_in = A.copy(), x.copy(), y.copy()
    out = cadzow.denoise(a_in, x_in, y_in, **kw)
    out = as_array(out, A.shape, "cadzow.denoise", kinds="c")
    out = out.copy()
    unchanged([A, x, y], [a_in, x_in, y_in], "cadzow.denoise")
    return out


def svd_checked(d, **kw):
    from ibldsp import voltage
    d_in = d.copy()
    coll = kw.get("collection")
    coll0 = None if coll is None else np.array(coll).copy()
    out = voltage.svd_denoise_npx(d_in, **kw)
    out = as_array(out, d.shape, "svd_denoise_npx", kinds="f")
    out = out.copy()
    unchanged([d] + ([] if coll is None else [coll0]), [d_in] + ([] if coll is None else [np.asarray(coll)]),
              "svd_denoise_npx")
    return out


def cadzow_oracle(ctx, kind, ncol, nrow, sites, meas, full=None, light=False):
    """identity at full rank; plane wave at rank one; noise reduction (measured)"""
    from ibldsp import cadzow
    rng = np.random.default_rng(ctx.rng.randrange(2 ** 31))
    x = np.array([p[0] for p in sites], dtype=float)
    y = np.array([p[1] for p in sites], dtype=float)
    nc = len(sites)
    nf = 5
    desc = {"fn": "cadzow.denoise", "layout": kind, "ncol": ncol, "nrow": nrow, "sites": sites}
    W = rng.standard_normal((nc, nf)) + 1j * rng.standard_normal((nc, nf))
    try:
        if full is None:
            T, _, _, _ = cadzow.trajectory(x, y)
            full = min(T.shape)
        with np.errstate(all="ignore"):
            out = denoise_checked(W, x, y, r=full)
            out_imax = out.copy() if light else denoise_checked(W, x, y, r=full, imax=3)
            if light:
                out_imax[:, 3:] = 0
    except Exception as e:  # noqa
        ctx.fail("cadzow.denoise: %s" % (e if isinstance(e, BadOutput) else repr(e)), desc,
                 {"kind": "cadzow_exception", "layout": kind})
        return
    err = float(np.max(np.abs(out - W))) if np.all(np.isfinite(out)) else float("inf")
    meas["cadzow_fullrank_max_err"] = max(meas.get("cadzow_fullrank_max_err", 0.0), err)
    if not err < 1e-8:
        ctx.fail("cadzow.denoise at full rank does not return its input (max err %g)" % err, desc,
                 {"kind": "cadzow_identity", "layout": kind})
    for niter in (2, 3):
        try:
            with np.errstate(all="ignore"):
                on = denoise_checked(W, x, y, r=full, niter=niter)
        except Exception as e:  # noqa
            ctx.fail("cadzow.denoise(niter=%d): %s" % (niter, e if isinstance(e, BadOutput) else repr(e)), dict(desc, niter=niter),
                     {"kind": "cadzow_exception", "layout": kind})
            continue
        en = float(np.max(np.abs(on - W))) if np.all(np.isfinite(on)) else float("inf")
        meas["cadzow_fullrank_niter_max_err"] = max(meas.get("cadzow_fullrank_niter_max_err", 0.0), en)
        if not en < 1e-8:
            ctx.fail("cadzow.denoise(niter=%d) at full rank does not return its input (max err %g)" % (niter, en),
                     dict(desc, niter=niter), {"kind": "cadzow_identity_niter", "layout": kind})
    if len(sites) % 4 == 0:
        # other values of imax: 1, beyond the number of frequencies (clipped), 0 (falsy: all frequencies)
        for im, nproc in ((1, 1), (nf + 2, nf), (0, nf)):
            try:
                with np.errstate(all="ignore"):
                    oi = denoise_checked(W, x, y, r=full, imax=im)
                if not (np.allclose(oi[:, :nproc], W[:, :nproc], atol=1e-8) and np.all(oi[:, nproc:] == 0)):
                    ctx.fail("cadzow.denoise(imax=%d): processed frequencies differ from the input or others are not zero" % im,
                             dict(desc, imax=im), {"kind": "cadzow_identity_imax", "layout": kind})
            except Exception as e:  # noqa
                ctx.fail("cadzow.denoise(imax=%d): %s" % (im, e if isinstance(e, BadOutput) else repr(e)), dict(desc, imax=im),
                         {"kind": "cadzow_exception", "layout": kind})
    if not (np.allclose(out_imax[:, :3], W[:, :3], atol=1e-8) and np.all(out_imax[:, 3:] == 0)):
        ctx.fail("cadzow.denoise(imax=3): processed frequencies differ from the input or others are not zero",
                 desc, {"kind": "cadzow_identity_imax", "layout": kind})
    if kind in ("grid", "shuffled"):
        # one plane wave (exactly a rank-one trajectory matrix on a complete regular grid)
        kx, ky = rng.uniform(-0.05, 0.05), rng.uniform(-0.05, 0.05)
        pw = (np.exp(1j * (kx * x + ky * y))[:, None] * (rng.standard_normal(nf) + 1j * rng.standard_normal(nf))[None, :])
        try:
            with np.errstate(all="ignore"):
                o1 = denoise_checked(pw, x, y, r=1)
        except Exception as e:  # noqa
            ctx.fail("cadzow.denoise(rank 1): %s" % (e if isinstance(e, BadOutput) else repr(e)), desc,
                     {"kind": "cadzow_exception", "layout": kind})
            return
        e1 = float(np.max(np.abs(o1 - pw))) if np.all(np.isfinite(o1)) else float("inf")
        meas["cadzow_planewave_rank1_max_err"] = max(meas.get("cadzow_planewave_rank1_max_err", 0.0), e1)
        if not e1 < 1e-8:
            ctx.fail("cadzow.denoise(rank 1) changes a single plane wave (max err %g)" % e1, desc,
                     {"kind": "cadzow_planewave", "layout": kind})
        if nc >= 16 and not light:
            noise = 0.3 * (rng.standard_normal(pw.shape) + 1j * rng.standard_normal(pw.shape))
            try:
                with np.errstate(all="ignore"):
                    o2 = denoise_checked(pw + noise, x, y, r=1)
            except Exception as e:  # noqa
                ctx.fail("cadzow.denoise(rank 1, noisy): %s" % (e if isinstance(e, BadOutput) else repr(e)), desc,
                         {"kind": "cadzow_exception", "layout": kind})
                return
            ratio = float(np.linalg.norm(o2 - pw) / np.linalg.norm(noise))
            meas.setdefault("cadzow_noise_ratio_rank1", []).append(round(ratio, 4))


def svd_groups_observe(coll, rank, nc=None):
    """svd_denoise_npx with the external _svd_denoise replaced by a recording identity; row i of the data
    holds the number i, so the recorded blocks show which traces were passed, in which order, with which rank"""
    from ibldsp import voltage
    calls = []

    def fake(datr, rank):
        calls.append((int(rank), [int(v) for v in datr[:, 0]]))
        return datr
    orig = voltage._svd_denoise
    voltage._svd_denoise = fake
    try:
        nc = len(coll) if coll is not None else nc
        data = np.tile(np.arange(nc, dtype=float)[:, None], (1, 3))
        out = voltage.svd_denoise_npx(data, rank=rank or None, collection=None if coll is None else np.array(coll))
    finally:
        voltage._svd_denoise = orig
    res = [len(calls)]
    for rk, idx in calls:
        res += [rk, len(idx)] + idx
    return res + [nc] + [int(v) if v == int(v) else -2 for v in out[:, 0]]


def svd_oracle(ctx, meas):
    from ibldsp import voltage
    rng = np.random.default_rng(ctx.rng.randrange(2 ** 31))
    # every collection carries data of rank m and the requested rank is ncoll * m (>= rank of the data,
    # per-collection share exactly m): the input must come back.  Sizes include the non-round 47, 49, 98.
    sizes = [47, 49, 98, 7, 13, 31, 64, 96] + [ctx.rng.randrange(4, 100) for _ in range(12 if ctx.thorough() else 4)]
    for size in sizes:
        for ncoll in (1, 2, 3):
            if ncoll * size > 300:
                continue
            nc = ncoll * size
            coll = np.arange(nc) % ncoll
            for m in (1, 2, 3):
                if m > size:
                    continue
                ns = 40
                d = np.zeros((nc, ns))
                for col in range(ncoll):
                    ind = np.where(coll == col)[0]
                    d[ind, :] = rng.standard_normal((ind.size, m)) @ rng.standard_normal((m, ns))
                desc = {"fn": "svd_denoise_npx", "collections": ncoll, "collection_size": size, "data_rank_per_collection": m,
                        "rank": ncoll * m}
                try:
                    out = svd_checked(d, rank=ncoll * m, collection=coll if ncoll > 1 else None)
                except Exception as e:  # noqa
                    ctx.fail("svd_denoise_npx: %s" % (e if isinstance(e, BadOutput) else repr(e)), desc, {"kind": "svd_exception"})
                    continue
                err = float(np.max(np.abs(out - d)) / np.max(np.abs(d)))
                meas["svd_percollection_lowrank_max_rel_err"] = max(meas.get("svd_percollection_lowrank_max_rel_err", 0.0), err)
                if not err < 1e-9:
                    ctx.fail("svd_denoise_npx with rank >= rank of the data does not return its input "
                             "(%d collections of %d channels, rank %d each, rel err %g)" % (ncoll, size, m, err),
                             desc, {"kind": "svd_identity_percollection"})
    for nc, ns, ncoll in [(8, 30, 1), (12, 40, 2), (16, 20, 4), (24, 50, 3), (5, 9, 1)]:
        d = rng.standard_normal((nc, ns))
        coll = None if ncoll == 1 else np.sort(rng.integers(0, ncoll, nc))
        if coll is not None and ctx.rng.random() < 0.5:
            coll = rng.permutation(coll)
        desc = {"fn": "svd_denoise_npx", "nc": nc, "ns": ns, "collection": None if coll is None else coll.tolist()}
        try:
            out = svd_checked(d, rank=nc, collection=coll)
            k = max(1, nc // 4)
            low = rng.standard_normal((nc, k)) @ rng.standard_normal((k, ns))
            out_low = svd_checked(low, rank=k)
            noisy = low + 0.2 * rng.standard_normal(low.shape)
            out_noisy = svd_checked(noisy, rank=k)
        except Exception as e:  # noqa
            ctx.fail("svd_denoise_npx: %s" % (e if isinstance(e, BadOutput) else repr(e)), desc, {"kind": "svd_exception"})
            continue
        e_full = float(np.max(np.abs(out - d)))
        e_low = float(np.max(np.abs(out_low - low)))
        meas["svd_fullrank_max_err"] = max(meas.get("svd_fullrank_max_err", 0.0), e_full)
        meas["svd_rank_k_data_max_err"] = max(meas.get("svd_rank_k_data_max_err", 0.0), e_low)
        meas.setdefault("svd_noise_ratio", []).append(
            round(float(np.linalg.norm(out_noisy - low) / np.linalg.norm(noisy - low)), 4))
        if not e_full < 1e-9:
            ctx.fail("svd_denoise_npx at full rank does not return its input (max err %g)" % e_full, desc,
                     {"kind": "svd_identity"})
        if not e_low < 1e-9:
            ctx.fail("svd_denoise_npx(rank k) changes data of rank k (max err %g)" % e_low, desc,
                     {"kind": "svd_identity_rank_k"})


# ----------------------------------------------------------------------------
# the check
# ----------------------------------------------------------------------------
def run(ctx):
    """An exception while interpreting what the implementation returned means its behaviour left the
    shape the canonicalisers understand: reported as a (model/implementation) disagreement, not as a
    harness crash.  On the unchanged tree this path is never taken (the run is deterministic)."""
    try:
        return _run(ctx)
    except Exception as e:  # noqa
        import traceback
        tb = traceback.format_exc()
        frames = traceback.extract_tb(e.__traceback__)
        if frames and frames[-1].filename.endswith("common.py"):
            raise                       # the Coq/OCaml machinery failed: no verdict about the code
        ctx.disagree("the implementation's behaviour could not be interpreted by the harness: %r" % (e,),
                     {"fn": "harness", "traceback": tb[-1500:]})
        return common.finish(ctx, TRUSTED, rule="aborted", samples=[{"aborted": repr(e)}], evaluations=0,
                             distinct_nontrivial=0)


def _run(ctx):
    # RankSweep.v holds only the exhaustive vm_compute sweeps over the integer binary64 model: kernel-checked by coqc in the
    # build, taken as given by the independent re-check (coqchk would re-evaluate them without the VM); named in the evidence
    common.proof_obligations(ctx, whitelist=WHITELIST, coqchk_admit=["IBL.C20.RankSweep"])
    for name, ax in ctx.theorems.items():
        if name not in AXIOM_THEOREMS and ax != "Closed under the global context":
            ctx.broken_proofs.append({"theorem": name, "why": "expected to be closed under the global context, uses %s" % ax})
    from ibldsp import smooth
    rng = ctx.rng
    T = ctx.thorough()
    inputs, outputs, descs = [], [], []
    dist = {}
    nontrivial = set()
    samples = []
    meas = ctx.measurements

    def add(inp, out, desc):
        inputs.append(inp)
        outputs.append(out)
        descs.append(desc)

    def count(k, v=1):
        dist[k] = dist.get(k, 0) + v

    timing = ctx.coverage.setdefault("phase_wall_s", {})

    def lap(name):
        timing[name] = round(ctx.elapsed(), 1)
    lap("proofs")

    # ---------------- venn ----------------
    for case in gen_venn(ctx, 2500 if T else 350):
        desc = dict(case, fn="spikes_venn%d" % len(case["trains"]))
        res = venn_call(case)
        count("venn_cases")
        if isinstance(res, tuple):
            count("venn_error_" + str(res[1]))
            empty = any(len(t) == 0 for t in case["trains"])
            ny = -(-(2 * case["nchan"] + case["ybin"]) // (2 * case["ybin"]))
            oob = any(c // case["ybin"] >= ny for t in case["trains"] for _, c in t)
            if not (empty or oob) or res[1] != "ValueError":
                ctx.fail("spikes_venn: %s on %s spike trains" % (res[1], "valid" if not (empty or oob) else "out-of-domain"),
                         desc, {"kind": "venn_exception"})
                continue
            add(venn_enc_inp(case), [0], desc)
            continue
        for b in venn_oracle(case, res):
            ctx.fail("venn: " + b, desc, {"kind": "venn_conservation"})
        # chunk invariance: chunk sizes that are multiples of the bin size give the single-chunk result
        xb = case["xbin"] or case["fs"] // 2500
        ch = case["chunk"] or 20 * case["fs"]
        if ch % xb == 0:
            tmax = max(s for t in case["trains"] for s, _ in t)
            one = venn_call(case, chunk=xb * (tmax // xb + 1))
            count("venn_aligned_chunking")
            if one != res:
                ctx.fail("venn: aligned chunking changes the region counts (%s vs single chunk %s)" % (res, one),
                         desc, {"kind": "venn_chunk_invariance"})
        nch = max(s for t in case["trains"] for s, _ in t) // ch + 1
        count("venn_multi_chunk", nch > 1)
        count("venn_3_sorters", len(case["trains"]) == 3)
        if nch > 1 and sum(1 for v in res if v) >= 2:
            nontrivial.add(("venn", json.dumps(case, sort_keys=True)))
        add(venn_enc_inp(case), [1, len(res)] + res, desc)
        if len(samples) < 2 and nch > 1:
            samples.append({"fn": desc["fn"], "chunk": case["chunk"], "xbin": case["xbin"],
                            "n_spikes": [len(t) for t in case["trains"]], "result": res})
    # ---- NON-INTEGER chunk sizes: chunk k covers [k c, (k+1) c).  Dyadic fractions (k c and k c + c exact in
    # binary64) with spikes on every boundary sample floor(k c) and ceil(k c); the default chunk 20 * fs with a
    # non-integer (dyadic) rate.  Model: venn_q on the rational cn / cd (run kind 11).
    for k in range(240 if T else 60):
        n = 2 + k % 2
        cd = [2, 4, 8, 2][k % 4]
        cn = rng.choice([m for m in range(cd + 1, 40 * cd) if m % 2 == 1])       # irreducible, c > 1
        c = cn / cd
        xbin = rng.choice([1, 2, 3])
        ybin, nchan = rng.choice([1, 2]), rng.choice([4, 8])
        nchk = rng.randrange(2, 9)
        bsamples = sorted({int(math.floor(j * c)) for j in range(1, nchk + 1)} | {int(math.ceil(j * c)) for j in range(1, nchk + 1)})
        trains = []
        for s_ in range(n):
            sp = [(b, rng.randrange(0, nchan)) for b in bsamples if rng.random() < 0.8]
            sp += [(rng.randrange(0, int(nchk * c) + 1), rng.randrange(0, nchan)) for _ in range(rng.randrange(0, 6))]
            sp = sorted(sp or [(bsamples[0], 0)], key=lambda p: p[0])
            trains.append(sp)
        case = {"trains": trains, "xbin": xbin, "ybin": ybin, "nchan": nchan, "chunk": c, "fs": 30000}
        desc = dict(case, fn="spikes_venn%d" % n, chunk_fraction=[cn, cd])
        res = venn_call(case)
        count("venn_float_chunk_cases")
        if isinstance(res, tuple):
            ctx.fail("spikes_venn: %s with the non-integer chunk size %s" % (res[1], c), desc, {"kind": "venn_exception"})
            continue
        for b in venn_oracle(case, res):
            ctx.fail("venn (chunk size %s): %s" % (c, b), desc, {"kind": "venn_conservation"})
        inp = [11, n, xbin, ybin, nchan, cn, cd]
        for t in trains:
            inp += [len(t)] + [a for a, _ in t] + [b_ for _, b_ in t]
        add(inp, [1, len(res)] + res, desc)
        nontrivial.add(("venn_q", cn, cd, json.dumps(trains)))
    for fs_ in (2500.03125, 5000.125, 2500.5):
        # default chunk 20 * fs with a non-integer rate, spikes on the chunk boundaries
        c = 20 * fs_
        fr = Fraction(c)
        bsamples = sorted({int(math.floor(j * c)) for j in (1, 2, 3)} | {int(math.ceil(j * c)) for j in (1, 2, 3)})
        trains = [[(b, rng.randrange(0, 4)) for b in bsamples] + [(int(3.5 * c), 1)],
                  [(b, rng.randrange(0, 4)) for b in bsamples[::2]] + [(int(3.5 * c) + 1, 1)]]
        xb_ = [500, 250, 1000][int(fs_) % 3]       # explicit time bin: the default (1 sample) would give 150 000 bins per chunk
        case = {"trains": trains, "xbin": xb_, "ybin": 2, "nchan": 4, "chunk": 0, "fs": fs_}
        desc = dict(case, fn="spikes_venn2", chunk_fraction=[fr.numerator, fr.denominator], default_chunk=True)
        res = venn_call(case)
        count("venn_float_chunk_cases")
        if isinstance(res, tuple):
            ctx.fail("spikes_venn: %s with fs = %s and the default chunk size" % (res[1], fs_), desc, {"kind": "venn_exception"})
            continue
        for b in venn_oracle(case, res):
            ctx.fail("venn (default chunk, fs = %s): %s" % (fs_, b), desc, {"kind": "venn_conservation"})
        inp = [11, 2, xb_, 2, 4, fr.numerator, fr.denominator]
        for t in trains:
            inp += [len(t)] + [a for a, _ in t] + [b_ for _, b_ in t]
        add(inp, [1, len(res)] + res, desc)
    # non-dyadic float chunk sizes (fix bbf5c54: both edges of a chunk come from the same product, so chunk k =
    # [fl(k c), fl((k+1) c)) and consecutive chunks tile for ANY float): spikes on every integer sample equal to k c.
    # Oracle only (the exact rational model applies to exact products; fl(k c) may round across the integer).
    nd_cases = [(1.1, 1, 2), (2.2, 1, 2), (333.3, 1, 2), (0.7, 1, 2), (3.3, 2, 4), (33.3, 3, 4), (599999.4, 1000, 4)]
    for c, xb_, nchan_ in nd_cases:
        ks = [k_ for k_ in range(1, 61) if abs(k_ * c - round(k_ * c)) < 1e-6 and k_ * c < 4e6][:8]
        on = [int(round(k_ * c)) for k_ in ks]
        for variant in range(3):
            t0 = [(s_, variant % nchan_) for s_ in on]
            t1 = [(s_, variant % nchan_) for s_ in on[::2]] + [(on[-1] + 40, 1)]
            t2 = [(s_ + d_, 0) for s_ in on[:3] for d_ in (-1, 0, 1) if s_ + d_ >= 0]
            trains = [sorted(t0), sorted(t1)] + ([sorted(t2)] if variant == 2 else [])
            case = {"trains": trains, "xbin": xb_, "ybin": 1, "nchan": nchan_, "chunk": c, "fs": 30000}
            desc = dict(case, fn="spikes_venn%d" % len(trains), non_dyadic_chunk=True)
            res = venn_call(case)
            count("venn_nondyadic_chunk_cases")
            if isinstance(res, tuple):
                ctx.fail("spikes_venn: %s with the chunk size %s" % (res[1], c), desc, {"kind": "venn_exception"})
                continue
            for b in venn_oracle(case, res):
                ctx.fail("venn (non-dyadic chunk size %s, spikes on the samples k x chunk %s): %s" % (c, on[:4], b), desc,
                         {"kind": "venn_conservation"})
    # the default chunk 20 * fs with a non-dyadic rate: 5 x 599999.4 = 2999997
    case = {"trains": [[(2999997, 3), (2999998, 3)], [(2999996, 3), (2999997, 3), (3000100, 1)]], "xbin": 1000, "ybin": 2,
            "nchan": 8, "chunk": 0, "fs": 29999.97}
    res = venn_call(case)
    count("venn_nondyadic_chunk_cases")
    desc = dict(case, fn="spikes_venn2", non_dyadic_chunk=True, default_chunk=True)
    if isinstance(res, tuple):
        ctx.fail("spikes_venn: %s with fs = 29999.97 and the default chunk size" % (res[1],), desc, {"kind": "venn_exception"})
    else:
        for b in venn_oracle(case, res):
            ctx.fail("venn (default chunk, fs = 29999.97): %s" % b, desc, {"kind": "venn_conservation"})
    # realistic sizes (defaults; oracle only — the model would enumerate 5e6 bins per chunk)
    for k in range(6 if T else 2):
        n = 2 + k % 2
        base = sorted((rng.randrange(0, 30000 * 50), rng.randrange(0, 384)) for _ in range(1500))
        trains = [base] + [gen_train(rng, 30000 * 50, 383, 1200, base=base) for _ in range(n - 1)]
        case = {"trains": trains, "xbin": 0, "ybin": 4, "nchan": 384, "chunk": rng.choice([0, 100000, 250001]),
                "fs": 30000}
        res = venn_call(case)
        count("venn_realistic")
        small = {"fn": "spikes_venn%d" % n, "realistic": True, "chunk": case["chunk"], "seed_case": k}
        if isinstance(res, tuple):
            ctx.fail("spikes_venn raised %s on realistic trains" % res[1], dict(case, fn=small["fn"]),
                     {"kind": "venn_exception"})
        else:
            for b in venn_oracle(case, res):
                ctx.fail("venn: " + b, dict(case, fn=small["fn"]), {"kind": "venn_conservation"})

    lap("venn")
    # ---------------- stack ----------------
    for case in gen_stack(ctx, 1500 if T else 250):
        desc = dict(case, fn="stack")
        res = stack_call(case["word"], case["data"])
        count("stack_cases")
        if isinstance(res, tuple):
            ctx.fail("stack raised %s" % res[1], desc, {"kind": "stack_exception"})
            continue
        stack_oracle(case["word"], case["data"], ctx, desc)
        add([2, len(case["word"]), case["ns"]] + case["word"] + case["data"], res, desc)
        if dist["stack_cases"] % 3 == 0:
            # representation: integer dtypes (result is cast back: truncated means, F-C20-b), float32
            dt = ["int64", "int32", "int16"][(dist["stack_cases"] // 3) % 3]
            resi, st = stack_int_call(case["word"], case["data"], dt)
            count("stack_int_" + dt)
            if isinstance(resi, tuple) and resi[0] == "exc":
                ctx.fail("stack on %s data: %s" % (dt, resi[1]), dict(desc, dtype=dt), {"kind": "stack_exception"})
            else:
                if not isinstance(resi, tuple):     # integer result: the faithful (truncating) model applies
                    add([8, len(case["word"]), case["ns"]] + case["word"] + case["data"], resi, dict(desc, dtype=dt))
                d = np.array(case["data"], dtype=float).reshape(len(case["word"]), -1)
                labels = sorted(set(case["word"]))
                exact = np.array([d[[i for i, w in enumerate(case["word"]) if w == g], :].mean(axis=0) for g in labels])
                if not np.allclose(st, exact, rtol=0, atol=1e-9):
                    ctx.fail("stack on integer traces returns truncated per-label means", dict(desc, dtype=dt),
                             {"kind": "stack_int_dtype"})
            from ibldsp import voltage
            d32 = np.array(case["data"], dtype=np.float32).reshape(len(case["word"]), -1)
            ex32 = np.array([d32[[i for i, w in enumerate(case["word"]) if w == g], :].astype(float).mean(axis=0)
                             for g in sorted(set(case["word"]))])
            try:
                st32, _ = voltage.stack(d32, np.array(case["word"], dtype=np.int32))
                st32 = as_array(st32, ex32.shape, "stack", kinds="f")
            except Exception as e:  # noqa
                ctx.fail("stack on float32 traces: %s" % (e if isinstance(e, BadOutput) else repr(e)),
                         dict(desc, dtype="float32"), {"kind": "stack_exception"})
                st32 = None
            if st32 is not None and not np.allclose(st32, ex32, rtol=1e-5, atol=1e-4):
                ctx.fail("stack on float32 traces / int32 labels is not the per-label mean", dict(desc, dtype="float32"),
                         {"kind": "stack_spec"})
        if len(set(case["word"])) > 1 and len(set(case["word"])) < len(case["word"]):
            nontrivial.add(("stack", tuple(case["word"]), tuple(case["data"])))
    samples.append({"fn": "stack", "word": case["word"], "fold": res[-len(set(case["word"])):]})
    # header dict: several keys (int64 / float64 / float32 / int32), labels first appearing in descending,
    # interleaved, random and ascending order; other aggregates (np.sum, np.median, np.mean) once each
    for k in range(160 if T else 48):
        ntr = rng.choice([2, 3, 5, 8, 13])
        ns = rng.choice([1, 2, 3])
        nl = rng.choice([2, 3, min(4, ntr)])
        pool = sorted(rng.sample(range(-5, 40), nl))
        order = k % 4
        if order == 0:
            word = sorted((rng.choice(pool) for _ in range(ntr)), reverse=True)          # descending
        elif order == 1:
            word = [pool[::-1][i % nl] for i in range(ntr)]                               # interleaved, largest first
        elif order == 2:
            word = [rng.choice(pool) for _ in range(ntr)]                                 # random
        else:
            word = sorted(rng.choice(pool) for _ in range(ntr))                           # ascending (control)
        nkeys = rng.choice([1, 2, 3])
        hdr = [[rng.randrange(-20, 21) for _ in range(ntr)] for _ in range(nkeys)]
        kd = [["int64", "float64", "float32", "int32"][(k + j) % 4] for j in range(nkeys)]
        data = [rng.randrange(-50, 51) for _ in range(ntr * ns)]
        desc = {"fn": "stack(header)", "word": word, "ns": ns, "data": data, "header": hdr, "key_dtypes": kd}
        flat, bad = stack_header_call(word, data, ns, hdr, kd)
        count("stack_header_cases")
        count("stack_header_first_appearance_not_ascending",
              [g for i, g in enumerate(word) if g not in word[:i]] != sorted(set(word)))
        if bad:
            ctx.fail(bad, desc, {"kind": "stack_header"})
        if flat is not None:
            add([10, ntr, nkeys] + word + [v for h in hdr for v in h], flat, desc)
            nontrivial.add(("stack_header", tuple(word), tuple(map(tuple, hdr))))
    from ibldsp import voltage as _v
    for agg, ref in ((np.sum, np.sum), (np.median, np.median), (np.mean, np.mean), (np.nanmax, np.max)):
        word = [4, 1, 4, 2, 1, 4]
        d = np.array([[rng.randrange(-9, 10) for _ in range(3)] for _ in word], dtype=float)
        desc = {"fn": "stack", "word": word, "fcn_agg": agg.__name__, "data": d.tolist()}
        try:
            st, fold = _v.stack(d.copy(), np.array(word), fcn_agg=agg)
            st = as_array(st, (3, 3), "stack", kinds="f")
            exp = np.array([ref(d[[i for i, w in enumerate(word) if w == g], :], axis=0) for g in (1, 2, 4)])
            if not np.allclose(st, exp, atol=1e-12) or [int(f) for f in fold] != [2, 1, 3]:
                ctx.fail("stack(fcn_agg=%s): rows are not the per-label aggregates" % agg.__name__, desc, {"kind": "stack_spec"})
        except Exception as e:  # noqa
            ctx.fail("stack(fcn_agg=%s): %s" % (agg.__name__, e if isinstance(e, BadOutput) else repr(e)), desc,
                     {"kind": "stack_exception"})

    lap("stack")
    # ---------------- rolling_window ----------------
    ex = common.Extracted(PROP)
    roll_cases = []
    for w in range(0, 65):
        ns_ = sorted({max(w, 1), w + 1, w + 5, 2 * w + 3} | ({w - 1} if w > 1 else set()))
        if not T:
            ns_ = ns_[:3] if w > 24 else ns_
        for n in ns_:
            if n >= 1 and n <= 140:
                roll_cases.append((n, w))
    taps_model = ex.run_many([[7, n, w] for n, w in roll_cases])
    worst = 0.0
    for (n, w), tm in zip(roll_cases, taps_model):
        desc = {"fn": "rolling_window", "n": n, "window_len": w}
        try:
            obs, exact = rolling_mult(n, w)
        except Exception as e:  # noqa
            ctx.fail("rolling_window: %s" % (e if isinstance(e, BadOutput) else repr(e)), desc, {"kind": "rolling_exception"})
            continue
        count("rolling_cases")
        if not exact:
            ctx.disagree("rolling_window(flat) one-hot response is not a multiple of 1/window_len", desc)
        add([3, n, w], obs, desc)
        if obs == [0]:
            count("rolling_valueerror")
            if n >= w:
                ctx.fail("rolling_window raised ValueError although len(x) >= window_len", desc,
                         {"kind": "rolling_exception"})
            continue
        if w >= 3:
            nontrivial.add(("rolling", n, w))
        # oracle on the implementation: length kept, constants returned, for every window
        xr = np.array([rng.randrange(-20, 21) for _ in range(n)], dtype=float)
        for win in WINDOWS:
            try:
                xr0 = xr.copy()
                oc = smooth.rolling_window(np.full(n, 7.0), window_len=w, window=win)
                orr = smooth.rolling_window(xr, window_len=w, window=win)
                unchanged([xr0], [xr], "rolling_window")
                if not (isinstance(oc, np.ndarray) and isinstance(orr, np.ndarray) and oc.dtype.kind == "f"):
                    raise BadOutput("rolling_window returned %s" % type(oc).__name__)
            except Exception as e:  # noqa
                ctx.fail("rolling_window: %s" % (e if isinstance(e, BadOutput) else repr(e)), dict(desc, window=win),
                         {"kind": "rolling_exception"})
                continue
            if oc.shape != (n,) or orr.shape != (n,):
                ctx.fail("rolling_window changes the length / shape (%s -> %s)" % ((n,), oc.shape), dict(desc, window=win),
                         {"kind": "rolling_length"})
                continue
            if not np.allclose(oc, 7.0, rtol=0, atol=1e-9):
                ctx.fail("rolling_window does not return a constant unchanged", dict(desc, window=win),
                         {"kind": "rolling_constant"})
            # values: model taps + NumPy's own window weights vs the implementation
            if tm[0] == 1 and w >= 3 and tm[1] == n:
                wts = np.ones(w) if win == "flat" else getattr(np, win)(w)
                taps = np.array(tm[2:], dtype=np.int64).reshape(n, w)
                pred = (xr[taps] * (wts / wts.sum())[None, :]).sum(axis=1)
                err = float(np.max(np.abs(pred - orr)))
                worst = max(worst, err)
                if err > 1e-9 * 21:
                    ctx.disagree("rolling_window values differ from the model's taps x window weights (%g)" % err,
                                 dict(desc, window=win, x=xr.tolist()))
    meas["rolling_values_vs_model_max_abs_err"] = worst
    samples.append({"fn": "rolling_window", "n": 8, "window_len": 3, "taps_of_outputs": ex.run_many([[7, 8, 3]])[0][2:]})

    # ---- input dtype / container as a dimension of every smoother: constants come back unchanged TO ROUNDING
    # (never truncated: the result is floating point whatever the input dtype) and the length is kept; the result
    # does not depend on the dtype the same numbers are stored in
    DT = ["int16", "int32", "int64", "uint8", "float32", "list_int", "float64"]
    worst_dt = 0.0
    for dt in DT:
        consts = [1, 2, 3, 7, 100, 255] + ([] if dt == "uint8" else [-1, -7, -100]) + ([] if dt in ("uint8", "int16") else [12345])

        def mk(vals, dt=dt):
            return [int(v) for v in vals] if dt == "list_int" else np.array(vals, dtype=dt)
        for win in WINDOWS:
            for w in ((3, 4, 5, 7, 8, 11, 16) if T else (3, 4, 7, 11)):
                for n in ((w, w + 3, 30) if T else (w, 30)):
                    for c in consts:
                        desc = {"fn": "rolling_window", "n": n, "window_len": w, "window": win, "dtype": dt, "constant": c}
                        count("smoother_dtype_cases")
                        try:
                            out = smooth.rolling_window(mk([c] * n), window_len=w, window=win)
                            out = as_array(out, (n,), "rolling_window", kinds="fiu")
                            if out.dtype.kind != "f":
                                raise BadOutput("rolling_window returned dtype %s (values %s for the constant %d): the smoothed "
                                                "values are cast back / truncated" % (out.dtype, sorted(set(out.tolist()))[:3], c))
                        except Exception as e:  # noqa
                            ctx.fail("rolling_window on %s input: %s" % (dt, e if isinstance(e, BadOutput) else repr(e)), desc,
                                     {"kind": "rolling_dtype"})
                            continue
                        err = float(np.max(np.abs(out - c)))
                        worst_dt = max(worst_dt, err / (1 + abs(c)))
                        if err > 1e-9 * (1 + abs(c)):
                            ctx.fail("rolling_window does not return the constant %d unchanged on %s input (got %r)"
                                     % (c, dt, float(out[np.argmax(np.abs(out - c))])), desc, {"kind": "rolling_constant"})
                # same numbers, other dtype: same result
                vals = [rng.randrange(0, 100) for _ in range(w + 9)]
                try:
                    a = as_array(smooth.rolling_window(mk(vals), window_len=w, window=win), (w + 9,), "rolling_window", kinds="f")
                    b = smooth.rolling_window(np.array(vals, dtype=float), window_len=w, window=win)
                    if not np.allclose(a, b, rtol=0, atol=1e-9 * 100):
                        ctx.fail("rolling_window: the result depends on the input dtype (%s vs float64)" % dt,
                                 {"fn": "rolling_window", "n": w + 9, "window_len": w, "window": win, "dtype": dt, "x": vals},
                                 {"kind": "rolling_dtype"})
                except Exception as e:  # noqa
                    ctx.fail("rolling_window on %s input: %s" % (dt, e if isinstance(e, BadOutput) else repr(e)),
                             {"fn": "rolling_window", "n": w + 9, "window_len": w, "window": win, "dtype": dt, "x": vals},
                             {"kind": "rolling_dtype"})
        if dt != "list_int":          # smooth.lp reads ts.shape: arrays only
            for n in (1, 2, 5, 16, 33):
                for pad in (0.0, 0.2, 1.0):
                    for c in consts[:6]:
                        desc = {"fn": "smooth.lp", "n": n, "pad": pad, "dtype": dt, "constant": c}
                        count("smoother_dtype_cases")
                        try:
                            out = as_array(smooth.lp(mk([c] * n), [0.1, 0.15], pad=pad), (n,), "smooth.lp", kinds="f")
                        except Exception as e:  # noqa
                            ctx.fail("smooth.lp on %s input: %s" % (dt, e if isinstance(e, BadOutput) else repr(e)), desc,
                                     {"kind": "lp_exception"})
                            continue
                        if float(np.max(np.abs(out - c))) > 1e-9 * (1 + abs(c)):
                            ctx.fail("smooth.lp does not return the constant %d unchanged on %s input" % (c, dt), desc,
                                     {"kind": "lp_constant"})
        # Savitzky-Golay: integer-typed abscissae and samples of a polynomial with integer coefficients
        for window, order in ((3, 1), (5, 2), (7, 3)):
            xi = [3 * i + (i % 3) for i in range(window + 6)]
            if dt == "uint8":
                cf = [2, 1] if order == 1 else [5, 0, 0]
            else:
                cf = [rng.randrange(-2, 3) for _ in range(order + 1)]
            yi = [sum(cc * xx ** j for j, cc in enumerate(cf)) for xx in xi]
            if dt in ("uint8", "int16") and (max(map(abs, yi)) > 250 or min(yi) < 0):
                cf = [7]
                yi = [7] * len(xi)
            # abscissae: same dtype as the samples; for unsigned samples also signed abscissae, and uint64 sample indices
            for xdt in ([dt, "uint64", "int32", "float32"] if dt != "uint8" else ["int64", "uint8", "uint64", "uint32", "uint16"]):
                desc = {"fn": "non_uniform_savgol", "window": window, "polynom": order, "x": xi, "y": yi, "dtype": dt,
                        "x_dtype": xdt}
                count("smoother_dtype_cases")
                try:
                    with np.errstate(all="ignore"):
                        import warnings
                        with warnings.catch_warnings():
                            warnings.simplefilter("ignore")
                            out = smooth.non_uniform_savgol(mk(xi) if xdt == dt else np.array(xi, dtype=xdt), mk(yi), window, order)   # xi >= 0
                    out = as_array(out, (len(xi),), "non_uniform_savgol", kinds="f")
                    ref_ = smooth.non_uniform_savgol(np.array(xi, dtype=float), np.array(yi, dtype=float), window, order)
                    if not float(np.max(np.abs(out - np.array(yi, dtype=float)))) <= 1e-7 * (1 + max(map(abs, yi))):
                        ctx.fail("non_uniform_savgol does not reproduce a polynomial on %s abscissae / %s samples" % (xdt, dt),
                                 desc, {"kind": "savgol_polynomial"})
                    elif not np.allclose(out, ref_, rtol=0, atol=1e-9 * (1 + max(map(abs, yi)))):
                        ctx.fail("non_uniform_savgol: the same abscissae stored as %s instead of float64 change the result"
                                 % xdt, desc, {"kind": "savgol_dtype"})
                except Exception as e:  # noqa
                    ctx.fail("non_uniform_savgol on %s abscissae / %s samples: %s" % (xdt, dt, e if isinstance(e, BadOutput) else repr(e)),
                             desc, {"kind": "savgol_exception"})
        if dt != "list_int":
            sig = mk([5 + (i % 4) for i in range(40)])
            desc = {"fn": "smooth_interpolate_savgol", "n": 40, "dtype": dt, "window": 7, "order": 2, "nan_positions": [],
                    "signal": [float(v) for v in np.asarray(sig)]}
            try:
                out = smooth.smooth_interpolate_savgol(sig, window=7, order=2)
                out = as_array(out, (40,), "smooth_interpolate_savgol", kinds="f")
                ref = smooth.smooth_interpolate_savgol(np.asarray(sig, dtype=float), window=7, order=2)
                if not (np.all(np.isfinite(out)) and np.allclose(out, ref, atol=1e-9)):
                    ctx.fail("smooth_interpolate_savgol: the result depends on the input dtype (%s)" % dt, desc,
                             {"kind": "savgol_nan_fill"})
            except Exception as e:  # noqa
                ctx.fail("smooth_interpolate_savgol on %s input: %s" % (dt, e if isinstance(e, BadOutput) else repr(e)), desc,
                         {"kind": "savgol_nan_exception"})
    meas["smoother_constant_any_dtype_max_rel_err"] = worst_dt
    # parameters otherwise left at their defaults / other accepted argument kinds
    for wn in WINDOWS:
        xl = [float(rng.randrange(-9, 10)) for _ in range(17)]
        desc = {"fn": "rolling_window", "n": 17, "window_len": 5, "window": wn, "x_is_list": True}
        try:
            a = smooth.rolling_window(list(xl), window_len=5, window=wn)
            b = smooth.rolling_window(np.array(xl), window_len=5, window=wn)
            if not (isinstance(a, np.ndarray) and a.shape == (17,) and np.array_equal(a, b)):
                ctx.fail("rolling_window on a Python list differs from the same data as an array", desc,
                         {"kind": "rolling_list"})
        except Exception as e:  # noqa
            ctx.fail("rolling_window on a Python list raised %r" % (e,), desc, {"kind": "rolling_exception"})
    dflt = smooth.rolling_window(np.arange(30.0) ** 2)
    if not np.array_equal(dflt, smooth.rolling_window(np.arange(30.0) ** 2, window_len=11, window="blackman")):
        ctx.fail("rolling_window defaults are not window_len=11, window='blackman'", {"fn": "rolling_window", "defaults": True},
                 {"kind": "rolling_defaults"})
    for bad_call, exc in ((lambda: smooth.rolling_window(np.ones(20), 5, "boxcar"), ValueError),
                          (lambda: smooth.rolling_window(np.ones((4, 5)), 3, "flat"), ValueError),
                          (lambda: smooth.non_uniform_savgol(np.arange(9.), np.arange(9.), 5.0, 2), TypeError),
                          (lambda: smooth.non_uniform_savgol(np.arange(9.), np.arange(9.), 5, 2.0), TypeError),
                          (lambda: smooth.non_uniform_savgol(np.arange(9.), np.arange(8.), 5, 2), ValueError)):
        count("documented_error_cases")
        try:
            bad_call()
            ctx.disagree("a documented argument error is no longer raised (%s expected)" % exc.__name__,
                         {"fn": "argument checks"})
        except exc:
            pass
        except Exception as e:  # noqa
            ctx.disagree("a documented argument error changed type: %r instead of %s" % (e, exc.__name__),
                         {"fn": "argument checks"})
    lap("rolling")
    # ---------------- lp ----------------
    pads = [0.2, 0.2, 0.1, 0.25, 0.5, 1.0, 0.05, 0.3, 0.7, 1e-6, 0.0] + [rng.random() for _ in range(6)]
    lp_ns = sorted({1, 2, 3, 4, 5, 7, 10, 15, 16, 25, 35, 45, 64, 100, 127, 333} |
                   {rng.randrange(1, 3000) for _ in range(40 if T else 8)})
    worst_dc = 0.0
    for n in lp_ns:
        for pad in pads:
            desc = {"fn": "smooth.lp", "n": n, "pad": pad}
            x = [rng.randrange(-99, 100) for _ in range(n)]
            m, e = float_me(pad)
            count("lp_cases")
            try:
                obs = lp_observe(x, pad, fac=[(0.1, 0.15), (0.0, 0.4), (0.25, 0.5), (0.02, 0.03)][(n + len(str(pad))) % 4])
                oc = smooth.lp(np.full(n, 3.0), [0.1, 0.15], pad=pad)
                oc2 = smooth.lp(np.full(n, -2.5), [0.0, 0.4], pad=pad)
            except Exception as ex_:  # noqa
                ctx.fail("smooth.lp: %s" % (ex_ if isinstance(ex_, BadOutput) else repr(ex_)), desc, {"kind": "lp_exception"})
                continue
            tag = {"kind": "lp_length", "pad_zero": pad == 0}
            add([4, m, e] + x, obs, desc)
            if not (isinstance(oc, np.ndarray) and isinstance(oc2, np.ndarray) and oc.dtype.kind == "f"):
                ctx.fail("smooth.lp returned %s instead of a float array" % type(oc).__name__, desc, {"kind": "lp_exception"})
            elif oc.shape != (n,) or oc2.shape != (n,):
                ctx.fail("smooth.lp changes the length / shape (%s -> %s)" % ((n,), oc.shape), desc, tag)
            else:
                dc = max(float(np.max(np.abs(oc - 3.0))), float(np.max(np.abs(oc2 + 2.5))))
                worst_dc = max(worst_dc, dc)
                if dc > 1e-9:
                    ctx.fail("smooth.lp does not return a constant unchanged (%g)" % dc, desc, {"kind": "lp_constant"})
                nontrivial.add(("lp", n, pad))
    meas["lp_constant_max_abs_err"] = worst_dc

    lap("lp")
    # ---------------- savgol ----------------
    sg_inputs, sg_impl, sg_desc = [], [], []
    worst_poly = 0.0
    nsg = 400 if T else 90
    for k in range(nsg):
        window = rng.choice([1, 3, 3, 5, 5, 7, 9, 11])
        polynom = rng.choice([p for p in (0, 1, 2, 3, 4) if p < window] + [window] * (rng.random() < 0.05))
        n = rng.choice([window, window + 1, window + 2, 2 * window + 1, rng.randrange(window, 40)])
        if rng.random() < 0.04:
            window += 1                    # even window: ValueError
        if rng.random() < 0.03:
            n = max(1, window - 1)         # too short: ValueError
        x = gen_abscissae(rng, n, rng.choice([1, 2, 4]))
        polydata = rng.random() < 0.6 and polynom < window
        if polydata:
            deg = rng.randrange(0, polynom + 1)
            cf = [rng.randrange(-3, 4) for _ in range(deg + 1)]
            y = [sum(c * xx ** j for j, c in enumerate(cf)) for xx in x]
        else:
            y = [rng.randrange(-30, 31) for _ in range(n)]
        desc = {"fn": "non_uniform_savgol", "window": window, "polynom": polynom, "x": x, "y": y}
        out = savgol_call(window, polynom, x, y)
        count("savgol_cases")
        sg_inputs.append([5, window, polynom, n] + x + y)
        sg_impl.append(out)
        sg_desc.append(desc)
        if isinstance(out, tuple):
            count("savgol_error_%s" % out[1])
            valid = n > window and window % 2 == 1 and polynom < window
            if valid or out[1] not in (1, 2):
                ctx.fail("non_uniform_savgol raised on a valid input (%s)" % (out[1],), desc,
                         {"kind": "savgol_exception"})
            continue
        if polydata:
            scale = 1.0 + max(abs(v) for v in y)
            err = float(np.max(np.abs(out - np.array(y, dtype=float)))) / scale if np.all(np.isfinite(out)) else float("inf")
            worst_poly = max(worst_poly, err)
            count("savgol_polynomial_data")
            if err > 1e-6:
                ctx.fail("non_uniform_savgol does not reproduce a polynomial of degree <= order (rel err %g)" % err,
                         desc, {"kind": "savgol_polynomial"})
        nontrivial.add(("savgol", window, polynom, tuple(x), tuple(y)))
    meas["savgol_polynomial_max_rel_err"] = worst_poly
    sg_model = ex.run_many(sg_inputs)
    worst_sg = 0.0
    kernel_terms = []
    for i, (mo, io_) in enumerate(zip(sg_model, sg_impl)):
        if len(kernel_terms) < 12 and len(mo) < 120:
            kernel_terms.append(common.flat_cases_term(i, sg_inputs[i], mo))
        if isinstance(io_, tuple):
            if mo != [0, io_[1]]:
                ctx.disagree("savgol: implementation raised %s, model says %s" % (io_[1], mo[:2]), sg_desc[i])
            continue
        if mo == [0, 2]:
            count("savgol_len_eq_window_returns")     # len(x) == window no longer raises: outside the documented domain
            continue
        if mo[0] != 1 or mo[1] != len(io_):
            ctx.disagree("savgol: model reports an error / other length (%s), implementation returned %d values"
                         % (mo[:2], len(io_)), sg_desc[i])
            continue
        mv = np.array([a + b / 2.0 ** 40 for a, b in zip(mo[2::2], mo[3::2])], dtype=float)
        scale = 1.0 + max(abs(v) for v in sg_desc[i]["y"])
        err = float(np.max(np.abs(mv - io_))) / scale if np.all(np.isfinite(io_)) else float("inf")
        worst_sg = max(worst_sg, err)
        if err > 1e-6:
            ctx.disagree("savgol: implementation differs from the exact rational model (rel err %g)" % err, sg_desc[i])
    meas["savgol_vs_rational_model_max_rel_err"] = worst_sg
    bad = common.coq_mismatches(PROP, HEADER, kernel_terms) if kernel_terms else []
    for i in bad:
        ctx.disagree("savgol: kernel-evaluated model differs from the extracted model", sg_desc[i])
    # ---- scales: the filter reproduces polynomials for ANY sample spacing, and rescaling the abscissae leaves the
    # output unchanged.  Tolerances: the unchanged code was measured at <= 6e-14 (order <= 3) and <= 1.2e-9
    # (orders 4, 5) over these scales; bounds 1e-9 / 1e-7 keep a margin of >= 80x.
    SCALES = [("spacing 1", 1.0, 0.0), ("sample indices > 2^31", 1.0, 2.0 ** 31 + 12345), ("60 Hz seconds", 1 / 60, 1250.0),
              ("2.5 kHz seconds", 1 / 2500, 310.0), ("30 kHz seconds", 1 / 30000, 4000.0), ("microseconds", 1e-6, 10.0)]
    worst_scale, worst_meta = {}, 0.0
    for k in range(240 if T else 72):
        name, dt, t0 = SCALES[k % len(SCALES)]
        window = rng.choice([5, 7, 9, 11, 13, 31])
        order = [1, 2, 3, 2, 3, 4, 5, 2][(k // len(SCALES)) % 8]
        order = min(order, window - 1)
        tol = 1e-9 if order <= 3 else 1e-7
        n = window + rng.randrange(2, 30)
        gaps = np.array([rng.uniform(0.3, 1.7) * rng.choice([1, 1, 1, 2, 3]) for _ in range(n)])
        xs_ = t0 + np.cumsum(gaps) * dt
        u = (xs_ - xs_.mean()) / (xs_.max() - xs_.min())
        count("savgol_scale_cases")
        for deg in range(order + 1):
            cf = [rng.uniform(0.5, 2) * rng.choice([-1, 1]) for _ in range(deg + 1)]
            yv = np.polynomial.polynomial.polyval(u, np.array(cf))
            desc = {"fn": "non_uniform_savgol", "scale": name, "window": window, "polynom": order, "degree": deg,
                    "x": [float(v) for v in xs_], "y": [float(v) for v in yv]}
            out = savgol_call(window, order, xs_, yv)
            if isinstance(out, tuple):
                ctx.fail("non_uniform_savgol raised on a valid input (%s)" % (out[1],), desc, {"kind": "savgol_exception"})
                continue
            err = float(np.max(np.abs(out - yv)) / np.max(np.abs(yv))) if np.all(np.isfinite(out)) else float("inf")
            worst_scale[name] = max(worst_scale.get(name, 0.0), err)
            if err > tol:
                ctx.fail("non_uniform_savgol does not reproduce a polynomial of degree %d <= order %d on abscissae with "
                         "%s (rel err %.3g, bound %g)" % (deg, order, name, err, tol), desc,
                         {"kind": "savgol_polynomial_scale"})
        # metamorphic: x -> c x leaves the output unchanged (arbitrary data)
        yr = np.array([rng.uniform(-1, 1) for _ in range(n)])
        x1 = np.cumsum(gaps)
        ref = savgol_call(window, order, x1, yr)
        for cfac in (1e-4, 1e-2, 1e3):
            o = savgol_call(window, order, x1 * cfac, yr)
            desc = {"fn": "non_uniform_savgol", "metamorphic": "x -> %g x" % cfac, "window": window, "polynom": order,
                    "x": [float(v) for v in x1], "y": [float(v) for v in yr], "factor": cfac}
            if isinstance(ref, tuple) or isinstance(o, tuple):
                ctx.fail("non_uniform_savgol raised on a valid input", desc, {"kind": "savgol_exception"})
                continue
            e = float(np.max(np.abs(o - ref)) / (1 + np.max(np.abs(ref)))) if np.all(np.isfinite(o)) else float("inf")
            worst_meta = max(worst_meta, e)
            if e > tol:
                ctx.fail("non_uniform_savgol: rescaling the abscissae by %g changes the output (rel diff %.3g, bound %g)"
                         % (cfac, e, tol), desc, {"kind": "savgol_scale_invariance"})
    meas["savgol_polynomial_by_scale_max_rel_err"] = {k_: float("%.3g" % v) for k_, v in worst_scale.items()}
    meas["savgol_rescaling_max_rel_diff"] = worst_meta
    # NaN gaps: smooth_interpolate_savgol returns finite values everywhere
    for k in range(48 if T else 16):
        n = rng.randrange(40, 120)
        sig = np.cumsum(np.array([rng.uniform(-1, 1) for _ in range(n)]))
        linear = k % 3 == 0
        if linear:
            sig = 0.25 * np.arange(n) - 3.0
        nanset = set(rng.sample(range(n), rng.randrange(1, n // 4)))
        pat = k % 4                          # NaN runs at the start / the end / both / interior only
        if pat in (0, 2):
            nanset |= set(range(0, rng.randrange(1, 6)))
        if pat in (1, 2):
            nanset |= set(range(n - rng.randrange(1, 6), n))
        if pat == 3:
            nanset -= {0, n - 1}
        nanpos = sorted(nanset)
        sig[nanpos] = np.nan
        count("savgol_nan_leading", 0 in nanset)
        count("savgol_nan_trailing", (n - 1) in nanset)
        window = rng.choice([5, 7, 11, 31])
        order = rng.choice([1, 2, 3])
        desc = {"fn": "smooth_interpolate_savgol", "n": n, "nan_positions": nanpos, "window": window, "order": order,
                "signal": [None if np.isnan(v) else float(v) for v in sig]}
        if n - len(nanpos) <= window:
            continue
        count("savgol_nan_cases")
        try:
            sig0 = sig.copy()
            with np.errstate(all="ignore"):
                out = smooth.smooth_interpolate_savgol(sig, window=window, order=order)
            unchanged([sig0], [sig], "smooth_interpolate_savgol")
            if not (isinstance(out, np.ndarray) and out.ndim == 1 and out.dtype.kind == "f"):
                raise BadOutput("smooth_interpolate_savgol returned %s" % (type(out).__name__ if not isinstance(out, np.ndarray)
                                                                            else "shape %s dtype %s" % (out.shape, out.dtype)))
        except Exception as e:  # noqa
            ctx.fail("smooth_interpolate_savgol: %s" % (e if isinstance(e, BadOutput) else repr(e)), desc,
                     {"kind": "savgol_nan_exception"})
            continue
        if len(out) != n or not np.all(np.isfinite(out)):
            ctx.fail("smooth_interpolate_savgol leaves non-finite values / changes the length", desc,
                     {"kind": "savgol_nan_fill"})
        elif linear:
            # a straight line is reproduced by the filter (order >= 1) and by every interpolation /
            # extrapolation kind, so the gaps and both ends must be filled with the line itself
            err = float(np.max(np.abs(out - (0.25 * np.arange(n) - 3.0))))
            meas["savgol_nan_linear_max_abs_err"] = max(meas.get("savgol_nan_linear_max_abs_err", 0.0), err)
            if err > 1e-6:
                ctx.fail("smooth_interpolate_savgol does not reproduce a straight line through NaN gaps (%g)" % err,
                         desc, {"kind": "savgol_nan_linear"})

    # interp_kind other than the default, straight line through NaN gaps and ends
    for kind_ in ("linear", "quadratic", "cubic", "slinear"):
        n = 60
        line = 0.5 * np.arange(n) + 2.0
        sig = line.copy()
        sig[[0, 1, 7, 8, 30, 58, 59]] = np.nan
        desc = {"fn": "smooth_interpolate_savgol", "n": n, "nan_positions": [0, 1, 7, 8, 30, 58, 59], "window": 7, "order": 2,
                "interp_kind": kind_, "signal": [None if np.isnan(v) else float(v) for v in sig]}
        try:
            out = smooth.smooth_interpolate_savgol(sig.copy(), window=7, order=2, interp_kind=kind_)
            if not (isinstance(out, np.ndarray) and out.shape == (n,) and np.all(np.isfinite(out))
                    and np.max(np.abs(out - line)) < 1e-6):
                ctx.fail("smooth_interpolate_savgol(interp_kind=%s) does not fill the gaps of a straight line with the line"
                         % kind_, desc, {"kind": "savgol_nan_linear"})
        except Exception as e:  # noqa
            ctx.fail("smooth_interpolate_savgol(interp_kind=%s) raised %r" % (kind_, e), desc, {"kind": "savgol_nan_exception"})
    lap("savgol")
    # ---------------- cadzow / svd ----------------
    all_layouts = layouts(ctx)
    if all_layouts:      # the jitted path of ismember2d, once, against the plain path used below
        _, _, _, sites0 = all_layouts[len(all_layouts) // 2]
        jit_obs = traj_call([p[0] for p in sites0], [p[1] for p in sites0])
        with plain_numba():
            plain_obs = traj_call([p[0] for p in sites0], [p[1] for p in sites0])
        if jit_obs != plain_obs:
            ctx.disagree("cadzow.trajectory differs between the jitted and the plain ismember2d helper",
                         {"fn": "cadzow.trajectory", "sites": sites0})
    stack_ = contextlib.ExitStack()
    stack_.enter_context(plain_numba())
    for kind, ncol, nrow, sites in all_layouts:
        desc = {"fn": "cadzow.trajectory", "layout": kind, "ncol": ncol, "nrow": nrow, "sites": sites}
        obs = traj_call([p[0] for p in sites], [p[1] for p in sites])
        count("layout_" + kind)
        if obs[0] == "exc":
            ctx.fail("cadzow.trajectory raised %s" % obs[1], desc, {"kind": "cadzow_exception", "layout": kind})
            continue
        obs, trc = obs
        if len(trc) != len(sites) or min(trc) <= 0:
            ctx.fail("cadzow.trajectory: a trace does not occur in the trajectory matrix", desc,
                     {"kind": "cadzow_trcount", "layout": kind})
        add([6, len(sites)] + [p[0] for p in sites] + [p[1] for p in sites], obs, desc)
        nontrivial.add(("traj", kind, ncol, nrow, tuple(sites)))
        nlay = dist.get("layouts_denoised", 0)
        count("layouts_denoised")
        cadzow_oracle(ctx, kind, ncol, nrow, sites, meas, full=min(obs[0], obs[1]),
                      light=False)
    stack_.close()
    if meas.get("cadzow_noise_ratio_rank1"):
        r = meas["cadzow_noise_ratio_rank1"]
        meas["cadzow_noise_ratio_rank1"] = {"n": len(r), "max": max(r), "median": float(np.median(r))}
        if float(np.median(r)) >= 1.0:
            ctx.fail("cadzow.denoise(rank 1) does not reduce noise added to a plane wave (median residual/noise = %g)"
                     % float(np.median(r)), {"fn": "cadzow.denoise", "measurement": "noise ratio"},
                     {"kind": "cadzow_noise"})
    # cadzow.derank / traj_matrix_indices called directly
    from ibldsp import cadzow as _c
    g_ = np.random.default_rng(rng.randrange(2 ** 31))
    for shape_ in ((3, 2), (6, 4), (9, 8), (5, 5)):
        Tm = g_.standard_normal(shape_) + 1j * g_.standard_normal(shape_)
        desc = {"fn": "cadzow.derank", "shape": list(shape_)}
        try:
            full_ = as_array(_c.derank(Tm.copy(), min(shape_)), shape_, "cadzow.derank", kinds="c")
            one_ = as_array(_c.derank(np.outer(Tm[:, 0], Tm[0, :]), 1), shape_, "cadzow.derank", kinds="c")
            if not (np.allclose(full_, Tm, atol=1e-10) and np.allclose(one_, np.outer(Tm[:, 0], Tm[0, :]), atol=1e-10)):
                ctx.fail("cadzow.derank does not return a matrix whose rank is not above the requested one", desc,
                         {"kind": "cadzow_derank"})
        except Exception as e:  # noqa
            ctx.fail("cadzow.derank: %s" % (e if isinstance(e, BadOutput) else repr(e)), desc, {"kind": "cadzow_exception"})
    tmi_model = ex.run_many([[6, n_] + [0] * n_ + list(range(n_)) for n_ in range(1, 41)])
    for n_, mo in zip(range(1, 41), tmi_model):
        desc = {"fn": "cadzow.traj_matrix_indices", "n": n_}
        try:
            it_ = as_array(np.asarray(_c.traj_matrix_indices(n_)), (n_ // 2 + 1, -(-n_ // 2)), "traj_matrix_indices", kinds="iu")
            # a single column of n_ rows: the block trajectory matrix IS the 1-D index matrix
            if [int(v) for v in it_.flatten()] != mo[3:3 + mo[2]] or sorted(set(it_.flatten().tolist())) != list(range(n_)):
                ctx.fail("traj_matrix_indices(%d) does not hold every index 0..n-1 in Toeplitz order" % n_, desc,
                         {"kind": "cadzow_traj_indices"})
        except Exception as e:  # noqa
            ctx.fail("traj_matrix_indices: %s" % (e if isinstance(e, BadOutput) else repr(e)), desc, {"kind": "cadzow_exception"})
    svd_oracle(ctx, meas)
    for k in range(200 if T else 60):
        nc = rng.choice([1, 2, 3, 4, 5, 7, 8, 12, 16, 31])
        ncoll = rng.choice([1, 1, 2, 3, 4, nc])
        vals = rng.sample(range(-3, 40), min(ncoll, 40))
        coll = [rng.choice(vals) for _ in range(nc)]
        if rng.random() < 0.5:
            coll.sort()
        rank = rng.choice([0, 0, 1, 2, nc // 4, nc // 2, nc - 1, nc, nc + 3])     # 0 = None: default nc // 4
        desc = {"fn": "svd_denoise_npx(groups)", "collection": coll, "rank": rank or None}
        try:
            obs = svd_groups_observe(coll, rank)
        except Exception as e:  # noqa
            ctx.fail("svd_denoise_npx raised %r" % (e,), desc, {"kind": "svd_exception"})
            continue
        count("svd_group_cases")
        if obs[-nc:] != list(range(nc)):
            ctx.fail("svd_denoise_npx does not write every trace back exactly once", desc, {"kind": "svd_scatter"})
        add([9, nc, rank] + coll, obs, desc)
        if len(set(coll)) > 1:
            nontrivial.add(("svd", tuple(coll), rank))
    # every collection size 1..100 (not only round ones) x 1-4 interleaved collections x ranks whose exact
    # per-collection share rank*size/nc is an integer (1, 2, 3, size) or not: the rank passed to _svd_denoise
    # must be the exact floor (the model's svd_rank); a pre-divided ratio is off by one e.g. for size 49
    for size in range(1, 101):
        for ncoll in (1, 2, 3, 4):
            if not T and (size + ncoll) % 2 and size not in (47, 49, 98):
                continue
            nc = size * ncoll
            coll = [i % ncoll for i in range(nc)]
            ranks = sorted({ncoll * m for m in (1, 2, 3, size) if m <= size} |
                           {rng.randrange(1, nc + 1), 0, nc} | ({ncoll * 4, ncoll * 8} if size > 8 else set()))
            for rank in ranks:
                desc = {"fn": "svd_denoise_npx(groups)", "collection": coll, "rank": rank or None}
                try:
                    obs = svd_groups_observe(coll if ncoll > 1 else None, rank, nc=nc)
                except Exception as e:  # noqa
                    ctx.fail("svd_denoise_npx raised %r" % (e,), desc, {"kind": "svd_exception"})
                    continue
                count("svd_size_sweep_cases")
                add([9, nc, rank] + coll, obs, desc)
    # ---- UNEQUAL collections.  The triples (nc, n, rank) on which a re-associated form rank*(n/nc) or (rank/nc)*n
    # floors one lower (C20_rank_reassociation_sweep) and controls: (1) the integer model of the three binary64 forms
    # (run kind 12) against the host's floats, (2) the ranks the source passes to _svd_denoise, (3) data of exactly the
    # requested rank in every collection must come back unchanged
    BAD = [(22, 15, 22), (23, 13, 23), (26, 15, 26), (39, 31, 39), (43, 23, 43), (43, 31, 43), (44, 15, 44), (44, 30, 22),
           (44, 30, 44), (45, 13, 45), (45, 26, 45), (46, 13, 46), (46, 26, 23), (46, 26, 46), (47, 3, 47), (47, 6, 47),
           (47, 12, 47), (47, 24, 47), (47, 31, 47), (49, 1, 49), (49, 2, 49), (49, 4, 49), (49, 8, 49), (49, 16, 49),
           (49, 27, 49), (49, 32, 49), (50, 29, 50), (51, 31, 51), (52, 15, 52), (52, 30, 26), (52, 30, 52), (55, 7, 55),
           (55, 14, 55), (55, 15, 55), (55, 28, 55), (55, 29, 55), (55, 30, 55), (55, 31, 55), (58, 31, 58), (384, 208, 216)]
    ncs = sorted({t[0] for t in BAD if t[0] <= 64}) + [1, 2, 3, 7, 16, 32, 64] if not T else list(range(1, 65))
    forms = ex.run_many([[12, nc_] for nc_ in ncs])
    nform_bad = 0
    for nc_, mo in zip(ncs, forms):
        exp = []
        for n_ in range(1, nc_ + 1):
            for r_ in range(1, nc_ + 1):
                exp += [int(r_ * n_ / nc_), int(r_ * (n_ / nc_)), int((r_ / nc_) * n_)]
        count("rank_form_triples", len(exp) // 3)
        if mo != exp:
            nform_bad += 1
            ctx.disagree("the integer model of the binary64 rank expressions differs from the host's floats for nc = %d" % nc_,
                         {"fn": "rank forms", "nc": nc_})
    found = sorted((nc_, n_, r_) for nc_ in ncs for n_ in range(1, nc_ + 1) for r_ in range(1, nc_ + 1)
                   if int(r_ * (n_ / nc_)) != (r_ * n_) // nc_)
    if found != sorted(t for t in BAD if t[0] in ncs):
        ctx.disagree("the triples on which rank*(n/nc) floors lower differ from the kernel sweep's list", {"fn": "rank forms"})
    controls = [(22, 11, 22), (22, 15, 11), (30, 10, 9), (48, 16, 24), (64, 48, 32), (10, 3, 10), (384, 192, 96), (384, 96, 384)]
    for nc_, n_, r_ in BAD + controls:
        for layout_ in (0, 1):
            if layout_ == 0:
                coll = [0] * n_ + [1] * (nc_ - n_)
            else:
                coll = [1] * (nc_ - n_) + [0] * n_
                if nc_ == 384:
                    continue
            desc = {"fn": "svd_denoise_npx(groups)", "collection": coll, "rank": r_, "unequal_collections": [n_, nc_ - n_]}
            try:
                obs = svd_groups_observe(coll, r_)
            except Exception as e:  # noqa
                ctx.fail("svd_denoise_npx raised %r" % (e,), desc, {"kind": "svd_exception"})
                continue
            count("svd_unequal_cases")
            add([9, nc_, r_] + coll, obs, desc)
            nontrivial.add(("svd_unequal", nc_, n_, r_, layout_))
            # data of exactly the share of the rank in each collection
            g_ = np.random.default_rng(nc_ * 1000 + n_ + r_)
            ns_ = 40 if nc_ <= 64 else 130
            d = np.zeros((nc_, ns_))
            shares = {}
            for cv in (0, 1):
                ind = np.where(np.array(coll) == cv)[0]
                m_ = min((r_ * ind.size) // nc_, ind.size, ns_)
                shares[cv] = m_
                if m_ > 0:
                    d[ind, :] = g_.standard_normal((ind.size, m_)) @ g_.standard_normal((m_, ns_))
            desc2 = {"fn": "svd_denoise_npx", "nc": nc_, "collection_sizes": [n_, nc_ - n_], "rank": r_,
                     "data_rank_per_collection": [shares[0], shares[1]], "order": layout_}
            try:
                out = svd_checked(d, rank=r_, collection=np.array(coll))
            except Exception as e:  # noqa
                ctx.fail("svd_denoise_npx: %s" % (e if isinstance(e, BadOutput) else repr(e)), desc2, {"kind": "svd_exception"})
                continue
            err = float(np.max(np.abs(out - d)) / max(np.max(np.abs(d)), 1e-300))
            meas["svd_unequal_collections_max_rel_err"] = max(meas.get("svd_unequal_collections_max_rel_err", 0.0), err)
            if not err < 1e-9:
                ctx.fail("svd_denoise_npx: collections of %d and %d traces carrying data of rank %d and %d, requested rank %d "
                         "(exact shares): the input does not come back (rel err %g)"
                         % (n_, nc_ - n_, shares[0], shares[1], r_, err), desc2, {"kind": "svd_identity_unequal"})
    # the float64 expression of the source, int(rank * size / nc), is the exact integer floor (hypothesis of the
    # model's svd_rank): exhaustive for every nc <= 400 (thorough) / 200 (quick), size <= nc, rank <= nc + 2
    bad_triples = 0
    ntriples = 0
    for nc in range(1, (400 if T else 200) + 1):
        sz = np.arange(0, nc + 1, dtype=np.int64)[:, None]
        rk = np.arange(0, nc + 3, dtype=np.int64)[None, :]
        fl = (rk * sz / nc).astype(np.int64)           # same operations as the source: int * int / int -> float64 -> int()
        bad_triples += int(np.count_nonzero(fl != (rk * sz) // nc))
        ntriples += fl.size
    meas["svd_rank_float_vs_exact_floor"] = {"triples": ntriples, "mismatches": bad_triples}
    if bad_triples:
        ctx.disagree("int(rank * size / nc) in float64 differs from the exact floor for %d triples" % bad_triples,
                     {"fn": "svd_rank float sweep"})
    if meas.get("svd_noise_ratio"):
        r = meas["svd_noise_ratio"]
        meas["svd_noise_ratio"] = {"n": len(r), "max": max(r), "median": float(np.median(r))}
        if float(np.median(r)) >= 1.0:
            ctx.fail("svd_denoise_npx does not reduce added noise (median residual/noise = %g)" % float(np.median(r)),
                     {"fn": "svd_denoise_npx", "measurement": "noise ratio"}, {"kind": "svd_noise"})
    samples.append({"fn": "cadzow.trajectory", "layout": "grid 2x4", "model_output": ex.run_many(
        [[6, 8, 0, 16, 0, 16, 0, 16, 0, 16, 0, 0, 20, 20, 40, 40, 60, 60]])[0]})

    lap("cadzow")
    # ---------------- model vs implementation (exact part) ----------------
    common.correspondence(ctx, PROP, HEADER, inputs, outputs, lambda i: descs[i])
    lap("correspondence")
    ctx.coverage["model_evaluations_extracted"] += len(sg_inputs) + len(roll_cases)
    return common.finish(
        ctx, TRUSTED,
        rule="seeded generators: (a) 2-3 sorted spike trains with coincident/duplicated spikes x bin sizes x chunk "
             "sizes (1, around the bin size, aligned and unaligned, larger than the recording) through spikes_venn2/3; "
             "(b) label vectors with repeated labels x integer traces through voltage.stack with an order-sensitive "
             "exact aggregate and with the default nanmean; (c) rolling_window for every window_len 0..64 x several "
             "lengths, one-hot probes (flat window) and all five windows on constants/random data; (d) smooth.lp for "
             "lengths x pad values with the external filter replaced by a recording identity, and unpatched on "
             "constants; (e) non_uniform_savgol on irregular integer abscissae, polynomial and random data, against "
             "the exact rational model; smooth_interpolate_savgol on NaN patterns; (f) cadzow.trajectory/denoise on "
             "complete grids 1-4 x 4-40, checkerboards, subsets, shuffles; svd_denoise_npx. Non-trivial = venn with "
             "more than one chunk and at least two non-empty regions, stack with a repeated and a distinct label, "
             "rolling with window_len >= 3, lp with kept length, savgol without error, every layout; distinct by input",
        samples=samples, evaluations=len(inputs) + len(sg_inputs) + len(roll_cases),
        distinct_nontrivial=len(nontrivial),
        extra={"input_distribution": dist, "exhaustive": False},
        assumptions=["spike trains are sorted by sample, samples >= 0, no sorter is empty (np.max of an empty array raises)",
                     "np.linalg.inv / np.linalg.svd / np.fft behave as documented (Section hypotheses of the theorems)"])


def replay(ctx, data):
    inp = data.get("input") or (data.get("correspondence_disagreements") or [{}])[0].get("input")
    if not inp:
        print(json.dumps(data, indent=1)[:3000])
        return 1
    from ibldsp import smooth
    fn = inp.get("fn", "")
    print("replaying", fn)
    bad = []
    if fn.startswith("spikes_venn"):
        case = {k: inp[k] for k in ("xbin", "ybin", "nchan", "chunk", "fs")}
        case["trains"] = [[tuple(p) for p in t] for t in inp["trains"]]
        res = venn_call(case)
        print("implementation:", res)
        if inp.get("non_dyadic_chunk"):
            model = None          # F-C20-d region: the exact rational model does not apply
        elif "chunk_fraction" in inp:
            minp = [11, len(case["trains"]), case["xbin"], case["ybin"], case["nchan"]] + list(inp["chunk_fraction"])
            for t in case["trains"]:
                minp += [len(t)] + [a for a, _ in t] + [b_ for _, b_ in t]
            model = common.Extracted(PROP).run_many([minp])[0]
        else:
            model = common.Extracted(PROP).run_many([venn_enc_inp(case)])[0]
        print("model:", model)
        if isinstance(res, tuple):
            bad.append("raised " + str(res[1]))
            if model is not None and model != [0]:
                bad.append("model does not raise")
        else:
            bad += venn_oracle(case, res)
            if model is not None and model != [1, len(res)] + res:
                bad.append("model differs")
    elif fn == "stack(header)":
        flat, why = stack_header_call(inp["word"], inp["data"], inp["ns"], inp["header"], inp["key_dtypes"])
        model = common.Extracted(PROP).run_many([[10, len(inp["word"]), len(inp["header"])] + inp["word"]
                                                 + [v for h in inp["header"] for v in h]])[0]
        print("implementation (per-label header sums, fold):", flat, "\nmodel:", model)
        if why:
            bad.append(why)
        if flat != model:
            bad.append("model differs")
    elif fn == "stack" and "fcn_agg" in inp:
        print("see the recorded description:", json.dumps(inp)[:500])
        bad.append("aggregate check: rerun the check to reproduce")
    elif fn == "stack":
        res = stack_call(inp["word"], inp["data"])
        model = common.Extracted(PROP).run_many([[2, len(inp["word"]), inp["ns"]] + inp["word"] + inp["data"]])[0]
        print("implementation:", res, "\nmodel:", model)
        if res != model:
            bad.append("model differs")
        c2 = common.Ctx(PROP, "quick", 0)
        stack_oracle(inp["word"], inp["data"], c2, inp)
        bad += [f["what"] for f in c2.oracle_failures]
    elif fn == "rolling_window":
        n, w = inp["n"], inp["window_len"]
        try:
            obs, _ = rolling_mult(n, w)
        except Exception as e:  # noqa
            obs = ["exception", repr(e)]
        model = common.Extracted(PROP).run_many([[3, n, w]])[0]
        print("implementation (multiplicities):", obs[:60], "\nmodel:", model[:60])
        if obs != model:
            bad.append("model differs")
        if obs != [0]:
            for win in WINDOWS:
                oc = smooth.rolling_window(np.full(n, 7.0), window_len=w, window=win)
                if len(oc) != n or not np.allclose(oc, 7.0, atol=1e-9):
                    bad.append("length/constant fails for window " + win)
    elif fn == "smooth.lp":
        n, pad = inp["n"], inp["pad"]
        oc = smooth.lp(np.full(n, 3.0), [0.1, 0.15], pad=pad)
        print("implementation: len", len(oc), "values", oc[:8])
        m, e = float_me(pad)
        x = list(range(n))
        obs = lp_observe(x, pad)
        model = common.Extracted(PROP).run_many([[4, m, e] + x])[0]
        print("padded/cropped equal to model:", obs == model)
        if len(oc) != n or not np.allclose(oc, 3.0, atol=1e-9):
            bad.append("length/constant fails")
        if obs != model:
            bad.append("model differs")
    elif fn == "non_uniform_savgol" and ("scale" in inp or "metamorphic" in inp):
        x_, y_ = np.array(inp["x"]), np.array(inp["y"])
        out = savgol_call(inp["window"], inp["polynom"], x_ * inp.get("factor", 1.0), y_)
        if "scale" in inp:
            err = float(np.max(np.abs(out - y_)) / np.max(np.abs(y_))) if not isinstance(out, tuple) else float("inf")
            print("implementation: polynomial of degree %d, order %d, %s: rel err %.3g" % (inp["degree"], inp["polynom"], inp["scale"], err))
            if err > (1e-9 if inp["polynom"] <= 3 else 1e-7):
                bad.append("polynomial not reproduced")
        else:
            ref = savgol_call(inp["window"], inp["polynom"], x_, y_)
            e = float(np.max(np.abs(out - ref)) / (1 + np.max(np.abs(ref))))
            print("implementation: output changes by %.3g (relative) under x -> %g x" % (e, inp["factor"]))
            if e > (1e-9 if inp["polynom"] <= 3 else 1e-7):
                bad.append("not scale invariant")
    elif fn == "non_uniform_savgol":
        out = savgol_call(inp["window"], inp["polynom"], inp["x"], inp["y"])
        model = common.Extracted(PROP).run_many([[5, inp["window"], inp["polynom"], len(inp["x"])] + inp["x"] + inp["y"]])[0]
        print("implementation:", out)
        print("model:", [a + b / 2.0 ** 40 for a, b in zip(model[2::2], model[3::2])] if model[0] == 1 else model)
        if isinstance(out, tuple):
            bad.append("raised")
        elif model[0] == 1:
            mv = np.array([a + b / 2.0 ** 40 for a, b in zip(model[2::2], model[3::2])], dtype=float)
            if not np.allclose(mv, out, rtol=0, atol=1e-6 * (1 + max(abs(v) for v in inp["y"]))):
                bad.append("model differs")
    elif fn == "smooth_interpolate_savgol":
        sig = np.array([np.nan if v is None else v for v in inp["signal"]], dtype=float)
        try:
            with np.errstate(all="ignore"):
                out = smooth.smooth_interpolate_savgol(sig, window=inp["window"], order=inp["order"])
            print("implementation:", out[:12], "...", out[-6:])
            if len(out) != len(sig) or not np.all(np.isfinite(out)):
                bad.append("non-finite values / length changed")
        except Exception as e:  # noqa
            bad.append("raised %r" % (e,))
    elif fn == "svd_denoise_npx" and "collection_sizes" in inp:
        n_, rest = inp["collection_sizes"]
        nc_, r_ = inp["nc"], inp["rank"]
        coll = ([0] * n_ + [1] * rest) if inp.get("order", 0) == 0 else ([1] * rest + [0] * n_)
        g_ = np.random.default_rng(nc_ * 1000 + n_ + r_)
        ns_ = 40 if nc_ <= 64 else 130
        d = np.zeros((nc_, ns_))
        for cv in (0, 1):
            ind = np.where(np.array(coll) == cv)[0]
            m_ = min((r_ * ind.size) // nc_, ind.size, ns_)
            if m_ > 0:
                d[ind, :] = g_.standard_normal((ind.size, m_)) @ g_.standard_normal((m_, ns_))
        from ibldsp import voltage
        out = voltage.svd_denoise_npx(d.copy(), rank=r_, collection=np.array(coll))
        err = float(np.max(np.abs(out - d)) / np.max(np.abs(d)))
        obs = svd_groups_observe(coll, r_)
        model = common.Extracted(PROP).run_many([[9, nc_, r_] + coll])[0]
        print("implementation: rel err %g; ranks passed: %s; model ranks: %s" % (err, obs[1:2] + obs[obs[2] + 3:obs[2] + 4], model[1:2]))
        if not err < 1e-9:
            bad.append("input not returned although every collection gets its exact share of the rank")
        if obs != model:
            bad.append("model differs")
    elif fn == "svd_denoise_npx" and "collection_size" in inp:
        from ibldsp import voltage
        ncoll, size, m = inp["collections"], inp["collection_size"], inp["data_rank_per_collection"]
        g = np.random.default_rng(0)
        coll = np.arange(ncoll * size) % ncoll
        d = np.zeros((ncoll * size, 40))
        for col in range(ncoll):
            ind = np.where(coll == col)[0]
            d[ind, :] = g.standard_normal((ind.size, m)) @ g.standard_normal((m, 40))
        out = voltage.svd_denoise_npx(d, rank=ncoll * m, collection=coll if ncoll > 1 else None)
        err = float(np.max(np.abs(out - d)) / np.max(np.abs(d)))
        print("implementation: %d collections of %d channels, data rank %d each, requested rank %d: rel err %g"
              % (ncoll, size, m, ncoll * m, err))
        obs = svd_groups_observe(list(coll) if ncoll > 1 else None, ncoll * m, nc=ncoll * size)
        model = common.Extracted(PROP).run_many([[9, ncoll * size, ncoll * m] + [int(c) for c in coll]])[0]
        print("ranks passed to _svd_denoise equal the model's exact floor:", obs == model)
        if not err < 1e-9:
            bad.append("input not returned although rank >= rank of the data")
        if obs != model:
            bad.append("model differs")
    elif fn.startswith("svd_denoise_npx(groups)"):
        obs = svd_groups_observe(inp["collection"], inp["rank"] or 0)
        model = common.Extracted(PROP).run_many([[9, len(inp["collection"]), inp["rank"] or 0] + inp["collection"]])[0]
        print("implementation:", obs, "\nmodel:", model)
        if obs != model:
            bad.append("model differs")
    elif fn.startswith("cadzow"):
        sites = [tuple(p) for p in inp["sites"]]
        obs = traj_call([p[0] for p in sites], [p[1] for p in sites])
        obs = obs if obs[0] == "exc" else obs[0]
        model = common.Extracted(PROP).run_many([[6, len(sites)] + [p[0] for p in sites] + [p[1] for p in sites]])[0]
        print("implementation:", obs, "\nmodel:", model)
        if obs != model:
            bad.append("model differs")
        c2 = common.Ctx(PROP, "quick", ctx.seed)
        cadzow_oracle(c2, inp.get("layout"), inp.get("ncol"), inp.get("nrow"), sites, {})
        bad += [f["what"] for f in c2.oracle_failures]
    else:
        print(json.dumps(inp)[:2000])
        bad.append("no replay for this function; see the recorded description")
    print("failing:", bad)
    return 1 if bad else 0
