"""C03 — NP2.4 shank splitting is lossless, reconstruction is its exact inverse.

Proofs in coq/C03; correspondence against neuropixel.NP2Converter / NP2Reconstructor
(through spikeglx.Reader) on synthetic NP2.4 recordings written by this harness."""
import json
import os
import logging
import re
import shutil
from pathlib import Path

import numpy as np

import common

PROP = "C03"
HEADER = "From Coq Require Import ZArith List.\nImport ListNotations.\nFrom IBL.C03 Require Import Run."
# "Axioms" is the header line of Print Assumptions, which common.print_assumptions picks up as a name
WHITELIST = sorted(common.STDLIB_AXIOMS)
TRUSTED = [
    "Coq 8.16.1 kernel + vm_compute (no native_compute); Flocq 4.1 BinarySingleNaN as the definition of IEEE-754 "
    "binary32/binary64 arithmetic; roundtrip theorems use the four standard-library axioms Flocq inherits "
    "(ClassicalDedekindReals.sig_forall_dec, sig_not_dec, functional_extensionality_dep, Classical_Prop.classic); "
    "all other theorems are closed under the global context",
    "hand-written model coq/C03/{F32,Model}.v of NP2Converter (AP branch) / NP2Reconstructor / the subset codec / the "
    "metadata rewrites, tied to the repository source by this run's correspondence",
    "host facts: NumPy computes float32*float32, float32/float32, rint in IEEE binary32 round-to-nearest-even; "
    "python float * float32 array is a float32 product (NumPy 2 promotion); float32 -> int16 cast of an in-range "
    "integral value is exact; int16 little endian",
    "C17's WindowGenerator model and its theorems (IBL.C17) for the window loop",
    "write_meta_data/read_meta_data round-trip of values is C09's subject: the metadata model works on parsed dictionaries",
    "harness/pC03.py generators, synthetic metadata writer, canonicalisers and oracle",
    "extraction (ExtrOcamlBasic only) + harness/driver.ml for the volume path; small cases of every mode are "
    "re-evaluated by the kernel (vm_compute)",
]

GAINS = [(n, d, m) for (n, d) in ((5, 10), (6, 10), (62, 100)) for m in (512, 2048, 8192)]
RANGE_TXT = {(5, 10): "0.5", (6, 10): "0.6", (62, 100): "0.62"}
SPECIAL_KEYS = {"acqApLfSy": 1, "snsApLfSy": 2, "nSavedChans": 3, "fileSizeBytes": 4, "snsSaveChanSubset": 5,
                "snsSaveChanSubset_orig": 6, "original_meta": 7, "NP2.4_shank": 8}
STR_KEYS = {"snsSaveChanSubset", "snsSaveChanSubset_orig", "original_meta"}
BIN_NAME = "_spikeglx_ephysData_g0_t0.imec0.ap.bin"


def _impl():
    import spikeglx
    import neuropixel
    return spikeglx, neuropixel


def fixtures_dir():
    spikeglx, _ = _impl()
    p = Path(spikeglx.__file__).resolve().parent / "tests" / "fixtures"
    return p if p.exists() else Path("/repo/src/tests/fixtures")


TEMPLATES = ["np2split/NP24_meta/_spikeglx_ephysData_g0_t0.imec0.ap.meta",
             "sampleNP2.4_4shanks_appVersion20230905.ap.meta",
             "sampleNP2.4_4shanks_g0_t0.imec.ap.meta",
             "sampleNP2.4_1shank_g0_t0.imec.ap.meta"]


def make_meta(template, nap, ns, labels, gain):
    """Synthetic NP2.4 metadata: a shipped fixture with the recording-specific fields replaced."""
    num, den, maxint = gain
    rng_txt = RANGE_TXT[(num, den)]
    out = []
    for line in (fixtures_dir() / TEMPLATES[template]).read_text().splitlines():
        k, v = line.split("=", 1)
        kk = k.replace("~", "")
        if kk in ("acqApLfSy", "snsApLfSy"):
            v = "%d,0,1" % nap
        elif kk == "nSavedChans":
            v = str(nap + 1)
        elif kk == "snsSaveChanSubset":
            v = "0:%d" % nap
        elif kk == "fileSizeBytes":
            v = str(ns * (nap + 1) * 2)
        elif kk == "fileTimeSecs":
            v = np.format_float_positional(ns / 30000.0, trim="-")   # SpikeGLX writes plain decimals (no exponent)
        elif kk == "imSampRate":
            v = "30000"
        elif kk == "imAiRangeMax":
            v = rng_txt
        elif kk == "imAiRangeMin":
            v = "-" + rng_txt
        elif kk == "imMaxInt":
            v = str(maxint)
        elif kk == "snsShankMap":
            v = "(4,2,640)" + "".join("(%d:%d:%d:1)" % (s, i % 2, i // 2) for i, s in enumerate(labels))
        elif kk == "snsGeomMap":
            v = "(NP2014,4,250,70)" + "".join("(%d:%d:%d:1)" % (s, 27 + 32 * (i % 2), 15 * (i // 2))
                                              for i, s in enumerate(labels))
        out.append(k + "=" + v)
    return "\n".join(out) + "\n"


# --------------------------------------------------------------------------
# implementation runner
# --------------------------------------------------------------------------
def safe_int(x, default=-12345):
    try:
        return int(x)
    except BaseException:           # noqa
        return default


class _Accepted(Exception):
    """a window that must be refused was accepted (see convert)"""


class _Hang(BaseException):
    """raised by the alarm when one conversion + reconstruction exceeds its time allowance"""


def _alarm(signum, frame):
    raise _Hang("no result after %d s of CPU time (or %d s wall)" % (IMPL_CPU_S, IMPL_WALL_S))


# A normal conversion + reconstruction uses well under 3 s of CPU.  The limit is on CPU time of this process
# (ITIMER_VIRTUAL), so that a heavily loaded machine cannot turn a slow run into a false 'hang'; the wall-clock
# alarm only catches a dead-lock that burns no CPU.
IMPL_CPU_S = 60
IMPL_WALL_S = 1800
_HANGS = [0]


def _in_child(fn, *args):
    """fn(*args) in a forked child (own working directory, CPU limit, wall-clock limit); the result comes back
    through a pipe.  A child that dies or never answers is an observation, not a stuck or crashed check."""
    import multiprocessing as mp
    import resource
    mpc = mp.get_context("fork")
    r, w = mpc.Pipe(duplex=False)
    dead = {"shanks": [], "recon": None, "orig_meta": {}}

    def target():
        try:
            resource.setrlimit(resource.RLIMIT_CPU, (IMPL_CPU_S * 2, IMPL_CPU_S * 2 + 5))
            res = fn(*args)
        except BaseException as e:      # noqa
            res = dict(dead, error=("child", type(e).__name__, str(e)[:200]))
        try:
            w.send(res)
        except BaseException as e:      # noqa
            w.send(dict(dead, error=("child", type(e).__name__, "result not transferable: " + str(e)[:150])))
        finally:
            w.close()
            os._exit(0)

    p = mpc.Process(target=target)
    p.start()
    w.close()
    try:
        res = r.recv() if r.poll(IMPL_WALL_S) else dict(dead, error=("hang", "Timeout", "child did not answer"))
    except BaseException as e:          # noqa  (EOF: the child was killed, e.g. by its CPU limit)
        res = dict(dead, error=("hang", type(e).__name__, "child died without a result"))
    p.join(5)
    if p.is_alive():
        p.kill()
    return res


def run_impl(case, data):
    """run_impl_inner under an alarm: an implementation that never returns becomes an observation
    ('hang'), not a stuck check."""
    import signal
    if case.get("access") == "relative":    # changes the working directory: only in a child process
        return _in_child(run_impl_inner, case, data)
    if _HANGS[0] >= 3:              # do not spend the whole budget waiting on an implementation that hangs
        return {"error": ("hang", "Timeout", "not run: three earlier conversions did not return"),
                "shanks": [], "recon": None, "orig_meta": {}}
    old = signal.signal(signal.SIGALRM, _alarm)
    oldv = signal.signal(signal.SIGVTALRM, _alarm)
    signal.alarm(IMPL_WALL_S)
    signal.setitimer(signal.ITIMER_VIRTUAL, IMPL_CPU_S)
    try:
        return run_impl_inner(case, data)
    except _Hang as e:
        _HANGS[0] += 1
        return {"error": ("hang", "Timeout", str(e)), "shanks": [], "recon": None, "orig_meta": {}}
    except BaseException as e:      # noqa  anything the inner guards let through
        return {"error": ("harness-guard", type(e).__name__, str(e)[:200]), "shanks": [], "recon": None,
                "orig_meta": {}}
    finally:
        signal.setitimer(signal.ITIMER_VIRTUAL, 0)
        signal.alarm(0)
        signal.signal(signal.SIGALRM, old)
        signal.signal(signal.SIGVTALRM, oldv)


def run_impl_inner(case, data):
    """Real NP2Converter(...).process() then NP2Reconstructor(...).process() on a synthetic recording.
    Returns a dict of observations; 'error' holds (stage, exception class name, text) if one was raised."""
    spikeglx, neuropixel = _impl()
    logging.disable(logging.WARNING)
    base = common.tmpdir("C03_run_")
    obs = {"error": None, "shanks": [], "recon": None}
    access = case.get("access", "plain")
    try:
        mtxt = make_meta(case["template"], case["nap"], case["ns"], case["labels"], case["gain"])
        # where the caller's path lives (raw_dir/probe00/BIN_NAME) versus where the bytes really are
        raw_dir = base if access == "plain" else base / "raw_ephys_data"
        raw_dir.mkdir(parents=True, exist_ok=True)
        d = raw_dir / "probe00"
        archive = base / "archive"
        if access == "link_dir":        # probe00 is a symbolic link to the acquisition run folder
            real = archive / "_spikeglx_ephysData_g0_imec0"
            real.mkdir(parents=True)
            data.tofile(real / BIN_NAME)
            (real / BIN_NAME).with_suffix(".meta").write_text(mtxt)
            d.symlink_to(real, target_is_directory=True)
        elif access == "link_files":    # probe00 is a real folder whose files are links into a flat store
            real = archive / "store"
            real.mkdir(parents=True)
            data.tofile(real / "4f6d2a.ap.bin")
            (real / "4f6d2a.ap.meta").write_text(mtxt)
            d.mkdir()
            (d / BIN_NAME).symlink_to(real / "4f6d2a.ap.bin")
            (d / BIN_NAME).with_suffix(".meta").symlink_to(real / "4f6d2a.ap.meta")
        else:
            d.mkdir(parents=True, exist_ok=True)
            data.tofile(d / BIN_NAME)
            (d / BIN_NAME).with_suffix(".meta").write_text(mtxt)
        archive_before = sorted(str(q.relative_to(archive)) for q in archive.rglob("*")) if archive.exists() else []
        f = d / BIN_NAME                 # absolute path of the recording as the caller names it
        extra = case.get("extra", "")
        keep_meta = case.get("keep_meta")            # None | "orig" (delete_original, rebuild in place) | "stale"
        ns_eff = case.get("nsamples") or case["ns"]
        if case.get("orig_cbin"):        # the recording was compressed after acquisition: <name>.ap.cbin + .ch
            with spikeglx.Reader(f, sort=False) as sr0:
                sr0.compress_file(keep_original=False)
            f = f.with_suffix(".cbin")
        orig_bytes = f.read_bytes()
        if access == "relative":         # the caller sits in raw_ephys_data and names the file relatively
            os.chdir(raw_dir)            # (only ever executed in a child process, see run_impl)
            given, given_raw = Path("probe00") / f.name, Path(".")
        else:
            given, given_raw = f, raw_dir
        obs["orig_meta"] = dict(spikeglx.read_meta_data(f.with_suffix(".meta")))

        def convert(overwrite=None, first=True):
            conv = None
            try:
                conv = neuropixel.NP2Converter(str(given) if case.get("strpath") else given,
                                               post_check=case.get("post_check", False) or keep_meta == "orig",
                                               delete_original=(keep_meta == "orig"),
                                               compress=bool(case.get("compress", False)))
                if first:
                    s2v = conv.sr.channel_conversion_sample2v["ap"]
                    obs["s2v_bits"] = [int(x) for x in np.asarray(s2v, dtype=np.float32).view(np.uint32)[[0, -1]]]
                    obs["s2v_dtype"] = str(s2v.dtype)
                kw = {"nwindow": float(case["W"]) if case.get("wfloat") else case["W"]}
                if extra:
                    kw["extra"] = extra
                if case.get("nsamples"):
                    kw["nsamples"] = case["nsamples"]
                conv.init_params(**kw)
                if case["W"] < 576 and case["W"] % 12 == 0 and case["ns"] > case["W"]:
                    # accepted although it must be refused; the real window loop would now run (and write) forever
                    raise _Accepted("init_params accepted nwindow=%d; process() not run (it would never terminate)"
                                    % case["W"])
                st = conv.process() if overwrite is None else conv.process(overwrite=overwrite)
                return conv, safe_int(st)
            finally:
                if conv is not None:
                    try:
                        conv.sr.close()
                    except BaseException:   # noqa
                        pass

        def collect(conv):
            # The split of <raw>/probe00/<name> is specified to be <raw>/probe00{a..d}<extra>/<name>.ap.bin: the files
            # are read from THERE (derived from the path the caller gave, links not followed), not from wherever the
            # converter says it wrote them; what it reports is compared with that location.
            want = sorted(set(case["labels"]))
            out, reported = [], []
            for j, (key, info) in enumerate(list(conv.shank_info.items())):
                rep = Path(info["ap_file"])
                chns = [int(c) for c in np.asarray(info["chns"]).ravel()]
                folder = raw_dir / ("probe00" + chr(97 + want[j]) + extra) if j < len(want) else rep.parent
                apf = folder / (BIN_NAME if rep.suffix != ".cbin" else Path(BIN_NAME).with_suffix(".cbin").name)
                reported.append((os.path.abspath(os.path.join(str(raw_dir), str(rep))), str(apf)))
                if apf.suffix == ".cbin":       # compress=True: read the compressed shank file back
                    with spikeglx.Reader(apf, sort=False) as srs:
                        raw = np.array(srs._raw[0:srs.ns, :], dtype=np.int16).ravel()
                    nbytes = int(raw.size * 2)
                    obs["compressed_left_bin"] = obs.get("compressed_left_bin", False) or apf.with_suffix(".bin").exists()
                else:
                    raw = np.fromfile(apf, dtype=np.int16)
                    nbytes = apf.stat().st_size
                meta = dict(spikeglx.read_meta_data(apf.with_suffix(".meta")))
                out.append({"key": key, "folder": apf.parent.name, "chns": chns, "raw": raw,
                            "meta": meta, "nbytes": nbytes})
            return out, reported

        def stray():
            return [x for x in (sorted(str(q.relative_to(archive)) for q in archive.rglob("*"))
                                if archive.exists() else []) if x not in archive_before][:6]

        try:
            conv, obs["status"] = convert()
        except _Hang:
            raise
        except BaseException as e:      # noqa
            obs["error"] = ("convert", type(e).__name__, str(e)[:200])
            try:                         # a refusal must not leave anything behind
                obs["written"] = sorted(q.name for q in raw_dir.iterdir() if q.name not in ("probe00", "archive")) + stray()
            except BaseException:       # noqa
                obs["written"] = ["?"]
            return obs
        try:                             # the original recording and its metadata must be left as they were
            meta_same = f.with_suffix(".meta").read_text() == mtxt
            if keep_meta == "orig":      # delete_original=True after a completed post-check: only the binary goes
                obs["orig_deleted"] = not f.exists()
                obs["orig_untouched"] = bool(meta_same)
            else:
                obs["orig_untouched"] = bool(meta_same and f.read_bytes() == orig_bytes)
        except BaseException:           # noqa
            obs["orig_untouched"] = False
        try:
            obs["shanks"], obs["reported"] = collect(conv)
            if case.get("again"):
                # same object state as a user would have: the recording is replaced by another one of the same shape,
                # a second run without overwrite must leave the shank files alone, a third with overwrite redoes them
                first_raw = [x["raw"].copy() for x in obs["shanks"]]
                data2 = data.copy()
                data2[:, :-1] = ~data[:, :-1]          # every AP sample differs; the sync row counter stays
                data2.tofile(f)
                _, st2 = convert()
                kept, _ = collect(conv)
                same = len(kept) == len(first_raw) and all(np.array_equal(x["raw"], y) for x, y in zip(kept, first_raw))
                conv, st3 = convert(overwrite=True)
                obs["shanks"], obs["reported"] = collect(conv)
                changed = len(obs["shanks"]) == len(first_raw) and all(
                    not np.array_equal(x["raw"], y) for x, y in zip(obs["shanks"], first_raw))
                obs["again"] = {"status_no_overwrite": st2, "files_unchanged": bool(same), "status_overwrite": st3,
                                "files_redone": bool(changed)}
                obs["data_final"] = data2
        except _Hang:
            raise
        except BaseException as e:      # noqa  (the shank files are not where the split is specified to be / unreadable)
            obs["error"] = ("collect", type(e).__name__, str(e)[:200])
            obs["stray"] = stray()
            return obs
        obs["stray"] = stray()
        obs["folders"] = sorted(p.name for p in raw_dir.iterdir() if p.name not in ("probe00", "archive"))
        # reconstruct: into a fresh probe00 directory, or (keep_meta) into one that already holds a .meta
        try:
            if keep_meta != "orig":
                shutil.move(str(d), str(base / "orig_moved"))
            if keep_meta == "stale":     # a .meta of another (longer) recording is lying in the target folder
                stale_size = ns_eff * (case["nap"] + 1) * 2 + 770
                d.mkdir()
                (d / BIN_NAME).with_suffix(".meta").write_text(
                    re.sub(r"(?m)^fileSizeBytes=.*$", "fileSizeBytes=%d" % stale_size, mtxt))
                obs["existing"] = (2, stale_size)
            elif keep_meta == "orig":
                obs["existing"] = (1, 0)
            rec = neuropixel.NP2Reconstructor(given_raw, "probe00", compress=bool(case.get("rcompress", False)))
            rstatus = rec.process()
            rf = raw_dir / "probe00" / BIN_NAME
            if case.get("rcompress"):
                with spikeglx.Reader(rf.with_suffix(".cbin"), sort=False) as srr:
                    rraw = np.array(srr._raw[0:srr.ns, :], dtype=np.int16).ravel()
                obs["recon_left_bin"] = rf.exists()
            else:
                rraw = np.fromfile(rf, dtype=np.int16)
            obs["recon"] = {"status": safe_int(rstatus), "raw": rraw,
                            "meta": dict(spikeglx.read_meta_data(rf.with_suffix(".meta")))}
        except _Hang:
            raise
        except BaseException as e:      # noqa
            obs["error"] = ("reconstruct", type(e).__name__, str(e)[:200])
        return obs
    finally:
        shutil.rmtree(base, ignore_errors=True)


# --------------------------------------------------------------------------
# property oracle (independent of the Coq model)
# --------------------------------------------------------------------------
def expected_status(W):
    """init_params refuses windows that are not multiples of 12 or not above the 576-sample overlap (repo 904fe91)"""
    if W % 12 != 0 or W <= 576:
        return ("convert", "AssertionError")
    return None


def window_class(case):
    return "below_overlap" if (case["W"] < 576 and case["W"] % 12 == 0) else "ok"


def length_class(case):
    """recordings shorter than the 144-sample LF taper: the real converter raises in extract_lfp (F-C03-c)"""
    return "below_taper" if case["ns"] < 144 else "ok"


def oracle(case, data, obs):
    bad = []
    exp_err = expected_status(case["W"])
    if exp_err:
        if not obs["error"] or tuple(obs["error"][:2]) != exp_err:
            lost = ""
            if not obs["error"] and obs.get("shanks"):
                rows = [int(x["raw"].size // max(1, len(x["chns"]))) for x in obs["shanks"]]
                lost = "; process() returned %r and wrote %s of %d samples per shank" % (obs.get("status"), rows, case["ns"])
            bad.append(("badparams", "nwindow=%d must be refused by init_params (AssertionError) but: %s%s"
                        % (case["W"], obs["error"] or "accepted", lost)))
        elif obs.get("written"):
            bad.append(("badparams", "nwindow=%d was refused but left %s behind" % (case["W"], obs["written"][:3])))
        return bad
    if obs["error"]:
        extra = (" (new files next to the link targets instead: %s)" % obs["stray"][:3]) if obs.get("stray") else ""
        kind = "location" if (obs["error"][0] == "collect" and obs["error"][1] == "FileNotFoundError") else "exception"
        return [(kind, "%s raised %s: %s" % tuple(obs["error"]) + extra)]
    nap, ns = case["nap"], case.get("nsamples") or case["ns"]
    data = data[:ns]
    xtr = case.get("extra", "")
    labels = np.array(case["labels"])
    ag = obs.get("again")
    if ag and (ag["status_no_overwrite"] != 0 or not ag["files_unchanged"]):
        bad.append(("rerun", "a second process() without overwrite returned %r and %s the existing shank files"
                    % (ag["status_no_overwrite"], "left" if ag["files_unchanged"] else "CHANGED")))
    if ag and ag["status_overwrite"] != 1:
        bad.append(("rerun", "process(overwrite=True) returned %r" % ag["status_overwrite"]))
    if case.get("keep_meta") == "orig" and not obs.get("orig_deleted"):
        bad.append(("original", "delete_original=True after a completed post-check left the original binary"))
    if case.get("rcompress") and obs.get("recon_left_bin"):
        bad.append(("compress", "NP2Reconstructor(compress=True) left the uncompressed binary"))
    if obs.get("status") != 1:
        bad.append(("status", "process() returned %r" % obs.get("status")))
    for rep, exp in obs.get("reported", []):
        if rep != exp:
            bad.append(("location", "converter reports the shank file %s; the split of the given path is %s"
                        % (rep.split("C03_run_")[-1], exp.split("C03_run_")[-1])))
            break
    if obs.get("stray"):
        bad.append(("location", "files written outside the session folder, next to the link targets: %s" % obs["stray"][:3]))
    if obs.get("orig_untouched") is False:
        bad.append(("original", "the original .ap.bin / .ap.meta were modified by the conversion"))
    want = sorted(set(case["labels"]))
    got = [s["folder"] for s in obs["shanks"]]
    if got != ["probe00" + chr(97 + s) + xtr for s in want] or obs["folders"] != sorted(got):
        bad.append(("folders", "shank folders %s for shanks %s" % (obs["folders"], want)))
        return bad
    for sh, s in zip(want, obs["shanks"]):
        cols = list(np.where(labels == sh)[0]) + [nap]
        exp = data[:, cols]
        if s["raw"].size != exp.size:
            bad.append(("size", "shank %d file holds %d values, expected %d (%d samples x %d channels)"
                        % (sh, s["raw"].size, exp.size, ns, len(cols))))
        elif not np.array_equal(s["raw"].reshape(exp.shape), exp):
            a = s["raw"].reshape(exp.shape)
            r, c = np.argwhere(a != exp)[0]
            bad.append(("content", "shank %d file differs from the original at sample %d, column %d "
                        "(original %d, written %d); %d cells differ"
                        % (sh, r, c, exp[r, c], a[r, c], int(np.sum(a != exp)))))
    rec = obs["recon"]
    if rec is None or rec["status"] != 1:
        bad.append(("recon_status", "reconstruction did not run: %r" % (rec and rec["status"],)))
        return bad
    if rec["raw"].size != data.size or not np.array_equal(rec["raw"], data.ravel()):
        n = min(rec["raw"].size, data.size)
        diff = np.flatnonzero(rec["raw"][:n] != data.ravel()[:n])
        bad.append(("recon_bytes", "reconstructed binary differs from the original (%d vs %d values, first "
                    "difference at value %s)" % (rec["raw"].size, data.size, diff[:1].tolist())))
    om, rm = dict(obs["orig_meta"]), rec["meta"]
    if case.get("nsamples"):            # only a prefix was split on request: the size field follows the rebuilt file
        om["fileSizeBytes"] = float(data.size * 2)
    # the original's own .meta still in place with the right size is kept as it is; otherwise original + flag
    exp_items = list(om.items()) + ([] if case.get("keep_meta") == "orig" else [("original_meta", "False")])
    if list(rm.items()) != exp_items:
        ka, kb = [k for k, _ in rm.items()], [k for k, _ in exp_items]
        dk = [k for k in kb if k not in rm or rm[k] != dict(exp_items)[k]] + [k for k in ka if k not in kb]
        bad.append(("recon_meta", "reconstructed metadata differs from the original in %s%s"
                    % (dk[:4], "" if ka != kb or dk else " (order)")))
    return bad


# --------------------------------------------------------------------------
# encodings shared with coq/C03/Run.v
# --------------------------------------------------------------------------
def f32_parts(bits):
    sign, ex, frac = bits >> 31, (bits >> 23) & 0xff, bits & 0x7fffff
    if ex == 0xff:
        return [2, sign, 0, 0] if frac == 0 else [3, 0, 0, 0]
    if ex == 0:
        return [0, sign, 0, 0] if frac == 0 else [1, sign, frac, -149]
    return [1, sign, frac | 0x800000, ex - 150]


def chars(s):
    return [ord(c) for c in s]


def runs_of(seq):
    """maximal runs of consecutive integers -> [(start, stop)]"""
    seq = np.asarray(seq, dtype=np.int64)
    if seq.size == 0:
        return []
    brk = np.flatnonzero(np.diff(seq) != 1) + 1
    st = np.r_[0, brk]
    en = np.r_[brk, seq.size]
    return [(int(seq[a]), int(seq[b - 1]) + 1) for a, b in zip(st, en)]


class Interner:
    def __init__(self):
        self.keys, self.toks = {}, {}

    def key(self, k):
        if k in SPECIAL_KEYS:
            return SPECIAL_KEYS[k]
        return self.keys.setdefault(k, 100 + len(self.keys))

    def val(self, k, v):
        if isinstance(v, str) and k in STR_KEYS:
            return [2, len(v)] + chars(v)
        if isinstance(v, float) and v.is_integer() and abs(v) < 2 ** 60:
            return [0, 1, int(v)]
        if isinstance(v, list) and all(isinstance(x, float) and x.is_integer() for x in v):
            return [1, len(v)] + [int(x) for x in v]
        t = self.toks.setdefault((type(v).__name__, repr(v)), len(self.toks))
        return [3, 1, t]

    def meta(self, m):
        out = [len(m)]
        for k, v in m.items():
            out += [self.key(k)] + self.val(k, v)
        return out


def enc_rows(a):
    a = np.asarray(a)
    if a.ndim != 2:
        return [-1]
    n, w = a.shape
    body = np.empty((n, w + 1), dtype=np.int64)
    body[:, 0] = w
    body[:, 1:] = a
    return [n] + body.ravel().tolist()


def layout_case(case, obs):
    """mode 2: which global rows each shank file holds (read off the sync row counter), channel lists,
    subset strings and their parse by the real _get_chans."""
    _, neuropixel = _impl()
    nap = case["nap"]
    inp = [2, case.get("nsamples") or case["ns"], case["W"], nap, 1, nap + 1, len(case["labels"])] + list(case["labels"])
    exp_err = expected_status(case["W"])
    if exp_err:
        st = 1 if exp_err[1] == "AssertionError" else 2
        got = obs["error"] and obs["error"][:2] == exp_err
        return inp, [st if got else -1]
    out = [0]
    rows_seen = None
    shl = []
    for s in obs["shanks"]:
        w = len(s["chns"])
        raw = s["raw"]
        counter = (raw[w - 1::w] if (w > 0 and raw.size % w == 0) else raw[:0]).astype(np.int64)
        if counter.size:            # undo the int16 wrap of the row counter
            first = (counter[0] - case["sync_base"]) % 65536
            counter = first + np.r_[0, np.cumsum(np.diff(counter) % 65536)]
        runs = runs_of(counter)
        if rows_seen is None:
            rows_seen = runs
        elif rows_seen != runs:
            rows_seen = [(-1, -1)]
        sub = s["meta"].get("snsSaveChanSubset_orig")
        sub = sub if isinstance(sub, str) else ""
        try:
            rec = neuropixel.NP2Reconstructor.__new__(neuropixel.NP2Reconstructor)
            back = [int(x) for x in np.atleast_1d(rec._get_chans({"snsSaveChanSubset_orig": sub}))]
            back = [1, len(back)] + back
        except BaseException:       # noqa
            back = [0]
        shl.append([safe_int(s["meta"].get("NP2.4_shank", -1)), len(s["chns"])] + s["chns"]
                   + [len(sub)] + chars(sub) + back)
    rows_seen = rows_seen or []
    out += [1, len(rows_seen)] + [x for r in rows_seen for x in r]
    out += [len(shl)] + [x for e in shl for x in e]
    return inp, out


def values_case(case, data, obs, rng, cap):
    """mode 1: the float32 factor and the int16 -> volts -> int16 image of sample values, read off the files."""
    nap = case["nap"]
    labels = np.array(case["labels"])
    lut_ap, lut_sy = {}, {}
    consistent = True
    for sh, s in zip(sorted(set(case["labels"])), obs["shanks"]):
        cols = list(np.where(labels == sh)[0]) + [nap]
        if s["raw"].size != data.shape[0] * len(cols):
            return None
        a = s["raw"].reshape(data.shape[0], len(cols))
        src, dst = data[:, cols[:-1]].ravel(), a[:, :-1].ravel()
        u, idx = np.unique(src, return_index=True)
        for v, i in zip(u.tolist(), idx.tolist()):
            if lut_ap.setdefault(v, int(dst[i])) != int(dst[i]):
                consistent = False
        # every occurrence must map identically
        table = np.zeros(65536, dtype=np.int64)
        table[u.astype(np.int64) + 32768] = dst[idx]
        consistent &= bool(np.array_equal(table[src.astype(np.int64) + 32768], dst))
        us, ids = np.unique(data[:, nap], return_index=True)
        for v, i in zip(us.tolist(), ids.tolist()):
            lut_sy.setdefault(v, int(a[i, -1]))
    va = sorted(lut_ap)
    vs = sorted(lut_sy)
    if cap and len(va) > cap:
        keep = set(rng.sample(va, cap - 8)) | set(va[:4]) | set(va[-4:])
        va = sorted(keep)
    if cap and len(vs) > cap // 4:
        vs = sorted(set(rng.sample(vs, cap // 4 - 2)) | {vs[0], vs[-1]})
    num, den, maxint = case["gain"]
    inp = [1, num, den, maxint, len(va)] + va + vs
    out = f32_parts(obs["s2v_bits"][0]) + [len(va)] + [lut_ap[v] for v in va] + [len(vs)] + [lut_sy[v] for v in vs]
    return inp, out, consistent


def full_case(case, data, obs):
    """mode 3: the whole recording through the model: every shank file and the reconstructed file."""
    nap = case["nap"]
    num, den, maxint = case["gain"]
    inp = [3, num, den, maxint, case.get("nsamples") or case["ns"], case["W"], nap, 1, nap + 1,
           len(case["labels"])] + list(case["labels"])
    inp += [data.shape[0]] + data.ravel().tolist()
    out = [1, len(obs["shanks"])]
    for s in obs["shanks"]:
        w = len(s["chns"])
        out += [safe_int(s["meta"].get("NP2.4_shank", -1)), w] + s["chns"]
        out += enc_rows(s["raw"].reshape(-1, w)) if (w > 0 and s["raw"].size % w == 0) else [-1]
    rec = obs["recon"]
    if rec is None or rec["raw"].size % (nap + 1):
        out += [0]
    else:
        out += [1] + enc_rows(rec["raw"].reshape(-1, nap + 1))
    return inp, out


def meta_cases(case, obs):
    """mode 4: metadata of every shank file, and the reconstructed metadata (from the first shank)."""
    res = []
    nch = case["nap"] + 1
    for i, s in enumerate(obs["shanks"]):
        it = Interner()
        with_rec = 1 if (i == 0 and obs["recon"] is not None and not obs.get("existing")) else 0
        fs_rec = int(obs["recon"]["raw"].size * 2) if with_rec else 0
        sh = (s["folder"][len("probe00"):len("probe00") + 1].encode() or b"?")[0] - 97   # probe00<letter><extra>
        inp = [4, with_rec, sh, s["nbytes"], nch, fs_rec, len(s["chns"])] + s["chns"] + it.meta(obs["orig_meta"])
        out = [1] + it.meta(s["meta"])
        if with_rec:
            out += [1] + it.meta(obs["recon"]["meta"])
        res.append((inp, out))
        if i == 0 and obs["recon"] is not None and obs.get("existing"):
            kind, v = obs["existing"]       # a .meta was already lying in the target folder (mode 7)
            it7 = Interner()
            inp7 = [7, kind, v, sh, s["nbytes"], nch, int(obs["recon"]["raw"].size * 2), len(s["chns"])] + s["chns"] \
                + it7.meta(obs["orig_meta"])
            res.append((inp7, [1] + it7.meta(obs["recon"]["meta"])))
    return res


def rerun_cases(obs):
    """mode 6: status / whether the shank files are this call's, for the three calls of the re-run sequence"""
    ag = obs["again"]
    return [([6, 0, 0], [safe_int(obs.get("status")), 1]),
            ([6, 1, 0], [ag["status_no_overwrite"], 0 if ag["files_unchanged"] else 1]),
            ([6, 1, 1], [ag["status_overwrite"], 1 if ag["files_redone"] else 0])]


def codec_case(chns):
    """mode 5: spikeglx._get_savedChans_subset and NP2Reconstructor._get_chans on an arbitrary channel list."""
    spikeglx, neuropixel = _impl()
    s = spikeglx._get_savedChans_subset(np.array(chns))
    rec = neuropixel.NP2Reconstructor.__new__(neuropixel.NP2Reconstructor)
    try:
        back = [int(x) for x in np.atleast_1d(rec._get_chans({"snsSaveChanSubset_orig": s}))]
        backe = [1, len(back)] + back
    except BaseException:           # noqa
        back, backe = None, [0]
    if not isinstance(s, str):      # the codec must produce a string; anything else is reported by the caller
        raise TypeError("_get_savedChans_subset returned %s, not str" % type(s).__name__)
    return [5, len(chns)] + list(chns), [len(s)] + chars(s) + backe, (s, back)


# --------------------------------------------------------------------------
# generators
# --------------------------------------------------------------------------
BAD_VALUES = [-32768, -32767, -32742, -32741, -30001, -16385, -16384, -8193, -8192, -4097, -2049, -2048, -1025,
              -513, -512, -257, -129, -3, -2, -1, 0, 1, 2, 3, 127, 255, 511, 512, 1023, 2047, 2048, 4095, 8191,
              8192, 16383, 16384, 30000, 32741, 32742, 32766, 32767]


def gen_labels(rng, nap, kind=None):
    kind = kind or rng.choice(["stripe", "random", "blocks", "pairs", "single", "two", "sparse", "fixture"])
    if kind == "single":
        sh = rng.randrange(4)
        return [sh] * nap
    if kind == "two":
        a, b = rng.sample(range(4), 2)
        return [rng.choice([a, b]) for _ in range(nap)]
    if kind == "sparse":        # one shank holds a single channel somewhere
        base = rng.randrange(4)
        lab = [base] * nap
        if nap > 1:
            lab[rng.choice([0, nap - 1, rng.randrange(nap)])] = (base + 1 + rng.randrange(3)) % 4
        return lab
    if kind == "blocks":
        nb = rng.randrange(2, 9)
        cuts = sorted(rng.randrange(nap + 1) for _ in range(nb))
        lab, cur = [], rng.randrange(4)
        for i in range(nap):
            while cuts and cuts[0] <= i:
                cuts.pop(0)
                cur = rng.randrange(4)
            lab.append(cur)
        return lab
    if kind == "pairs":         # SpikeGLX's default 4-shank stripe: 0 1 0 1 2 3 2 3 by blocks of 48
        pat = [0, 1, 0, 1, 2, 3, 2, 3]
        return [pat[(i * 8 // max(nap, 1)) % 8] for i in range(nap)]
    if kind == "stripe":
        k = rng.randrange(1, 5)
        perm = rng.sample(range(4), k)
        w = rng.choice([1, 2, 3, 16, 48])
        return [perm[(i // w) % k] for i in range(nap)]
    if kind == "fixture":       # channel i//96
        return [min(3, i * 4 // max(nap, 1)) for i in range(nap)]
    return [rng.randrange(4) for _ in range(nap)]


def gen_ns(rng, W):
    s = W - 576
    k = rng.choice([0, 1, 1, 2, 3, rng.randrange(1, 9)])
    c = [W - 1, W, W + 1, W + k * s - 1, W + k * s, W + k * s + 1, W + k * s - rng.randrange(1, s + 1),
         W + k * s - s + 1, 577, 600, 144, 200, rng.randrange(144, 2 * W)]
    return max(144, rng.choice(c))


def gen_data(rng, nprng, ns, nap, palette_size=3000, allvals=False):
    if allvals:                         # every int16 value occurs in the AP block
        data = nprng.integers(-32768, 32768, size=(ns, nap + 1)).astype(np.int16)
        block = data[:, :nap].ravel()
        block[nprng.permutation(block.size)[:65536]] = np.arange(-32768, 32768).astype(np.int16)
        data[:, :nap] = block.reshape(ns, nap)
        base = 0
        data[:, nap] = ((np.arange(ns) + 32768) % 65536 - 32768).astype(np.int16)
        return data, base
    pal = np.array(sorted(set(BAD_VALUES) | set(int(x) for x in nprng.integers(-32768, 32768, palette_size))),
                   dtype=np.int16)
    data = pal[nprng.integers(0, pal.size, size=(ns, nap + 1))]
    kind = rng.random()
    if kind < 0.2:                      # constant columns, like the repository's own test
        data[:, :nap] = (10000 + np.arange(nap)).astype(np.int16)[None, :]
    # the sync column carries the row number (identifies which rows were written where)
    base = rng.choice([0, 0, -32768, 32767 - ns if ns < 32767 else -32768])
    data[:, nap] = ((np.arange(ns) + base + 32768) % 65536 - 32768).astype(np.int16)
    return data, base


def gen_cases(ctx):
    rng = ctx.rng
    cases = []
    big = 40 if ctx.thorough() else 12
    small = 300 if ctx.thorough() else 48
    Ws_big = [588, 600, 1152, 1164, 1200, 1500, 2400, 3000, 6000, 60000]
    for i in range(big):
        W = Ws_big[i % len(Ws_big)] if i < len(Ws_big) else rng.choice(Ws_big + [12 * rng.randrange(49, 500)])
        ns = gen_ns(rng, W) if W < 6000 else rng.choice([1200, 3000, 5999, 6001, 6000 + 5424 - 1])
        ns = min(ns, 7000)
        cases.append({"nap": 384, "ns": ns, "W": W, "labels": gen_labels(rng, 384),
                      "gain": GAINS[(i + rng.randrange(9)) % 9] if i >= 9 else GAINS[i],
                      "template": i % len(TEMPLATES), "post_check": i % 3 == 0,
                      "wfloat": i % 4 == 1, "strpath": i % 5 == 2, "compress": i % 6 == 3,
                      "access": {4: "link_dir", 7: "link_files", 9: "link_dir", 10: "relative"}.get(i % 12, "plain"),
                      "full": i < (6 if ctx.thorough() else 2)})
    # recordings in which every one of the 65536 sample values occurs (one gain in quick, all nine in thorough)
    for g in (GAINS if ctx.thorough() else [rng.choice(GAINS)]):
        cases.append({"nap": 384, "ns": rng.choice([589, 600, 700]), "W": 588, "labels": gen_labels(rng, 384),
                      "gain": g, "template": rng.randrange(len(TEMPLATES)), "post_check": True, "full": False,
                      "allvals": True})
    for i in range(small):
        nap = rng.choice([1, 1, 2, 3, 4, 5, 8, 12])
        W = 12 * rng.choice([49, 50, 51, 60, 96, 97, 100, rng.randrange(49, 260)])
        ns = gen_ns(rng, W)
        if i % 20 == 7:                 # several reconstruction windows (60000 samples each)
            ns = rng.choice([60001, 120000, 120001, 60000 + rng.randrange(1, 60000), 60000])
            W = 12 * rng.choice([400, 1000, 5000])
            nap = rng.choice([1, 2])
        cases.append({"nap": nap, "ns": ns, "W": W, "labels": gen_labels(rng, nap),
                      "gain": rng.choice(GAINS), "template": rng.randrange(len(TEMPLATES)),
                      "post_check": rng.random() < 0.3, "full": True,
                      "wfloat": rng.random() < 0.2, "strpath": rng.random() < 0.2,
                      "compress": rng.random() < 0.15,
                      "access": ["link_dir", "link_files", "relative", "plain", "plain", "plain", "plain", "plain"][i % 8]})
    # tiny recordings, around the taper (144), the margin (288) and the converter's overlap (576): a single window
    # that must be recognised as first AND last whatever the announced window count
    k = 0
    for ns in (1, 12, 143, 144, 287, 288, 289, 300, 500, 575, 576, 577):
        for W in (588, 600, 1200, 60000):
            nap = 384 if (ns, W) in ((500, 588), (300, 600)) else rng.choice([1, 2, 3, 4])
            cases.append({"nap": nap, "ns": ns, "W": W, "labels": gen_labels(rng, nap), "gain": GAINS[k % 9],
                          "template": k % len(TEMPLATES), "post_check": k % 3 == 0, "full": nap < 10,
                          "wfloat": k % 7 == 3, "access": ["plain", "plain", "link_dir", "plain", "relative"][k % 5]
                          if k % 4 == 0 else "plain"})
            k += 1
    # recording lengths exactly ON the window lattice ns = W + k (W - 576), and one sample either side: the float
    # window count must come out as k + 1 exactly, else the true last window is cut by 288 samples
    k = 0
    for W in (588, 600, 1200, 1500, 2400, 3000, 3600, 6000, 9000, 12000) + ((4800, 7200, 18000, 30000)
                                                                            if ctx.thorough() else ()):
        for kk in (0, 1, 2, 3):
            for dlt in ((0, -1, 1) if (kk < 2 or ctx.thorough()) else (0,)):
                ns = W + kk * (W - 576) + dlt
                nap = 384 if (W, kk, dlt) in ((3000, 1, 0), (3600, 1, 0), (6000, 1, 0)) else rng.choice([1, 2, 3])
                cases.append({"nap": nap, "ns": ns, "W": W, "labels": gen_labels(rng, nap), "gain": GAINS[k % 9],
                              "template": k % len(TEMPLATES), "post_check": k % 5 == 0,
                              "full": nap < 10 and ns * (nap + 1) <= 12000, "wfloat": k % 6 == 2})
                k += 1
    if ctx.thorough():
        for W, ns in ((6000, 174144), (9000, 17424 + 8424 * 10), (3000, 3000 + 2424 * 40)):
            cases.append({"nap": 1, "ns": ns, "W": W, "labels": [rng.randrange(4)], "gain": rng.choice(GAINS),
                          "template": 0, "post_check": False, "full": False})
    # windows not above the hard-coded overlap (multiples of 12): init_params must refuse them (repo 904fe91; before,
    # they lost samples, never terminated or divided by zero), whatever the recording length
    for W, ns in [(300, 200), (564, 563), (564, 564), (300, 300), (288, 200), (240, 200), (420, 150),
                  (300, 1000), (12, 500), (564, 600), (576, 576)] + (
            [(12 * rng.randrange(13, 48), 0) for _ in range(12)] if ctx.thorough() else []):
        ns = ns or rng.randrange(144, W + 1)
        nap = rng.choice([2, 3, 384]) if W == 300 else rng.choice([1, 2, 4])
        cases.append({"nap": nap, "ns": ns, "W": W, "labels": gen_labels(rng, nap), "gain": rng.choice(GAINS),
                      "template": rng.randrange(len(TEMPLATES)), "post_check": False, "full": nap < 10})
    # file states, call orders and options of the public API (coverage audit): assigned over the valid cases above
    k = 0
    for c in cases:
        if c["W"] <= 576 or c["ns"] < 200 or c.get("allvals"):
            continue
        k += 1
        r = k % 14
        if r == 1:                      # the original is a compressed .cbin (+ .ch)
            c.update(orig_cbin=True, access="plain")
        elif r == 3:                    # run again without, then with, overwrite on a replaced recording
            c.update(again=True)
        elif r == 5:                    # delete_original after the post-check, rebuild in place next to the kept .meta
            c.update(keep_meta="orig", access="plain")
        elif r == 7:                    # a stale .meta of another size lies in the target folder
            c.update(keep_meta="stale", access="plain")
        elif r == 9:
            c.update(extra=rng.choice(["_x", "_2s_test"]))
        elif r == 11:
            c.update(rcompress=True)
        elif r == 13:                   # only a prefix is split on request
            c.update(nsamples=rng.choice([c["ns"] - 1, max(144, c["ns"] // 2), min(c["ns"] - 1, c["W"] + 1), 577]))
            if not (144 <= c["nsamples"] < c["ns"]):
                c.pop("nsamples")
    # malformed window sizes
    for W in [576, 1201, 590, 1199, 7] + ([rng.randrange(577, 3000) for _ in range(10)] if ctx.thorough() else []):
        cases.append({"nap": rng.choice([2, 384]), "ns": 1500, "W": W, "labels": None, "gain": GAINS[0],
                      "template": 0, "post_check": False, "full": False})
        cases[-1]["labels"] = gen_labels(rng, cases[-1]["nap"], "random")
    return cases


def gen_codec(ctx):
    rng = ctx.rng
    out = [[0], [5], [0, 1], [0, 2], [3, 4, 5], [0, 1, 3], [0, 1, 3, 4], [0, 2, 4, 6], [5, 3, 4], [7, 7],
           [0, 1, 2, 384], [383, 384], [0, 384], [10, 9, 8], list(range(96)) + [384], list(range(288, 384)) + [384]]
    for _ in range(400 if ctx.thorough() else 80):
        n = rng.randrange(1, 14)
        kind = rng.random()
        if kind < 0.6:
            l = sorted(rng.sample(range(0, rng.choice([16, 30, 400, 1200])), min(n, 16)))
        elif kind < 0.8:
            l = [rng.randrange(0, 12) for _ in range(n)]
        else:
            a = rng.randrange(0, 990)
            l = list(range(a, a + n)) + [rng.choice([a + n, a + n + 1, 384, 0])]
        out.append(l)
    return out


# --------------------------------------------------------------------------
def describe(case):
    d = {k: case[k] for k in ("nap", "ns", "W", "gain", "template", "post_check")}
    d.update({k: bool(case.get(k, False)) for k in ("wfloat", "strpath", "compress", "allvals", "orig_cbin", "again", "rcompress")})
    d["access"] = case.get("access", "plain")
    d.update({k: case.get(k) for k in ("keep_meta", "extra", "nsamples")})
    d["labels"] = case["labels"]
    d["data_seed"] = case.get("data_seed")
    return d


def build_data(case):
    import random as _r
    rng = _r.Random(case["data_seed"])
    nprng = np.random.default_rng(case["data_seed"])
    data, base = gen_data(rng, nprng, case["ns"], case["nap"], allvals=bool(case.get("allvals")))
    case["sync_base"] = base
    return data


def guarded(ctx, dsc, what, fn, *args, **kw):
    """Canonicalisers read whatever a (possibly broken) implementation left behind; if one of them cannot
    make sense of it, that is a model/implementation disagreement on this input, not a harness crash."""
    try:
        return fn(*args, **kw)
    except BaseException as e:      # noqa
        ctx.disagree("implementation output could not be canonicalised for the %s comparison: %s: %s"
                     % (what, type(e).__name__, str(e)[:150]), dsc, {"kind": "malformed_output"})
        return None


def run(ctx):
    common.proof_obligations(
        ctx, whitelist=WHITELIST,
        # the ten exhaustive int16 sweeps are compiled and kernel-checked by coqc (vm_compute) on every build;
        # coqchk would re-evaluate them without the VM (tens of minutes each), so the independent re-check of
        # the thorough tier takes those ten modules as given and re-checks everything else
        coqchk_admit=["IBL.C03.Rt_%s_%s" % (g, m) for g in ("050", "060", "062") for m in ("512", "2048", "8192")]
        + ["IBL.C03.Rt_sync"])
    cases = gen_cases(ctx)
    inputs, outputs, descr = [], [], []
    kernel_terms = []
    dist = {"conversions": 0, "nap384": 0, "multi_window": 0, "unaligned_length": 0, "single_shank": 0,
            "four_shanks": 0, "malformed_window": 0, "post_check": 0, "multi_recon_window": 0,
            "full_model_runs": 0, "values_compared": 0, "codec_lists": 0,
            "window_below_overlap": 0, "original_is_cbin": 0, "rerun_sequences": 0, "rebuild_next_to_original_meta": 0,
            "rebuild_next_to_stale_meta": 0, "folder_suffix_extra": 0, "reconstructor_compress": 0, "nsamples_prefix": 0,
            "shorter_than_overlap": 0, "length_on_window_lattice": 0, "length_next_to_lattice": 0, "shorter_than_taper": 0, "via_symlinked_folder": 0, "via_symlinked_files": 0,
            "via_relative_path_other_cwd": 0, "all_65536_values_files": 0, "float_nwindow": 0, "str_path": 0, "compressed_shanks": 0}
    gains_seen, nontrivial, samples = set(), set(), []
    kernel_full = 0
    for ci, case in enumerate(cases):
        case["data_seed"] = ctx.rng.randrange(2 ** 31)
        data = build_data(case)
        obs = run_impl(case, data)
        if isinstance(obs.get("data_final"), np.ndarray):   # the re-run sequence replaced the recording
            data = obs["data_final"]
        if case.get("nsamples"):
            data = data[:case["nsamples"]]
        dsc = describe(case)
        try:
            verdicts = oracle(case, data, obs)
        except BaseException as e:  # noqa  the files / metadata are not even comparable with the original
            verdicts = [("malformed_output", "implementation output cannot be compared with the original: %s: %s"
                         % (type(e).__name__, str(e)[:150]))]
        for tag, msg in verdicts:
            ctx.fail(msg, dsc, {"kind": tag, "window_class": window_class(case), "length_class": length_class(case)})
        dist["conversions"] += 1
        malformed = expected_status(case["W"]) is not None
        dist["malformed_window"] += malformed
        dist["window_below_overlap"] += case["W"] <= 576 and case["W"] % 12 == 0
        dist["shorter_than_taper"] += case["ns"] < 144
        lc = guarded(ctx, dsc, "layout", layout_case, case, obs) if (malformed or not obs["error"]) else None
        inp, out = lc if lc else (None, None)
        if inp is not None:
            inputs.append(inp), outputs.append(out), descr.append(dict(dsc, mode="layout"))
        if malformed or obs["error"]:
            continue
        W, ns, nap = case["W"], case["ns"], case["nap"]
        dist["float_nwindow"] += bool(case.get("wfloat"))
        dist["original_is_cbin"] += bool(case.get("orig_cbin"))
        dist["rerun_sequences"] += bool(obs.get("again"))
        dist["rebuild_next_to_original_meta"] += case.get("keep_meta") == "orig"
        dist["rebuild_next_to_stale_meta"] += case.get("keep_meta") == "stale"
        dist["folder_suffix_extra"] += bool(case.get("extra"))
        dist["reconstructor_compress"] += bool(case.get("rcompress"))
        dist["nsamples_prefix"] += bool(case.get("nsamples"))
        dist["via_symlinked_folder"] += case.get("access") == "link_dir"
        dist["via_symlinked_files"] += case.get("access") == "link_files"
        dist["via_relative_path_other_cwd"] += case.get("access") == "relative"
        dist["all_65536_values_files"] += bool(case.get("allvals"))
        dist["str_path"] += bool(case.get("strpath"))
        dist["compressed_shanks"] += bool(case.get("compress"))
        if case.get("compress") and obs.get("compressed_left_bin"):
            ctx.fail("compress=True left the uncompressed shank .bin next to the .cbin", dsc, {"kind": "compress"})
        dist["shorter_than_overlap"] += ns <= 576 and W > 576
        if W > 576 and ns >= W:
            dist["length_on_window_lattice"] += (ns - W) % (W - 576) == 0
            dist["length_next_to_lattice"] += (ns - W) % (W - 576) in (1, W - 577)
        nw = (max(-(-(ns - W) // (W - 576)), 0) + 1) if W > 576 else 1
        dist["nap384"] += nap == 384
        dist["multi_window"] += nw > 1
        dist["unaligned_length"] += nw > 1 and (ns - W) % (W - 576) != 0
        nsh = len(set(case["labels"]))
        dist["single_shank"] += nsh == 1
        dist["four_shanks"] += nsh == 4
        dist["post_check"] += bool(case["post_check"])
        dist["multi_recon_window"] += ns > 60000
        gains_seen.add(case["gain"])
        if nw > 1 and nsh > 1:
            nontrivial.add((nap, ns, W, tuple(case["labels"]), case["gain"], case["data_seed"]))
        vc = guarded(ctx, dsc, "values", values_case, case, data, obs, ctx.rng, cap=400)
        if vc:
            inputs.append(vc[0]), outputs.append(vc[1]), descr.append(dict(dsc, mode="values"))
            dist["values_compared"] += vc[0][4]
            if not vc[2]:
                ctx.fail("the same sample value is written differently at different cells", dsc, {"kind": "content"})
        if nap == 384 and (ci < 3 or case.get("allvals")):   # every distinct value present, uncapped (extracted model only)
            vb = guarded(ctx, dsc, "values", values_case, case, data, obs, ctx.rng, cap=0)
            if vb:
                inputs.append(vb[0]), outputs.append(vb[1]), descr.append(dict(dsc, mode="values_all"))
                dist["values_compared"] += vb[0][4]
        for mi, mo in (guarded(ctx, dsc, "metadata", meta_cases, case, obs) or []):
            inputs.append(mi), outputs.append(mo), descr.append(dict(dsc, mode="meta"))
        if obs.get("again"):
            for mi, mo in (guarded(ctx, dsc, "re-run", rerun_cases, obs) or []):
                inputs.append(mi), outputs.append(mo), descr.append(dict(dsc, mode="rerun"))
        fc = guarded(ctx, dsc, "whole-file", full_case, case, data, obs) if case["full"] else None
        if fc:
            fi, fo = fc
            inputs.append(fi), outputs.append(fo), descr.append(dict(dsc, mode="full"))
            dist["full_model_runs"] += 1
            if kernel_full < 3 and len(fi) + len(fo) < 30000 and nw > 1:
                kernel_full += 1
                kernel_terms.append(common.flat_cases_term(len(inputs) - 1, fi, fo))
        if len(samples) < 6 and nw > 1:
            samples.append({"nap": nap, "ns": ns, "nwindow": W, "gain": list(case["gain"]),
                            "shanks": sorted(set(case["labels"])), "windows": nw,
                            "shank_file_values": [int(s["raw"].size) for s in obs["shanks"]],
                            "reconstructed_equal": bool(obs["recon"] is not None
                                                        and np.array_equal(obs["recon"]["raw"], data.ravel()))})
    # the subset codec on arbitrary channel lists
    for chns in gen_codec(ctx):
        try:
            ci_, co_, (s, back) = codec_case(chns)
        except BaseException as e:      # noqa
            ctx.fail("_get_savedChans_subset raised %r" % (e,), {"chns": chns}, {"kind": "codec"})
            continue
        if back != list(chns):
            ctx.fail("channel list %s is written as %r and parsed back as %s" % (chns, s, back),
                     {"chns": chns}, {"kind": "codec", "single": len(chns) == 1})
        inputs.append(ci_), outputs.append(co_), descr.append({"mode": "codec", "chns": chns})
        dist["codec_lists"] += 1
    n = common.correspondence(ctx, PROP, HEADER, inputs, outputs, lambda i: descr[i], n_kernel=60, shard=20)
    if kernel_terms:
        bad = common.coq_mismatches(PROP, HEADER, kernel_terms, shard=1)
        for i in bad:
            ctx.disagree("kernel-evaluated full model and implementation differ", descr[i])
        ctx.coverage["model_evaluations_kernel"] += len(kernel_terms)
    dist["gain_settings"] = len(gains_seen)
    return common.finish(
        ctx, TRUSTED,
        rule="synthetic NP2.4 recordings (385 channels and narrow ones; 144..7000 samples, a few >60000; window "
             "sizes around 588..60000 incl. non-multiples of 12 and 576; stripe/block/random/sparse shank maps over "
             "1-4 shanks; the nine gain settings; values from a palette with the extremes and the float32 "
             "counter-examples; sync column = row counter) are split by the real NP2Converter.process() and "
             "reassembled by NP2Reconstructor.process(); files and metadata are compared with the original (oracle) "
             "and with the Coq model (layout, value map, metadata, whole-file runs, subset codec); non-trivial = "
             "more than one window and more than one shank; distinct by (shape, window, map, gain, data seed)",
        samples=samples, evaluations=n, distinct_nontrivial=len(nontrivial),
        extra={"input_distribution": dist, "exhaustive": False},
        assumptions=["IEEE-754 binary32 arithmetic of the host NumPy equals Flocq's (checked on every run by the value cases)"])


def replay(ctx, data):
    inp = data.get("input") or (data.get("correspondence_disagreements") or [{}])[0].get("input")
    if not inp:
        print(json.dumps(data, indent=1)[:3000])
        return 1
    if "chns" in inp and "nap" not in inp:
        ci_, co_, (s, back) = codec_case(inp["chns"])
        print("channels", inp["chns"], "written as", repr(s), "parsed back as", back)
        ids = common.coq_mismatches(PROP, HEADER, [common.flat_cases_term(0, ci_, co_)])
        print("kernel-evaluated model agrees with implementation:", not ids)
        return 1 if (back != list(inp["chns"]) or ids) else 0
    case = {k: inp[k] for k in ("nap", "ns", "W", "template", "post_check", "labels", "data_seed")}
    case.update({k: inp.get(k, False) for k in ("wfloat", "strpath", "compress", "allvals", "orig_cbin", "again", "rcompress")})
    case["access"] = inp.get("access", "plain")
    case.update({k: inp.get(k) for k in ("keep_meta", "extra", "nsamples") if inp.get(k)})
    case["gain"] = tuple(inp["gain"])
    arr = build_data(case)
    obs = run_impl(case, arr)
    if isinstance(obs.get("data_final"), np.ndarray):
        arr = obs["data_final"]
    if case.get("nsamples"):
        arr = arr[:case["nsamples"]]
    bad = oracle(case, arr, obs)
    print("case:", {k: (v if k != "labels" else str(v[:16]) + "...") for k, v in case.items()})
    print("implementation error:", obs["error"])
    print("property clauses failing on the implementation:", bad)
    terms = []
    if expected_status(case["W"]) is not None or not obs["error"]:
        li, lo = layout_case(case, obs)
        terms.append(common.flat_cases_term(0, li, lo))
    if not obs["error"] and expected_status(case["W"]) is None:
        vc = values_case(case, arr, obs, ctx.rng, cap=300)
        if vc:
            terms.append(common.flat_cases_term(1, vc[0], vc[1]))
        for j, (mi, mo) in enumerate(meta_cases(case, obs)):
            terms.append(common.flat_cases_term(10 + j, mi, mo))
    ids = common.coq_mismatches(PROP, HEADER, terms, shard=2) if terms else []
    print("kernel-evaluated model disagrees on (0 layout, 1 values, 10+ metadata):", ids)
    return 1 if (bad or ids) else 0
