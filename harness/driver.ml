(* Generic driver for an extracted `run : z list -> z list` (module Model_run):
   one input per line (space-separated decimal integers), one output per line.
   Z stays the extracted inductive; conversion to OCaml int only for I/O
   (|values| < 2^62, enforced). *)
open Model_run

let rec pos_of_int n =
  if n = 1 then XH
  else if n land 1 = 0 then XO (pos_of_int (n lsr 1))
  else XI (pos_of_int (n lsr 1))

let z_of_int n =
  if n = 0 then Z0 else if n > 0 then Zpos (pos_of_int n) else Zneg (pos_of_int (- n))

let rec int_of_pos d = function
  | XH -> 1
  | XO p -> if d > 61 then failwith "overflow" else 2 * int_of_pos (d + 1) p
  | XI p -> if d > 61 then failwith "overflow" else 2 * int_of_pos (d + 1) p + 1

let int_of_z = function Z0 -> 0 | Zpos p -> int_of_pos 0 p | Zneg p -> - (int_of_pos 0 p)

let () =
  try
    while true do
      let line = input_line stdin in
      let toks = List.filter (fun s -> s <> "") (String.split_on_char ' ' line) in
      let inp = List.rev (List.rev_map (fun s -> z_of_int (int_of_string s)) toks) in
      let out = run inp in
      let b = Buffer.create 256 in
      List.iter (fun z -> Buffer.add_string b (string_of_int (int_of_z z)); Buffer.add_char b ' ') out;
      print_endline (Buffer.contents b)
    done
  with End_of_file -> ()
