"""C13 — waveform extraction to files: proofs in coq/C13, correspondence against
ibldsp.waveform_extraction.extract_wfs_cbin / WaveformsLoader and
ibldsp.utils.make_channel_index on synthetic recordings whose value encodes
(sample, channel)."""
import contextlib
import hashlib
import json
import os
import shutil
import signal
import subprocess
import sys
import warnings
from fractions import Fraction
from pathlib import Path

import numpy as np
import pandas as pd

import common

PROP = "C13"
HEADER = "From Coq Require Import ZArith List.\nImport ListNotations.\nFrom IBL.C13 Require Import Run."
TRUSTED = [
    "Coq 8.16.1 kernel + vm_compute (no native_compute); the 15 theorems of Props.v: Closed under the global context; "
    "PropsFloat.v (1 theorem): ClassicalDedekindReals.sig_forall_dec, sig_not_dec, functional_extensionality_dep, Classical_Prop.classic",
    "hand-written model coq/C13/Model.v of make_channel_index, _make_wfs_table, extract_wfs_cbin, write_wfs_chunk, "
    "extract_wfs_array, WaveformsLoader.load_waveforms (preprocess_steps=[], loader data version 2), tied to "
    "/repo/src by this run's correspondence on every output file",
    "rng.choice(a, k, replace=False) is a Section variable assumed to return k distinct members of a; the picks the "
    "implementation actually made are recorded (numpy.random.default_rng wrapped) and checked to be such",
    "np.unique / np.sort / np.searchsorted(left) on an ascending array / stable np.argsort / pandas sort_values on "
    "two keys (stable, i.e. ties by original position) / groupby-aggregate / np.nanmedian behave as documented",
    "spike trains sorted by time; 0 <= trough_offset <= chunk size; peak channels inside the probe",
    "scipy pdist returns the correctly rounded binary64 sqrt of the exact integer sum of squares (that the comparison with a "
    "half-integer radius then equals the model's integer test is theorem C13_radius_test_exact, Flocq, standard-library real axioms)",
    "spikeglx.Reader on a flat float32 file returns the stored values (C01 is the property about the reader); parquet/npz/npy encoding",
    "harness/pC13.py generator, canonicaliser and oracle",
    "extraction (Require Extraction, ExtrOcamlBasic only), harness/driver.ml, ocamlfind ocamlopt; a sample of the "
    "same cases is re-evaluated by the kernel (vm_compute)",
]


# --------------------------------------------------------------------------
# implementation runner
# --------------------------------------------------------------------------
class ImplTimeout(BaseException):
    pass


@contextlib.contextmanager
def time_limit(seconds):
    """A hang of the implementation (dead-locked workers, endless loop) becomes an exception."""
    def onalarm(signum, frame):
        raise ImplTimeout("no result after %d s" % seconds)
    try:
        old = signal.signal(signal.SIGALRM, onalarm)
    except ValueError:                      # not in the main thread: no watchdog
        yield
        return
    signal.setitimer(signal.ITIMER_REAL, seconds)
    try:
        yield
    finally:
        signal.setitimer(signal.ITIMER_REAL, 0)
        signal.signal(signal.SIGALRM, old)


HUNG = []        # once the implementation has hung, the remaining runs are skipped (one failing input is enough)


def kill_workers():
    try:
        from joblib.externals.loky import get_reusable_executor
        get_reusable_executor().shutdown(wait=False, kill_workers=True)
    except Exception:  # noqa
        pass


def err_text(e):
    return "%s: %s" % (type(e).__name__, str(e)[:200])


class RecRng:
    """Wraps the Generator the implementation creates; records what choice() returned."""

    def __init__(self, g, log):
        self._g, self._log = g, log

    def choice(self, a, *args, **kw):
        r = self._g.choice(a, *args, **kw)
        self._log.append([int(x) for x in np.atleast_1d(r)])
        return r

    def __getattr__(self, name):
        return getattr(self._g, name)


STEP_CODES = {"butterworth": 1, "phase_shift": 2, "bad_channel_interpolation": 3, "car": 4, "kfilt": 5}


def case_header(case):
    nc = case["nc"]
    shift = np.zeros(nc) if not case.get("shift") else (np.arange(nc) % 13) / 13.0 * 0.9
    return {"x": np.array([g[0] for g in case["geom"]], dtype=float),
            "y": np.array([g[1] for g in case["geom"]], dtype=float), "sample_shift": shift}


def make_recording(case, d):
    ns, nc = case["ns"], case["nc"]
    # value = sample * stride + channel.  stride > nc + 1 on purpose for most cases: with stride = nc + 1 the
    # file is just 0, 1, 2, ... whatever its shape, and data read from ANOTHER recording would look right
    stride = case.get("stride") or nc + 1
    data = (np.arange(ns, dtype=np.int64)[:, None] * stride + np.arange(nc + 1)[None, :]).astype(np.float32)
    if case.get("float_seed") is not None:      # preprocessing cases: noise with a few large deflections
        g = np.random.RandomState(case["float_seed"])
        data = (g.standard_normal((ns, nc + 1)) * 20 + 200 * (g.random_sample((ns, nc + 1)) > 0.995)).astype(np.float32)
        data[:, nc] = 0
    f = Path(d) / "rec.bin"
    data.tofile(f)
    return f, data


def impl_extract(case, binf, size, n_jobs, out):
    """One real extract_wfs_cbin + WaveformsLoader run -> observation dict."""
    from ibldsp import waveform_extraction as we
    ns, nc = case["ns"], case["nc"]
    sp = case["spikes"]
    dts = case.get("dt") or ["int64", "int64", "int64"]
    arrs = []
    for col, dt in enumerate(dts):
        a = np.array([s[col] for s in sp], dtype=np.dtype(dt))
        if case.get("strided"):          # non-contiguous view with the same content
            buf = np.zeros(2 * len(a) + 1, dtype=a.dtype)
            buf[1::2] = a
            a = buf[1::2]
        arrs.append(a)
    ss, sc, sch = arrs
    if case.get("bin_str"):
        binf = str(binf)
    h = case_header(case)
    steps = case.get("steps", [])
    labels_arg = None if case.get("chan_labels") is None else np.array(case["chan_labels"], dtype=float)
    rkw = case.get("reader_kwargs")
    if rkw is None:
        rkw = {"ns": ns, "nc": nc + 1, "nsync": 1, "dtype": "float32", "fs": 30000}
    extra = {}
    if case.get("wfs_dtype"):
        extra["wfs_dtype"] = np.dtype(case["wfs_dtype"]).type
    if case.get("scratch"):
        extra["scratch_dir"] = Path(case["scratch"])
    out = Path(out)
    out.mkdir(parents=True, exist_ok=True)
    log = []
    real = np.random.default_rng
    np.random.default_rng = lambda *a, **k: RecRng(real(*a, **k), log)
    obs = {"size": size, "n_jobs": n_jobs}
    if HUNG:
        obs.update({"error": "skipped: the implementation hung on an earlier input", "picks": [], "skipped": True})
        np.random.default_rng = real
        return obs
    keep = [a.copy() for a in (ss, sc, sch)]
    bin_sha = hashlib.sha256(Path(binf).read_bytes()).hexdigest()
    try:
        with warnings.catch_warnings(), time_limit(60):
            warnings.simplefilter("ignore")
            we.extract_wfs_cbin(
                binf, out, ss, sc, sch, h=(None if case.get("h_none") else h),
                reader_kwargs=rkw, channel_labels=labels_arg,
                max_wf=case["maxwf"], trough_offset=case["to"], spike_length_samples=case["L"],
                chunksize_samples=size, n_jobs=n_jobs, preprocess_steps=steps, seed=case["seed"], **extra)
    except BaseException as e:  # noqa  (SystemExit / KeyboardInterrupt raised by the code under test included)
        if isinstance(e, ImplTimeout):
            HUNG.append(1)
            kill_workers()
        obs["error"] = err_text(e)
        obs["picks"] = [p for p in log if isinstance(p, list)]
        return obs
    finally:
        np.random.default_rng = real
    obs["picks"] = log
    obs["inputs_modified"] = [n for n, a, b in zip(("spike_samples", "spike_clusters", "spike_channels"), (ss, sc, sch), keep)
                              if not (a.dtype == b.dtype and np.array_equal(a, b))]
    if hashlib.sha256(Path(binf).read_bytes()).hexdigest() != bin_sha:
        obs["inputs_modified"].append("the recording file")
    try:
        with warnings.catch_warnings(), time_limit(120):
            warnings.simplefilter("ignore")
            tb = pd.read_parquet(out / "waveforms.table.pqt")
            obs["table_cols"] = list(tb.columns)
            obs["table"] = tb[["index", "sample", "cluster", "peak_channel", "waveform_index",
                               "index_within_clusters"]].to_numpy().astype(np.int64)
            obs["table_pdindex"] = np.asarray(tb.index).astype(np.int64)
            obs["traces"] = np.array(np.load(out / "waveforms.traces.npy"))
            obs["channels"] = np.load(out / "waveforms.channels.npz")["channels"].astype(np.int64)
            obs["templates"] = np.load(out / "waveforms.templates.npy")
            for k in ("traces", "channels", "templates"):
                if not isinstance(obs[k], np.ndarray) or obs[k].dtype.kind not in "fiu":
                    raise TypeError("%s file holds %r" % (k, getattr(obs[k], "dtype", type(obs[k]))))
            obs.update(loader_sequence(we, case, out, obs))
    except BaseException as e:  # noqa
        if isinstance(e, ImplTimeout):
            HUNG.append(1)
        obs["error"] = "reading back / loading: " + err_text(e)
    return obs


FILES = ("waveforms.traces.npy", "waveforms.table.pqt", "waveforms.channels.npz", "waveforms.templates.npy")


def folder_state(d):
    """Names and content of the files directly inside a session folder."""
    return {p.name: hashlib.sha256(p.read_bytes()).hexdigest() for p in sorted(Path(d).iterdir()) if p.is_file()}


def folder_changes(before, d, scratch=None):
    """The session folder must hold exactly the files it held before the extraction (names and bytes);
    a scratch directory must not keep a decompressed .bin / .meta."""
    after = folder_state(d)
    bad = []
    gone = sorted(set(before) - set(after))
    new = sorted(set(after) - set(before))
    changed = sorted(k for k in before if k in after and before[k] != after[k])
    if gone:
        bad.append("deleted %s from the session folder" % gone)
    if new:
        bad.append("left %s behind in the session folder" % new)
    if changed:
        bad.append("modified %s in the session folder" % changed)
    if scratch and Path(scratch).exists():
        left = sorted(p.name for p in Path(scratch).iterdir())
        if left:
            bad.append("left %s behind in the scratch directory" % left)
    return bad


def file_hashes(out):
    return [hashlib.sha256((Path(out) / f).read_bytes()).hexdigest() if (Path(out) / f).exists() else None for f in FILES]


def loader_args(case, labels, indices):
    lrep, irep = case.get("lab_repr", "array"), case.get("ind_repr", "array")
    if labels is not None:
        labels = {"array": np.array(labels), "list": list(labels), "tuple": tuple(labels),
                  "int32": np.array(labels, dtype=np.int32)}[lrep]
    if indices is not None:
        indices = {"array": np.array(indices), "list": list(indices),
                   "scalar": indices[0] if len(indices) == 1 else list(indices),
                   "npint": np.int64(indices[0]) if len(indices) == 1 else np.array(indices, dtype=np.uint8)}[irep]
    return labels, indices


def scribble(wfs, info, chans):
    """In-place edits a caller may make on what load_waveforms returned (mean removal, blanking,
    scaling ...); read-only results are left alone."""
    for a, v in ((wfs, -12345.0), (chans, -9)):
        try:
            a[...] = v
        except Exception:  # noqa
            pass
    if info is not None:
        try:
            info.iloc[:, :] = -5
        except Exception:  # noqa
            pass


def loader_sequence(we, case, out, obs):
    """A sequence of load_waveforms calls (same loader and fresh loaders; default, by labels, by
    indices, both), every returned array edited in place between calls.  Each call is compared with a
    snapshot of the saved rows; the four files must be byte-identical afterwards."""
    tb, tr, ch = obs["table"], obs["traces"], obs["channels"]
    snap_tr, snap_ch, snap_tb = tr.copy(), ch.copy(), tb.copy()
    h0 = file_hashes(out)
    L, I = case["labels"], case["indices"]
    queries = [("q", L, I), ("all", None, None), ("lab", L, None), ("ind", None, I),
               ("all", None, None), ("q", L, I)]
    res = {"seq_bad": [], "seq_calls": 0}
    wl = we.WaveformsLoader(out, trough_offset=case["to"])
    for step, (name, lab, ind) in enumerate(queries):
        if step == 4:                       # a fresh loader for the last two calls
            del wl
            wl = we.WaveformsLoader(out, trough_offset=case["to"])
        la, ia = loader_args(case, lab, ind)
        ret = wl.load_waveforms(labels=la, indices=ia)
        if not (isinstance(ret, tuple) and len(ret) == 3):
            raise TypeError("load_waveforms returned %s instead of (waveforms, info, channels)" % type(ret).__name__)
        wfs, info, chans = ret
        if not (isinstance(wfs, np.ndarray) and isinstance(chans, np.ndarray) and isinstance(info, pd.DataFrame)):
            raise TypeError("load_waveforms returned (%s, %s, %s)" % (type(wfs).__name__, type(info).__name__, type(chans).__name__))
        rows = [int(x) for x in info.index]
        res["seq_calls"] += 1
        if step < 4:
            res["rows_" + name] = rows
        elif rows != res["rows_" + name]:
            res["seq_bad"].append("call %d (%s, fresh loader) selects other rows than the first time" % (step, name))
        ok = (np.asarray(wfs).shape == (len(rows),) + snap_tr.shape[1:] and nan_eq(wfs, snap_tr[rows]) and
              np.array_equal(np.asarray(chans), snap_ch[rows]) and
              np.array_equal(info[["sample", "cluster", "peak_channel", "waveform_index",
                                   "index_within_clusters"]].to_numpy().astype(np.int64), snap_tb[rows][:, 1:]))
        if not ok:
            res["seq_bad"].append("call %d (%s): load_waveforms does not return the saved rows "
                                  "(after in-place edits of earlier results)" % (step, name))
        scribble(wfs, info, chans)
        wfs2 = wl.load_waveforms(labels=la, indices=ia, return_info=False, flatten=bool(step % 2))   # flatten: no effect on v2 files
        if not isinstance(wfs2, np.ndarray) or not nan_eq(wfs2, snap_tr[rows]):
            res["seq_bad"].append("call %d (%s): repeated load differs from the saved rows" % (step, name))
        scribble(wfs2, None, None)
    del wl
    if file_hashes(out) != h0:
        res["seq_bad"].append("the output files changed on disk during a sequence of load_waveforms calls")
    if not nan_eq(np.load(Path(out) / "waveforms.traces.npy"), snap_tr):
        res["seq_bad"].append("waveforms.traces.npy no longer holds the extracted waveforms")
    res["ld_rows"] = res["rows_q"]
    return res


# --------------------------------------------------------------------------
# independent reference (plain Python/NumPy) used by the property oracle
# --------------------------------------------------------------------------
def ref_neighbours(geom, r2n=40000, r2d=1, padv=None):
    n = len(geom)
    rows = [[j for j in range(n)
             if ((geom[c][0] - geom[j][0]) ** 2 + (geom[c][1] - geom[j][1]) ** 2) * r2d <= r2n] for c in range(n)]
    w = max(len(r) for r in rows)
    padv = n if padv is None else padv
    return [r + [padv] * (w - len(r)) for r in rows]


def nan_eq(a, b):
    try:
        a, b = np.asarray(a, dtype=np.float64), np.asarray(b, dtype=np.float64)
    except Exception:  # noqa  (ragged lists, objects ...)
        return False
    return a.shape == b.shape and bool(np.all((a == b) | (np.isnan(a) & np.isnan(b))))


def py_plan(case, size, tb):
    """Chunk geometry of write_wfs_chunk written independently of the model: for each table row
    (waveform_index, chunk, snippet start, snippet length, local column of the window start, peak)."""
    ns, to, L = case["ns"], case["to"], case["L"]
    nchunks = -(-ns // size)
    plan = []
    for r in range(tb.shape[0]):
        s = int(tb[r, 1])
        i = s // size
        off = 0 if i == 0 else to
        a = i * size - off
        s1 = ns if i == nchunks - 1 else (i + 1) * size
        b = min(ns, s1 + L - to)
        plan.append([int(tb[r, 4]), i, a, max(0, b - a), s - a - to, int(tb[r, 3])])
    return plan


def apply_steps(case, snip, labels):
    """The requested library steps on one snippet (channels x samples, float32), in the documented order and
    with the arguments write_wfs_chunk uses.  The functions are the implementation's own (their
    correctness belongs to C05 / C07 / C15)."""
    import scipy.signal
    from ibldsp.voltage import interpolate_bad_channels, car, kfilt
    from ibldsp.fourier import fshift
    steps = case["steps"] if case["steps"] is not None else ["butterworth", "phase_shift"]
    h = case_header(case)
    kk = {"ntr_pad": 60, "ntr_tap": 0, "lagc": 0, "butter_kwargs": {"N": 3, "Wn": 0.01, "btype": "highpass"}}
    if "butterworth" in steps:
        sos = scipy.signal.butter(N=3, Wn=300 / 30000 * 2, btype="highpass", output="sos")
        snip = scipy.signal.sosfiltfilt(sos, snip)
    if "phase_shift" in steps:
        snip = fshift(snip, h["sample_shift"], axis=-1)
    if "bad_channel_interpolation" in steps:
        snip = interpolate_bad_channels(snip, labels, h["x"], h["y"])
    if "car" in steps:
        snip = car(snip, **kk)
    if "kfilt" in steps:
        snip = kfilt(snip, **kk)
    return snip


def expected_processed(case, plan, data, labels):
    """Traces expected from the plan: every chunk's snippet processed once, windows cut out of it."""
    nc, L = case["nc"], case["L"]
    nb = ref_neighbours(case["geom"])
    out, cache = {}, {}
    for wfi, i, a, ln, q0, pk in plan:
        if i not in cache:
            with warnings.catch_warnings():
                warnings.simplefilter("ignore")
                sn = apply_steps(case, data[a:a + ln, :nc].T.copy(), labels)
            cache[i] = np.vstack([np.asarray(sn, dtype=np.float64), np.full((1, ln), np.nan)])
        out[wfi] = cache[i][np.array(nb[pk])][:, q0:q0 + L].astype(np.float32)
    return out


def oracle(case, obs, data, expected=None):
    """The property's clauses evaluated on the implementation's files only.  expected: waveform by row
    when the traces are not the raw source (preprocessing)."""
    bad = []
    ns, nc, to, L, maxwf = case["ns"], case["nc"], case["to"], case["L"], case["maxwf"]
    sp = case["spikes"]
    nb = ref_neighbours(case["geom"])
    nnb = len(nb[0])
    tb, tr, ch, tp = obs["table"], obs["traces"], obs["channels"], obs["templates"]
    n = tb.shape[0]
    if tr.shape != (n, nnb, L):
        bad.append(("shape", "traces shape %s, expected %s" % (tr.shape, (n, nnb, L))))
        return bad
    if ch.shape != (n, nnb):
        bad.append(("shape", "channel map shape %s, expected %s" % (ch.shape, (n, nnb))))
        return bad
    # window correctness, row by row
    src = np.vstack([data[:, :nc].T.astype(np.float64), np.full((1, ns), np.nan)])
    for r in range(n):
        s, pc = int(tb[r, 1]), int(tb[r, 3])
        if not (0 <= pc < nc and 0 <= s - to and s - to + L <= ns):
            bad.append(("window", "row %d: window of sample %d outside the recording" % (r, s)))
            break
        exp = src[np.array(nb[pc])][:, s - to:s - to + L]
        if expected is not None:
            exp = expected.get(int(tb[r, 4]))
            if exp is None or np.asarray(exp).shape != tr[r].shape or \
                    not np.allclose(tr[r], exp, rtol=1e-5, atol=1e-4, equal_nan=True):
                bad.append(("window", "row %d (sample %d, peak %d): waveform differs from the requested steps %s applied "
                            "in order to the snippet of its chunk" % (r, s, pc, case["steps"])))
                break
        elif not nan_eq(tr[r], exp):
            bad.append(("window", "row %d (sample %d, peak %d): waveform differs from the source window" % (r, s, pc)))
            break
        if list(ch[r]) != nb[pc]:
            bad.append(("chanmap", "row %d: channel map row is not the neighbourhood of the peak channel" % r))
            break
    if list(tb[:, 4]) != list(range(n)):
        bad.append(("rows", "waveform_index differs from the row number"))
    if list(obs["table_pdindex"]) != list(tb[:, 0]):
        bad.append(("rows", "dataframe index differs from the index column"))
    keys = [(int(a), int(b)) for a, b in zip(tb[:, 2], tb[:, 1])]
    if keys != sorted(keys):
        bad.append(("rows", "table not sorted by (cluster, sample)"))
    pos = {}
    iw_exp = []
    for c, _ in keys:
        iw_exp.append(pos.get(c, 0))
        pos[c] = pos.get(c, 0) + 1
    if iw_exp != [int(x) for x in tb[:, 5]]:
        bad.append(("rows", "index_within_clusters is not the position inside the cluster"))
    # unit counts and distinctness
    units = sorted({s[1] for s in sp})
    for u in units:
        valid = [(s[0], s[2]) for s in sp if s[1] == u and to < s[0] < ns - (L - to)]
        got = [(int(a), int(b)) for a, b, c in zip(tb[:, 1], tb[:, 3], tb[:, 2]) if c == u]
        if len(got) != min(maxwf, len(valid)):
            bad.append(("counts", "unit %d received %d waveforms, expected min(%d, %d)" % (u, len(got), maxwf, len(valid))))
        pool = list(valid)
        for g in got:
            if g in pool:
                pool.remove(g)
            else:
                bad.append(("counts", "unit %d: row %s is not a distinct valid spike of the unit" % (u, g)))
                break
    if any(int(c) not in units for c in tb[:, 2]):
        bad.append(("counts", "table contains a cluster that has no spike"))
    # recorded rng picks are distinct members
    if len(obs["picks"]) != len(units):
        bad.append(("picks", "rng.choice called %d times for %d units" % (len(obs["picks"]), len(units))))
    for u, p in zip(units, obs["picks"]):
        cand = [i for i, s in enumerate(sp) if s[1] == u and to < s[0] < ns - (L - to)]
        if len(set(p)) != len(p) or any(x not in cand for x in p) or len(p) != min(maxwf, len(cand)):
            bad.append(("picks", "unit %d: rng.choice result is not min(max_wf, n) distinct valid spikes" % u))
    # templates
    present = []
    for c, _ in keys:
        if c not in present:
            present.append(c)
    if tp.shape != (len(units), nnb, L):
        bad.append(("templates", "templates shape %s" % (tp.shape,)))
    else:
        with warnings.catch_warnings():
            warnings.simplefilter("ignore")
            for i, c in enumerate(present):
                rows = [r for r in range(n) if keys[r][0] == c]
                if not nan_eq(tp[i], np.nanmedian(tr[rows].astype(np.float64), axis=0)) and \
                        not nan_eq(tp[i], np.nanmedian(tr[rows], axis=0)):
                    bad.append(("templates", "template %d is not the median of the rows of cluster %d" % (i, c)))
                    break
        if not np.all(np.isnan(tp[len(present):])):
            bad.append(("templates", "template rows beyond the clusters present are not NaN"))
    # loader: row selection of the four queries, and the call sequence
    labs = present if case["labels"] is None else case["labels"]
    for name, lsel, isel in (("q", labs, case["indices"]), ("all", present, None), ("lab", labs, None),
                             ("ind", present, case["indices"])):
        exp_rows = [r for r in range(n) if keys[r][0] in lsel and (isel is None or iw_exp[r] in isel)]
        if obs["rows_" + name] != exp_rows:
            bad.append(("loader", "load_waveforms(%s) selected rows %s, expected %s" % (name, obs["rows_" + name][:8], exp_rows[:8])))
    for w in obs["seq_bad"]:
        bad.append(("loader_sequence", w))
    for w in obs.get("inputs_modified", []):
        bad.append(("inputs", "extract_wfs_cbin modified %s in place" % w))
    return bad


# --------------------------------------------------------------------------
# flat encodings (same as coq/C13/Run.v)
# --------------------------------------------------------------------------
def enc_opt(l):
    return [0] if l is None else [1, len(l)] + [int(x) for x in l]


def enc_inp(case, size, picks):
    geom, sp = case["geom"], case["spikes"]
    out = [1, case["ns"], case["nc"], case["to"], case["L"], case["maxwf"], size, 40000, 1, case.get("stride") or case["nc"] + 1]
    out += [len(geom)] + [int(v) for g in geom for v in g]
    out += [len(sp)] + [int(v) for s in sp for v in s]
    out += [len(picks)]
    for p in picks:
        out += [len(p)] + p
    out += enc_opt(case["labels"]) + enc_opt(case["indices"])
    return out


def enc_inp_plan(case, size, picks):
    out = enc_inp(case, size, picks)
    out[0] = 4
    steps = case["steps"] if case["steps"] is not None else ["butterworth", "phase_shift"]
    return out + [len(steps)] + [STEP_CODES.get(x, 9) for x in steps]


def enc_obs_plan(case, size, obs):
    if "error" in obs:
        return [0]
    tb, ch, tp = obs["table"], obs["channels"], obs["templates"]
    n = tb.shape[0]
    out = [1, 1, n] + [int(x) for x in tb.ravel()]
    plan = sorted(py_plan(case, size, tb), key=lambda p: (p[1], order_of(tb, p[0])))      # job order: chunk, then time
    out += [len(plan)] + [v for p in plan for v in p]
    out += [ch.shape[0], ch.shape[1]] + [int(x) for x in ch.ravel()]
    clusters = []
    for c in tb[:, 2]:
        if int(c) not in clusters:
            clusters.append(int(c))
    out += [tp.shape[0], len(clusters)]
    for c in clusters:
        rows = [int(w) for w, cc in zip(tb[:, 4], tb[:, 2]) if int(cc) == c]
        out += [min(rows), max(rows) + 1]
    for name in ("q", "all", "lab", "ind"):
        out += [len(obs["rows_" + name])] + obs["rows_" + name]
    return out


def order_of(tb, wfi):
    """Position of the row with this waveform_index in the time-ordered table (its `index` column)."""
    return int(tb[list(tb[:, 4]).index(wfi), 0])


def enc_cells(a, scale=1):
    a = np.asarray(a, dtype=np.float64).ravel() * scale
    nan = np.isnan(a)
    v = np.where(nan, -1.0, a)
    r = np.round(v)
    r = np.where((r == v) | nan, r, -3.0)      # -3: not an integer -> disagreement
    return [int(x) for x in r]


def enc_obs(obs):
    if "error" in obs:
        return [0]
    tb, tr, ch, tp = obs["table"], obs["traces"], obs["channels"], obs["templates"]
    n = tb.shape[0]
    out = [1, 1, n] + [int(x) for x in tb.ravel()]
    out += [tr.shape[0], tr.shape[1], tr.shape[2]] + enc_cells(tr)
    out += [ch.shape[0], ch.shape[1]] + [int(x) for x in ch.ravel()]
    ngroups = len(set(int(c) for c in tb[:, 2]))
    out += [tp.shape[0], ngroups] + enc_cells(tp[:ngroups], 2)
    for name in ("q", "all", "lab", "ind"):
        out += [len(obs["rows_" + name])] + obs["rows_" + name]
    return out


# --------------------------------------------------------------------------
# generators
# --------------------------------------------------------------------------
def gen_geom(rng, nc):
    style = rng.randrange(6)
    if style == 0:      # NP1-like staggered 4 columns
        xs = [43, 11, 59, 27]
        return [[xs[c % 4], 20 * (c // 2) * rng.choice([1])] for c in range(nc)]
    if style == 1:      # single column, pitch chosen so that multiples hit the radius exactly or just miss it
        p = rng.choice([40, 50, 66, 67, 100, 101, 199, 200, 201])
        return [[0, p * c] for c in range(nc)]
    if style == 2:      # two columns 120 apart, rows 160 apart: diagonal exactly 200
        dx = rng.choice([119, 120, 121])
        return [[dx * (c % 2), 160 * (c // 2)] for c in range(nc)]
    if style == 3:      # two columns NP2-like
        p = rng.choice([15, 60, 90, 130])
        return [[27 + 32 * (c % 2), p * (c // 2)] for c in range(nc)]
    if style == 4:      # two shanks far apart
        return [[(c % 2) * 32 + (250 if c >= nc // 2 else 0), 45 * ((c % (max(1, nc // 2))) // 2)] for c in range(nc)]
    pts = set()
    while len(pts) < nc:
        pts.add((rng.randrange(0, 5) * 60, rng.randrange(0, 12) * 50))
    pts = list(pts)
    rng.shuffle(pts)
    return [list(p) for p in pts]


def gen_case(rng, cid, big=None):
    if big is not None:
        import neuropixel
        h = neuropixel.trace_header(**big)
        geom = [[int(x), int(y)] for x, y in zip(h["x"], h["y"])]
        nc = len(geom)
        ns = rng.randrange(700, 1200)
        to, L = rng.choice([(42, 128), (10, 30)])
        nunits, maxwf = 3, rng.choice([2, 3])
    else:
        nc = rng.choice([2, 3, 4, 6, 8, 11, 12, 16])
        geom = gen_geom(rng, nc)
        ns = rng.choice([rng.randrange(300, 1500), rng.randrange(1500, 6000), rng.randrange(600, 2500)])
        if rng.random() < 0.2:
            to, L = 42, 128
        else:
            L = rng.randrange(2, 25)
            to = rng.choice([0, 1, L - 1, L // 3, rng.randrange(0, L)])
        nunits = rng.randrange(1, 6)
        maxwf = rng.choice([1, 2, 3, 4, 5, 8])
    hi = ns - (L - to)      # valid iff to < s < hi
    # chunk sizes for this case: the property's 500..10000 plus small ones (many seams), all >= to
    pool = [500, 501, 512, 777, 1000, 1024, 2000, 3000, 4999, 10000, ns - 1, ns, ns + 1, ns // 2, (ns + 1) // 2,
            ns // 3, max(to, 1), to + 1, L, L + to, rng.randrange(max(to, 1), 400), rng.randrange(max(to, 1), 4000)]
    pool = sorted({p for p in pool if p >= max(1, to) and -(-ns // p) <= 70})
    sizes = rng.sample(pool, min(len(pool), 3))
    # a trailing chunk shorter than one waveform that still holds a valid spike (remainder in (L - to, L))
    short_last = None
    if to >= 2 and rng.random() < 0.45:
        m = rng.choice([1, 2, 3, 4])
        size = (ns - rng.randrange(L - to + 1, L)) // m
        if size >= max(to, 1) and L - to < ns - m * size < L and -(-ns // size) <= 70:
            sizes = [size] + [z for z in sizes if z != size][:2]
            short_last = m * size
    clusters = rng.sample([0, 1, 2, 3, 5, 7, 8, 13, 20, 21, 100, 4000], nunits)
    spikes = []
    if short_last is not None:
        spikes.append([short_last + rng.choice([0, 0, 1]), clusters[0], rng.randrange(nc)])
    edge = [0, 1, to - 1, to, to + 1, to + 2, hi - 2, hi - 1, hi, hi + 1, ns - 1, ns - 2, ns // 2]
    seams = [k * sz + d for sz in sizes for k in range(1, min(6, -(-ns // sz)) + 1) for d in (-1, 0, 1, -to, to)]
    for u in clusters:
        kind = rng.random()
        if kind < 0.12:
            want_valid = 0
        elif kind < 0.3:
            want_valid = maxwf
        elif kind < 0.45:
            want_valid = maxwf + 1
        elif kind < 0.6:
            want_valid = max(0, maxwf - 1)
        else:
            want_valid = rng.randrange(0, 3 * maxwf + 2)
        times = []
        while sum(1 for t in times if to < t < hi) < want_valid:
            src = rng.random()
            if src < 0.3:
                t = rng.choice(edge)
            elif src < 0.6:
                t = rng.choice(seams)
            elif src < 0.7 and times:
                t = rng.choice(times)                       # duplicate inside the unit
            elif src < 0.8 and spikes:
                t = rng.choice(spikes)[0]                   # duplicate across units
            else:
                t = rng.randrange(0, ns)
            if 0 <= t < ns:
                times.append(t)
            if len(times) > 200:
                break
        # a few invalid ones at the edges
        for t in rng.sample([0, 1, to, to - 1, hi, hi + 1, ns - 1], rng.randrange(0, 4)):
            if 0 <= t < ns:
                times.append(t)
        for t in times:
            spikes.append([t, u, rng.choice([0, nc - 1, rng.randrange(nc), rng.randrange(nc)])])
    rng.shuffle(spikes)
    spikes.sort(key=lambda s: s[0])                         # spike train sorted by time (stable)
    if not spikes:
        spikes = [[min(ns - 1, to + 1), clusters[0], 0]]
    present = sorted({s[1] for s in spikes})
    lab = rng.random()
    labels = None if lab < 0.3 else rng.sample(present, rng.randrange(1, len(present) + 1))
    if labels is not None and rng.random() < 0.2:
        labels = labels + [9999]
    indices = None if rng.random() < 0.4 else sorted(rng.sample(range(0, maxwf + 1), rng.randrange(1, min(3, maxwf) + 1)))
    # representation of the inputs: integer dtypes (phy/kilosort store spike_times.npy as uint64),
    # contiguity, Path vs str
    INT = ["int64", "uint64", "int32", "uint32"]
    dt = [INT[(cid + rng.randrange(2) * 2) % 4] if big is None else rng.choice(INT), rng.choice(INT), rng.choice(INT)]
    if dt[0].startswith("u"):
        # a unit made only of spikes too close to the start (a wrapped `sample - trough_offset` would accept them)
        early = sorted({0, to // 2, to, max(0, to - 1)})
        spikes = [[t, 77, rng.choice([0, nc - 1])] for t in early] + spikes
        spikes.sort(key=lambda s: s[0])
    # seed 0 is a seed like any other (`seed or ...` would lose it); 2**40 does not fit 32 bits
    seed = [0, 1, 2 ** 40, rng.randrange(2, 10 ** 6), rng.randrange(2, 10 ** 6)][cid % 5]
    return {"id": cid, "ns": ns, "nc": nc, "geom": geom, "to": to, "L": L, "maxwf": maxwf, "spikes": spikes,
            "seed": seed, "labels": labels, "indices": indices, "sizes": sizes, "stride": nc + 1 + (cid % 4),
            "dt": dt, "strided": rng.random() < 0.3, "bin_str": rng.random() < 0.3,
            "lab_repr": rng.choice(["array", "list", "tuple", "int32"]),
            "ind_repr": rng.choice(["array", "list", "scalar", "npint"]),
            "h_none": bool(big == {"version": 1})}


def gen_chanidx_case(rng):
    nc = rng.randrange(1, 14)
    geom = gen_geom(rng, nc)
    r2 = rng.choice([0, 1, 40, 80, 100, 199, 200, 201, 241, 300, 65, rng.randrange(0, 500)])   # radius * 2
    padv = rng.choice([None, None, -1, 99])
    return {"geom": geom, "r2": r2, "padv": padv}


def impl_chanidx(c):
    from ibldsp.utils import make_channel_index
    g = np.array(c["geom"], dtype=float).reshape(-1, 2)
    g0 = g.copy()
    ci = make_channel_index(g, radius=c["r2"] / 2.0, pad_val=c["padv"])
    if not isinstance(ci, np.ndarray) or ci.ndim != 2 or ci.dtype.kind not in "iu":
        raise TypeError("make_channel_index returned %s%s instead of a 2-D integer array" % (
            type(ci).__name__, (" of dtype %s, shape %s" % (ci.dtype, ci.shape)) if isinstance(ci, np.ndarray) else ""))
    if not np.array_equal(g, g0):
        raise ValueError("make_channel_index modified the geometry array in place")
    return [int(ci.shape[0]), int(ci.shape[1])] + [int(x) for x in ci.ravel()]


def enc_chanidx(c):
    n = len(c["geom"])
    return [2, c["r2"] * c["r2"], 4, n if c["padv"] is None else c["padv"], n] + [int(v) for g in c["geom"] for v in g]


# ---- extract_wfs_array called directly (array-level entry point) ---------------------------------
def gen_array_case(rng, big=None):
    if big is not None:
        import neuropixel
        hh = neuropixel.trace_header(**big)
        geom = [[int(x), int(y)] for x, y in zip(hh["x"], hh["y"])]
        r2 = rng.choice([60, 150, 400])                       # radius * 2
        ns = rng.randrange(60, 120)
        L = rng.randrange(4, 20)
    else:
        geom = gen_geom(rng, rng.choice([1, 2, 3, 4, 6, 9, 12]))
        r2 = rng.choice([0, 100, 200, 400, 401, 640, rng.randrange(0, 900)])
        ns = rng.randrange(12, 200)
        L = rng.randrange(1, min(24, ns - 2))
    nc = len(geom)
    to = rng.choice([0, L - 1, L // 3, rng.randrange(0, L)])
    dtype = rng.choice(["float32", "float64", "int16", "int32"])
    add_nan = rng.random() < 0.65
    if dtype == "int16" and ns * (nc + 2) >= 32768:           # the encoding must fit the dtype
        dtype = "int32"
    lo, hi = to, ns - (L - to) - 1                            # valid samples: lo <= s, last one <= hi
    kind = rng.choice(["valid"] * 7 + ["assert", "wrap", "peak_out", "empty"])
    n = rng.randrange(1, 7)
    samples = sorted(rng.choice([lo, lo + 1, hi, hi - 1, rng.randrange(lo, hi + 1)]) for _ in range(n)) if hi >= lo else [lo]
    peaks = [rng.choice([0, nc - 1, rng.randrange(nc)]) for _ in samples]
    if hi < lo:
        kind = "assert"
    if kind == "assert":
        samples[-1] = hi + 1 + rng.choice([0, 0, 1, 5])
    elif kind == "wrap" and to > 0:
        samples[0] = rng.randrange(max(0, to - 3), to)
    elif kind == "peak_out":
        peaks[rng.randrange(len(peaks))] = nc + rng.choice([0, 1])
    elif kind == "empty":
        samples, peaks = [], []
    return {"geom": geom, "r2": r2, "ns": ns, "to": to, "L": L, "dtype": dtype, "order": rng.choice(["C", "F"]),
            "add_nan": add_nan, "samples": samples, "peaks": peaks, "kind": kind,
            "df_dtype": rng.choice(["int64", "int32"]), "verbose": rng.random() < 0.1}


def array_setup(c):
    """The array handed to extract_wfs_array, the channel table, the index of its NaN row (-1: none)."""
    nc, ns = len(c["geom"]), c["ns"]
    stride = nc + 1
    nb = ref_neighbours(c["geom"], c["r2"] * c["r2"], 4, nc)
    is_int = c["dtype"].startswith("int")
    nrows = nc if c["add_nan"] else nc + 1
    arr = (np.arange(ns, dtype=np.int64)[None, :] * stride + np.arange(nrows, dtype=np.int64)[:, None]).astype(c["dtype"])
    nan_row = nc
    if not c["add_nan"]:
        if is_int:
            nan_row = -1                                      # the extra last row is ordinary data
        else:
            arr[nc, :] = np.nan
    arr = np.asfortranarray(arr) if c["order"] == "F" else np.ascontiguousarray(arr)
    return arr, nb, nan_row, stride


def impl_array(c):
    from ibldsp.waveform_extraction import extract_wfs_array
    arr, nb, nan_row, stride = array_setup(c)
    df = pd.DataFrame({"sample": np.array(c["samples"], dtype=c["df_dtype"]),
                       "peak_channel": np.array(c["peaks"], dtype=c["df_dtype"])})
    nbarr = np.array(nb, dtype=int)
    arr0, df0, nb0 = arr.copy(), df.copy(), nbarr.copy()
    try:
        with warnings.catch_warnings(), time_limit(60):
            warnings.simplefilter("ignore")
            with open(os.devnull, "w") as dn, contextlib.redirect_stderr(dn):      # verbose=True draws a progress bar
                ret = extract_wfs_array(arr, df, nbarr, trough_offset=c["to"], spike_length_samples=c["L"],
                                        add_nan_trace=c["add_nan"], verbose=bool(c.get("verbose")))
    except BaseException as e:  # noqa
        return {"error": err_text(e)}
    obs = {"shape_bad": None, "modified": []}
    if not nan_eq(arr, arr0):
        obs["modified"].append("the source array")
    if not df.equals(df0):
        obs["modified"].append("df")
    if not np.array_equal(nbarr, nb0):
        obs["modified"].append("channel_neighbors")
    if not (isinstance(ret, tuple) and len(ret) == 3):
        obs["shape_bad"] = "returned %s instead of (wfs, cind, trough_offset)" % type(ret).__name__
        return obs
    wfs, cind, to_ret = ret
    if not (isinstance(wfs, np.ndarray) and wfs.ndim == 3 and wfs.dtype.kind in ("f" if c["add_nan"] else "fiu")):
        obs["shape_bad"] = "waveform stack is %s%s, expected a 3-D numeric array (float when a NaN row is added)" % (
            type(wfs).__name__, (" dtype %s shape %s" % (wfs.dtype, wfs.shape)) if isinstance(wfs, np.ndarray) else "")
        return obs
    if not (isinstance(cind, np.ndarray) and cind.ndim == 2 and cind.dtype.kind in "iu") or \
            not isinstance(to_ret, (int, np.integer)):
        obs["shape_bad"] = "channel indices / offset are %s / %s" % (type(cind).__name__, type(to_ret).__name__)
        return obs
    if np.shares_memory(wfs, arr):
        obs["modified"].append("(result is a view of the source array)")
    obs.update({"wfs": wfs, "cind": cind.astype(np.int64), "to": int(to_ret)})
    return obs


def oracle_array(c, obs):
    """Cells of extract_wfs_array against the source array, for spikes whose window lies in the array."""
    arr, nb, nan_row, stride = array_setup(c)
    ns, to, L = c["ns"], c["to"], c["L"]
    if "error" in obs:
        return ["extract_wfs_array raised %s on spikes whose windows lie inside the array" % obs["error"]]
    if obs["shape_bad"]:
        return ["extract_wfs_array " + obs["shape_bad"]]
    bad = ["extract_wfs_array modified %s" % m for m in obs["modified"]]
    n, nnb = len(c["samples"]), len(nb[0])
    if obs["wfs"].shape != (n, nnb, L):
        return ["waveform stack has shape %s, expected %s" % (obs["wfs"].shape, (n, nnb, L))]
    for w, (sm, pk) in enumerate(zip(c["samples"], c["peaks"])):
        rows = np.array(nb[pk])
        exp = (np.arange(sm - to, sm - to + L, dtype=np.float64)[None, :] * stride + rows[:, None]).astype(np.float64)
        exp[rows == nan_row, :] = np.nan
        if not nan_eq(obs["wfs"][w], exp):
            k = "NaN padding" if np.any(np.isnan(exp) != np.isnan(obs["wfs"][w].astype(np.float64))) else "window"
            bad.append("waveform %d (sample %d, peak %d, %s input, add_nan_trace=%s): %s differs from the source"
                       % (w, sm, pk, c["dtype"], c["add_nan"], k))
            break
        if list(obs["cind"][w]) != nb[pk]:
            bad.append("returned channel indices of waveform %d are not the neighbourhood of its peak" % w)
            break
    if obs["to"] != to:
        bad.append("returned trough offset differs")
    return bad


def enc_array_inp(c):
    arr, nb, nan_row, stride = array_setup(c)
    out = [3, c["ns"], nan_row, c["to"], c["L"], stride, len(nb)]
    for r in nb:
        out += [len(r)] + r
    out += [len(c["samples"])] + [v for p in zip(c["samples"], c["peaks"]) for v in p]
    return out


def enc_array_obs(c, obs):
    if "error" in obs:
        return [0]
    if obs["shape_bad"]:
        return [-998]
    w = obs["wfs"]
    return [1, w.shape[0], w.shape[1], w.shape[2]] + enc_cells(w) + [int(x) for x in obs["cind"].ravel()]


# --------------------------------------------------------------------------
def case_desc(case, size, n_jobs):
    d = {k: case[k] for k in ("ns", "nc", "geom", "to", "L", "maxwf", "spikes", "seed", "labels", "indices")}
    d["stride"] = case.get("stride")
    for k in ("dt", "strided", "bin_str", "lab_repr", "ind_repr", "h_none", "out_of_domain", "malformed"):
        d[k] = case.get(k)
    d["size"], d["n_jobs"] = size, n_jobs
    return d


def same_files(a, b):
    return all(nan_eq(a[k], b[k]) for k in ("table", "traces", "channels", "templates")) and \
        all(a["rows_" + q] == b["rows_" + q] for q in ("q", "all", "lab", "ind"))


def run_case(ctx, case, work, jobs_for, inputs, outputs, descs, stats):
    """All configurations of one case.  Returns number of extractions."""
    d = Path(work) / ("c%d" % case["id"])
    d.mkdir()
    binf, data = make_recording(case, d)
    ns, to, L, maxwf = case["ns"], case["to"], case["L"], case["maxwf"]
    nvalid_total = sum(1 for s in case["spikes"] if to < s[0] < ns - (L - to))
    first = None
    nrun = 0
    for k, size in enumerate(case["sizes"]):
        n_jobs = jobs_for(k)
        desc = case_desc(case, size, n_jobs)
        # every 4th recording writes into one output directory shared by all of them (never cleaned):
        # stale files of an earlier extraction must not leak into a later one
        outdir = (Path(work) / "shared_out") if case["id"] % 4 == 1 else d / ("o%d" % k)
        before = folder_state(d)
        obs = impl_extract(case, binf, size, n_jobs, outdir)
        for w in folder_changes(before, d):
            ctx.fail("extract_wfs_cbin (.bin input) %s" % w, desc, {"kind": "inputs", "class": "session_folder"})
        nrun += 1
        stats["n_jobs"][n_jobs] = stats["n_jobs"].get(n_jobs, 0) + 1
        nchunks = -(-ns // size)
        stats["chunks"].append(nchunks)
        if obs.get("skipped"):
            continue
        if "error" in obs:
            stats["errors"] += 1
            expected_bad = case.get("malformed")
            if nvalid_total == 0:
                ctx.fail("extract_wfs_cbin raised %s although every unit should simply receive 0 waveforms"
                         % obs["error"], desc, {"kind": "exception", "class": "no_valid_spike"})
            elif not expected_bad and not case.get("out_of_domain"):
                ctx.fail("extract_wfs_cbin raised %s" % obs["error"], desc, {"kind": "exception", "class": "other"})
        elif case.get("out_of_domain"):
            stats["out_of_domain_no_exception"] = stats.get("out_of_domain_no_exception", 0) + 1
        else:
            stats["loader_calls"] = stats.get("loader_calls", 0) + 2 * obs["seq_calls"]
            try:
                for kind, what in oracle(case, obs, data):
                    ctx.fail(what, desc, {"kind": kind})
                if first is None:
                    first = obs
                elif not same_files(first, obs):
                    ctx.fail("output files differ between chunk size %d / n_jobs %d and chunk size %d / n_jobs %d"
                             % (first["size"], first["n_jobs"], size, n_jobs), desc, {"kind": "chunking"})
            except Exception as e:  # noqa  the files are so malformed that the oracle cannot read them
                ctx.fail("output files cannot be interpreted (%s)" % err_text(e), desc, {"kind": "malformed_output"})
        try:
            enc_o = enc_obs(obs)
            enc_i = enc_inp(case, size, obs["picks"])
        except Exception as e:  # noqa
            ctx.fail("output files cannot be encoded (%s)" % err_text(e), desc, {"kind": "malformed_output"})
            enc_o, enc_i = [-998], enc_inp(case, size, [])
        inputs.append(enc_i)
        outputs.append(enc_o)
        descs.append(desc)
        if outdir.name != "shared_out":
            shutil.rmtree(outdir, ignore_errors=True)
    shutil.rmtree(d, ignore_errors=True)
    return nrun


# ---- two sessions processed in turn from inside their folders (relative paths, os.chdir, workers) ----
def child_sessions(spec_file):
    """Runs in a child process (the harness' own cwd stays untouched): for each session, chdir into its
    folder and extract with the paths as given (relative / absolute, Path / str); reports observations."""
    spec = json.loads(Path(spec_file).read_text())
    res, hashes = [], {}
    for k, ses in enumerate(spec["sessions"]):
        case = ses["case"]
        folder = Path(spec["work"]) / ("session%d" % k)
        folder.mkdir()
        binf, data = make_recording(case, folder)
        os.chdir(folder)
        out = Path("wfs") if ses["out"] == "relative" else folder / "wfs"
        b = {"relative": Path("rec.bin"), "relative_str": "rec.bin", "absolute": binf, "absolute_str": str(binf)}[ses["bin"]]
        case = dict(case, bin_str=False)
        obs = impl_extract(case, b, ses["size"], ses["n_jobs"], out)
        r = {"inp": enc_inp(case, ses["size"], obs["picks"]), "bad": [], "error": obs.get("error")}
        try:
            r["out"] = enc_obs(obs)
            if "error" not in obs:
                r["bad"] = [[kind, what] for kind, what in oracle(case, obs, data)]
        except Exception as e:  # noqa
            r["out"], r["bad"] = [-998], [["malformed_output", err_text(e)]]
        res.append(r)
        if (folder / "wfs" / FILES[0]).exists():
            hashes[k] = file_hashes(folder / "wfs")
        for j, h in list(hashes.items()):        # earlier sessions' files must not change later on
            d = Path(spec["work"]) / ("session%d" % j) / "wfs"
            if j != k and file_hashes(d) != h:
                r["bad"].append(["sessions", "processing session %d changed the output files of session %d" % (k, j)])
                hashes[j] = file_hashes(d)
    os.chdir(spec["work"])
    kill_workers()
    Path(spec["result"]).write_text(json.dumps(res))


def run_pair_child(sessions, wd):
    wd.mkdir()
    spec = {"work": str(wd), "result": str(wd / "result.json"), "sessions": sessions}
    (wd / "spec.json").write_text(json.dumps(spec))
    p = subprocess.run([sys.executable, "-c", "import sys, pC13; pC13.child_sessions(sys.argv[1])", str(wd / "spec.json")],
                       stdout=subprocess.PIPE, stderr=subprocess.STDOUT, text=True, timeout=240, cwd=str(wd))
    if not (wd / "result.json").exists():
        raise RuntimeError("child exit code %s: %s" % (p.returncode, (p.stdout or "")[-300:]))
    return json.loads((wd / "result.json").read_text())


def run_session_pair(ctx, rng, work, cid0, layout, inputs, outputs, descs):
    """Parent side: build the spec, run the child under a timeout, fold its report into the check."""
    sessions = []
    for j in range(2):
        c = gen_case(rng, cid0 + j)
        # at least one valid spike (the empty table is F-C13-b); the two recordings differ in channel count,
        # hence in size and in every value, so data taken from the other session's file cannot go unnoticed
        while not any(c["to"] < sp[0] < c["ns"] - (c["L"] - c["to"]) for sp in c["spikes"]) or \
                (sessions and c["nc"] == sessions[0]["case"]["nc"]):
            c = gen_case(rng, cid0 + j)
        size = max(c["to"], 1, c["ns"] // 3)
        c["sizes"] = [size]
        c["stride"] = c["nc"] + 2 + 3 * j           # the two recordings share no value at any file position
        sessions.append({"case": c, "size": size, "n_jobs": layout["n_jobs"], "out": layout["out"], "bin": layout["bin"][j]})
    desc = {"session_pair": layout, "sessions": [case_desc(s_["case"], s_["size"], s_["n_jobs"]) for s_ in sessions]}
    try:
        res = run_pair_child(sessions, Path(work) / ("pair%d" % cid0))
    except Exception as e:  # noqa  crash / hang / segfault of the child: a verdict about the code, not a harness crash
        ctx.fail("two sessions processed in turn: the child process failed (%s)" % err_text(e)[-400:],
                 desc, {"kind": "sessions", "class": "other"})
        return 0
    for k, r in enumerate(res):
        d = dict(desc["sessions"][k], session_pair=layout, session=k)
        cls = "other"      # (F-C13-c, relative bin_file re-opened by re-used workers, was repaired in /repo c2a40b2)
        if r["error"]:
            ctx.fail("session %d of a pair (cwd changed in between, %s output_dir, %s bin_file, n_jobs %d): "
                     "extract_wfs_cbin raised %s" % (k, layout["out"], layout["bin"][k], layout["n_jobs"], r["error"]),
                     desc, {"kind": "sessions", "class": cls})
        for kind, what in r["bad"]:
            ctx.fail("session %d of a pair (cwd changed in between, %s output_dir, %s bin_file, n_jobs %d): %s"
                     % (k, layout["out"], layout["bin"][k], layout["n_jobs"], what), desc,
                     {"kind": "sessions", "class": cls, "clause": kind})
        if cls == "other" or not (r["error"] or r["bad"]):
            inputs.append(r["inp"])
            outputs.append(r["out"])
            descs.append(d)
    return len(res)


# ---- preprocessing steps, .cbin input, channel detection (values are not the integer encoding) ----
def gen_pp_cases(rng, cid0, thorough):
    specs = [(["butterworth"], "given"), (["phase_shift"], "none"), (["bad_channel_interpolation"], "given"),
             (["car"], "given"), (["kfilt"], "none"), (None, "none"),
             (["kfilt", "bad_channel_interpolation", "phase_shift", "butterworth"], "given"),
             (["bad_channel_interpolation"], "detect"),
             (["car", "kfilt"], "none"), (["butterworth", "bogus"], "none")]
    if thorough:
        specs = specs + [(rng.sample(["butterworth", "phase_shift", "bad_channel_interpolation", rng.choice(["car", "kfilt"])],
                                     rng.randrange(1, 5)), rng.choice(["given", "none"])) for _ in range(20)]
    out = []
    for j, (steps, lab) in enumerate(specs):
        # channel_labels=None together with bad_channel_interpolation runs the channel DETECTION, which reads 1 s
        # snippets and needs a recording of seconds (only the dedicated "detect" case has one; on a short recording
        # detect_bad_channels raises ValueError(padlen) - outside the domain): otherwise labels are always given
        if steps is not None and "bad_channel_interpolation" in steps and lab == "none":
            lab = "given"
        c = gen_case(rng, cid0 + j)
        # 16 channels: the spatial filters (car / kfilt) need more traces than their filter padding
        # ... and every snippet must be longer than the temporal filters' padding (sosfiltfilt: 12 samples;
        # with the default window, 42 samples before the trough, that is always the case)
        def snippets_ok(c, size):
            n = -(-c["ns"] // size)
            for i in range(n):
                a0 = max(0, i * size - (c["to"] if i else 0))
                b0 = min(c["ns"], (c["ns"] if i == n - 1 else (i + 1) * size) + c["L"] - c["to"])
                if b0 - a0 < 40:
                    return False
            return size >= max(1, c["to"])
        good = []
        while not good:
            c = gen_case(rng, cid0 + j)
            if c["nc"] == 16 and any(c["to"] < sp[0] < c["ns"] - (c["L"] - c["to"]) for sp in c["spikes"]):
                good = [z for z in c["sizes"] if snippets_ok(c, z)]
        c["steps"], c["float_seed"], c["shift"] = steps, rng.randrange(1, 10 ** 6), True
        c["sizes"] = good[:1]
        if lab == "given":
            c["chan_labels"] = [1 if rng.random() < 0.2 else 0 for _ in range(c["nc"])]
            c["chan_labels"][rng.randrange(c["nc"])] = 0
        elif lab == "detect":        # channel_labels=None + interpolation: labels detected on 1 s snippets -> long recording
            c["ns"] = 66000 + rng.randrange(0, 500)
            hi = c["ns"] - (c["L"] - c["to"])
            c["spikes"] = sorted([[rng.choice([c["to"] + 1, hi - 1, rng.randrange(c["to"] + 1, hi), 30000, 29999]), u, rng.randrange(c["nc"])]
                                  for u in (1, 2) for _ in range(4)], key=lambda s_: s_[0])
            c["sizes"] = [30000]
            c["labels"], c["indices"] = None, None
        c["malformed"] = steps is not None and ("bogus" in steps or ("car" in steps and "kfilt" in steps))
        c["wfs_dtype"] = "float64" if j == 0 else None       # documented parameter (has no effect on the file)
        c["scratch"] = "dir" if j in (1, 4) else None         # scratch_dir with an uncompressed input: must stay unused
        c["pp"] = True
        out.append(c)
    return out


def gen_cbin_case(rng, cid, scratch):
    ns = rng.randrange(700, 1500)
    to, L = rng.choice([(42, 128), (5, 20)])
    hi = ns - (L - to)
    spikes = sorted([[rng.choice([to, to + 1, hi - 1, hi, rng.randrange(0, ns), rng.randrange(to + 1, hi)]), u,
                      rng.choice([0, 383, rng.randrange(384)])] for u in (3, 9) for _ in range(5)], key=lambda s_: s_[0])
    return {"id": cid, "ns": ns, "nc": 384, "to": to, "L": L, "maxwf": rng.choice([2, 4]), "spikes": spikes,
            "seed": rng.choice([0, 7]), "labels": None, "indices": [0, 1], "sizes": [rng.choice([500, ns, 777])],
            "dt": ["int64", "uint64", "int32"], "strided": False, "bin_str": False, "h_none": True,
            "steps": [], "reader_kwargs": {}, "cbin": True, "scratch": scratch, "pp": True}


def make_cbin(case, d):
    """A small compressed NP1 recording with its .ch and .meta; returns the .cbin and what the Reader reads."""
    import spikeglx
    meta = Path(common.REPO) / "src" / "tests" / "fixtures" / "sample3B_g0_t0.imec1.ap.meta"
    binf = Path(d) / "rec_g0_t0.imec1.ap.bin"
    np.random.seed(1000 + case["id"])            # _mock_spikeglx_file draws from the global generator
    md = spikeglx._mock_spikeglx_file(binf, meta, ns=case["ns"], nc=385, sync_depth=16, random=True)
    sr = spikeglx.Reader(binf)
    cb = sr.compress_file(keep_original=False)
    sr.close()
    sr = spikeglx.Reader(cb)
    data = np.array(sr[:, :])
    geom = [[int(x), int(y)] for x, y in zip(sr.geometry["x"], sr.geometry["y"])]
    sr.close()
    return cb, data, geom


def run_pp_case(ctx, case, work, n_jobs, inputs, outputs, descs, stats):
    from ibldsp import waveform_extraction as we
    d = Path(work) / ("pp%d" % case["id"])
    d.mkdir()
    try:
        if case.get("cbin"):
            with open(os.devnull, "w") as dn, contextlib.redirect_stderr(dn):
                binf, data, case["geom"] = make_cbin(case, d)
        else:
            binf, data = make_recording(case, d)
        if case.get("scratch"):
            case["scratch"] = str(d / "scratch")
        before = folder_state(d)
        size = case["sizes"][0]
        desc = case_desc(case, size, n_jobs)
        for k in ("steps", "chan_labels", "float_seed", "shift", "wfs_dtype", "cbin", "scratch", "pp", "id", "reader_kwargs"):
            desc[k] = case.get(k)
        with open(os.devnull, "w") as dn, contextlib.redirect_stderr(dn):
            obs = impl_extract(case, binf, size, n_jobs, d / "out")
        stats["pp_runs"] = stats.get("pp_runs", 0) + 1
        if "error" in obs:
            if not case.get("malformed"):
                ctx.fail("extract_wfs_cbin (preprocess_steps=%s%s) raised %s" % (case["steps"], ", .cbin" if case.get("cbin") else "",
                                                                          obs["error"]), desc, {"kind": "exception", "class": "preprocess"})
        elif case.get("malformed"):
            ctx.fail("extract_wfs_cbin accepted preprocess_steps=%s" % case["steps"], desc, {"kind": "preprocess", "class": "accepted"})
        else:
            try:
                expected = None
                if not case.get("cbin"):
                    labels = np.zeros(case["nc"]) if case.get("chan_labels") is None else np.array(case["chan_labels"], dtype=float)
                    steps = case["steps"] if case["steps"] is not None else ["butterworth", "phase_shift"]
                    if case.get("chan_labels") is None and "bad_channel_interpolation" in steps:
                        import spikeglx
                        with open(os.devnull, "w") as dn, contextlib.redirect_stderr(dn):
                            labels = we._get_channel_labels(spikeglx.Reader(binf, ns=case["ns"], nc=case["nc"] + 1, nsync=1,
                                                                            dtype="float32", fs=30000))
                    expected = expected_processed(case, py_plan(case, size, obs["table"]), data, labels)
                for kind, what in oracle(case, obs, data, expected):
                    ctx.fail(what, desc, {"kind": kind, "class": "preprocess"})
                if obs["traces"].dtype != np.float32:
                    ctx.fail("waveforms.traces.npy has dtype %s" % obs["traces"].dtype, desc, {"kind": "shape", "class": "preprocess"})
            except Exception as e:  # noqa
                ctx.fail("output files cannot be interpreted (%s)" % err_text(e), desc, {"kind": "malformed_output"})
        for w in folder_changes(before, d, case.get("scratch")):
            ctx.fail("extract_wfs_cbin (%s input, scratch_dir %s) %s" % (".cbin" if case.get("cbin") else ".bin",
                                                                         "given" if case.get("scratch") else "None", w),
                     desc, {"kind": "inputs", "class": "session_folder"})
        try:
            enc_o, enc_i = enc_obs_plan(case, size, obs), enc_inp_plan(case, size, obs["picks"])
        except Exception as e:  # noqa
            ctx.fail("output files cannot be encoded (%s)" % err_text(e), desc, {"kind": "malformed_output"})
            enc_o, enc_i = [-998], enc_inp_plan(case, size, [])
        inputs.append(enc_i)
        outputs.append(enc_o)
        descs.append(desc)
    finally:
        shutil.rmtree(d, ignore_errors=True)


# ---- WaveformsLoader on legacy "data version 1" files (4-D traces, NaN-padded table) ----
def run_legacy_loader(ctx, rng, work):
    """Files in the layout older extractors wrote (not produced by extract_wfs_cbin any more): traces
    (units, max_wf, nc, ns), one table row per slot with NaN sample / peak for the empty slots.  Oracle only:
    the waveforms returned for (labels, indices) are traces[unit, indices]; info / channels are the rows of
    those units; flatten stacks them."""
    from ibldsp import waveform_extraction as we
    d = Path(work) / "legacy"
    d.mkdir()
    nu, mw, nc, ns = 3, 4, 5, 6
    units = sorted(rng.sample(range(1, 50), nu))
    nvalid = [mw, rng.randrange(1, mw), rng.randrange(1, mw + 1)]
    tr = np.full((nu, mw, nc, ns), np.nan, dtype=np.float32)
    rows = []
    for u in range(nu):
        for k in range(mw):
            ok = k < nvalid[u]
            if ok:
                tr[u, k] = 1000 * u + 10 * k + np.arange(nc)[:, None] + np.arange(ns)[None, :] / 10
            rows.append({"index": u * mw + k, "sample": float(100 * u + k) if ok else np.nan, "cluster": units[u],
                         "peak_channel": float(k % nc) if ok else np.nan})
    np.save(d / "waveforms.traces.npy", tr)
    np.save(d / "waveforms.templates.npy", np.nanmedian(tr, axis=1))
    pd.DataFrame(rows).to_parquet(d / "waveforms.table.pqt")
    chans = np.tile(np.arange(nc), (nu * mw, 1)).astype(float)
    np.savez(d / "waveforms.channels.npz", channels=chans)
    desc = {"legacy_v1": True, "units": units, "nvalid": nvalid, "shape": [nu, mw, nc, ns]}
    bad = []
    try:
        with warnings.catch_warnings(), time_limit(60):
            warnings.simplefilter("ignore")
            h0 = file_hashes(d)
            wl = we.WaveformsLoader(d)
            if wl.data_version != 1:
                bad.append("4-D traces file not recognised as data version 1")
            for lab, ind, flat in ((None, None, False), ([units[0], units[2]], [0, 2], False), ([units[1]], [1], True),
                                   (units, list(range(max(nvalid))), True)):
                wfs, info, ch = wl.load_waveforms(labels=None if lab is None else np.array(lab),
                                                  indices=None if ind is None else np.array(ind), flatten=flat)
                labs = units if lab is None else lab
                idx = list(range(max(nvalid))) if ind is None else ind
                exp = tr[[units.index(u) for u in labs]][:, idx]
                exp = exp.reshape(-1, nc, ns) if flat else exp
                if not nan_eq(wfs, exp):
                    bad.append("load_waveforms(labels=%s, indices=%s, flatten=%s) does not return traces[unit, indices]" % (lab, ind, flat))
                rws = [u * mw + k for u in range(nu) if units[u] in labs for k in range(mw)]
                if [int(x) for x in info.index] != rws or not np.array_equal(np.asarray(ch), chans[rws].astype(int)):
                    bad.append("load_waveforms(labels=%s): info / channels are not the rows of the requested units" % (lab,))
                scribble(wfs, info, ch)
            del wl
            if file_hashes(d) != h0:
                bad.append("legacy files changed on disk during load_waveforms calls")
    except BaseException as e:  # noqa
        bad.append("WaveformsLoader on data-version-1 files raised %s" % err_text(e))
    for w in bad:
        ctx.fail(w, desc, {"kind": "loader_v1"})
    shutil.rmtree(d, ignore_errors=True)
    return 1


def malformed_cases(rng, cid0):
    out = []
    for j in range(3):
        c = gen_case(rng, cid0 + j)
        if j == 0:      # no valid spike at all
            c["spikes"] = sorted([[rng.choice([0, 1, c["to"], c["ns"] - 1]), u, 0] for u in (1, 2, 2)], key=lambda s: s[0])
            c["labels"], c["indices"] = None, None
        elif j == 1:    # peak channel outside the probe on a valid spike (IndexError in the worker)
            c["spikes"] = [[c["to"] + 1, 1, c["nc"] + 3], [c["to"] + 2, 1, 0]]
            c["malformed"] = True
            c["labels"], c["indices"] = None, None
        else:           # single unit, single valid spike, single chunk
            c["spikes"] = [[c["to"] + 1, 5, c["nc"] - 1]]
            c["sizes"] = [c["ns"]]
            c["labels"], c["indices"] = [5], [0]
        c["sizes"] = c["sizes"][:1]
        out.append(c)
    return out


def out_of_domain_cases(rng, cid0, n):
    """chunk size < trough_offset with >= 2 chunks: outside the property's quantifier (chunk sizes
    500..10000, trough_offset 42) and outside the theorems' hypothesis; only the model's faithfulness
    (negative slice start wraps) is compared.  The first one is the Coq witness exSmallChunk."""
    out = [{"id": cid0, "ns": 100, "nc": 2, "geom": [[0, 0], [0, 20]], "to": 10, "L": 16, "maxwf": 2,
            "spikes": [[12, 1, 0]], "seed": 1, "labels": None, "indices": None, "sizes": [8],
            "dt": ["int64", "int64", "int64"], "strided": False, "bin_str": False, "h_none": False,
            "out_of_domain": True}]
    for j in range(1, n):
        c = gen_case(rng, cid0 + j)
        c["L"] = rng.randrange(12, 40)
        c["to"] = rng.randrange(9, c["L"])
        c["ns"] = rng.randrange(60, 400)
        size = rng.randrange(max(2, c["ns"] // 60 + 1), c["to"])
        c["sizes"] = [size]
        hi = c["ns"] - (c["L"] - c["to"])
        times = sorted(rng.choice([rng.randrange(c["to"] + 1, max(c["to"] + 2, hi)), size + rng.randrange(0, c["to"]),
                                   rng.randrange(0, c["ns"])]) for _ in range(rng.randrange(1, 6)))
        c["spikes"] = [[t, rng.choice([1, 2]), rng.randrange(c["nc"])] for t in times]
        c["labels"], c["indices"], c["out_of_domain"] = None, None, True
        out.append(c)
    return out


def run(ctx):
    # Props: integers/lists only, must stay closed under the global context; PropsFloat: the one Flocq
    # theorem (binary64 sqrt test of make_channel_index), inherits the standard-library real-number axioms
    common.proof_obligations(ctx, whitelist=sorted(common.STDLIB_AXIOMS), modules=("Props", "PropsFloat"))
    for n in common.theorem_names(common.COQ / PROP / "Props.v"):
        if n in ctx.theorems and ctx.theorems[n] != "Closed under the global context":
            ctx.broken_proofs.append({"theorem": n, "why": "no longer closed under the global context: %s" % ctx.theorems[n]})
    rng = ctx.rng
    ncases = 220 if ctx.thorough() else 28
    cases = [gen_case(rng, i) for i in range(ncases)]
    bigs = [{"version": 1}, {"version": 2}, {"version": 2, "nshank": 4}]
    # quick: the full NP1 probe comes through the two .cbin cases (geometry from the meta file), NP2 / 4-shank
    # geometries through the direct extract_wfs_array cases; thorough: all three as ordinary recordings too
    for b in (bigs if ctx.thorough() else []):
        c = gen_case(rng, len(cases), big=b)
        c["sizes"] = c["sizes"][:2]
        cases.append(c)
    cases += malformed_cases(rng, len(cases))
    cases += out_of_domain_cases(rng, len(cases), 12 if ctx.thorough() else 5)
    for c in cases:          # a recording extracted with seed=None: single configuration (picks differ between runs)
        if c["id"] % 9 == 4 and not c.get("out_of_domain"):
            c["seed"], c["sizes"] = None, c["sizes"][:1]
    par_every = 3 if ctx.thorough() else 5      # every k-th case uses worker processes

    inputs, outputs, descs = [], [], []
    stats = {"n_jobs": {}, "chunks": [], "errors": 0, "loader_calls": 0}
    work = common.tmpdir("C13_run_")
    nontrivial = set()
    nrun = 0
    try:
        for case in cases:
            par = case["id"] % par_every == 0
            jobs_for = (lambda k, cid=case["id"]: [2, 3, 4][(cid // par_every + k) % 3] if k > 0 else 1) if par \
                else (lambda k: 1)
            before = len(inputs)
            nrun += run_case(ctx, case, work, jobs_for, inputs, outputs, descs, stats)
            for i in range(before, len(inputs)):
                if outputs[i][0] == 1 and outputs[i][2] >= 2 and -(-case["ns"] // descs[i]["size"]) >= 2:
                    nontrivial.add(json.dumps(descs[i], sort_keys=True))
        stats["legacy_loader_runs"] = run_legacy_loader(ctx, rng, work)
        # preprocessing steps, channel detection, .cbin input
        pp_cases = gen_pp_cases(rng, 7000, ctx.thorough()) + [gen_cbin_case(rng, 7500, None), gen_cbin_case(rng, 7501, "dir")]
        for j, c in enumerate(pp_cases):
            if not HUNG:
                run_pp_case(ctx, c, work, 2 if j % 4 == 3 else 1, inputs, outputs, descs, stats)
        stats["pp_steps"] = [c["steps"] for c in pp_cases]
        # two sessions in turn, from inside their folders (child process; the harness cwd is untouched)
        layouts = [{"out": "relative", "bin": ["absolute", "absolute_str"], "n_jobs": 2},
                   {"out": "relative", "bin": ["relative", "relative_str"], "n_jobs": 1},
                   {"out": "absolute", "bin": ["relative_str", "relative"], "n_jobs": 3}]     # fixed: F-C13-c
        if ctx.thorough():
            layouts += [{"out": "relative", "bin": ["absolute_str", "absolute"], "n_jobs": 4},
                        {"out": "relative", "bin": ["relative", "relative"], "n_jobs": 2}]
        npairs = 0
        for j, lay in enumerate(layouts):
            if not HUNG:
                npairs += run_session_pair(ctx, rng, work, 9000 + 10 * j, lay, inputs, outputs, descs) > 0
        stats["session_pairs"] = npairs
    finally:
        shutil.rmtree(work, ignore_errors=True)
        try:
            from joblib.externals.loky import get_reusable_executor
            get_reusable_executor().shutdown(wait=True)
        except Exception:  # noqa
            pass

    # make_channel_index alone, other radii / pad values
    nci = 1500 if ctx.thorough() else 180
    ci_cases = [gen_chanidx_case(rng) for _ in range(nci)]
    for c in ci_cases:
        if HUNG:
            break
        try:
            with time_limit(60):
                got = impl_chanidx(c)
        except BaseException as e:  # noqa
            if isinstance(e, ImplTimeout):
                HUNG.append(1)
            ctx.fail("make_channel_index: %s" % err_text(e), c, {"kind": "exception", "class": "chanidx"})
            continue
        exp = ref_neighbours(c["geom"], c["r2"] * c["r2"], 4, c["padv"])
        if got != [len(exp), len(exp[0])] + [x for r in exp for x in r]:
            ctx.fail("make_channel_index is not the ascending within-radius table padded with pad_val", c,
                     {"kind": "chanidx"})
        inputs.append(enc_chanidx(c))
        outputs.append(got)
        descs.append(c)
        if len({tuple(r) for r in exp}) > 1:
            nontrivial.add(json.dumps(c, sort_keys=True))

    # extract_wfs_array called directly: dtypes, memory order, add_nan_trace, probe ends, radii
    narr = 1500 if ctx.thorough() else 160
    arr_cases = [gen_array_case(rng) for _ in range(narr)]
    arr_cases += [gen_array_case(rng, big=b) for b in (bigs * (3 if ctx.thorough() else 1))]
    arr_stats = {}
    for c in arr_cases:
        if HUNG:
            break
        obs = impl_array(c)
        if "ImplTimeout" in obs.get("error", ""):
            HUNG.append(1)
        key = "%s/%s/%s" % (c["dtype"], c["order"], "add_nan" if c["add_nan"] else "has_nan_row")
        arr_stats[key] = arr_stats.get(key, 0) + 1
        if c["kind"] == "valid":
            for what in oracle_array(c, obs):
                ctx.fail(what, c, {"kind": "array"})
        elif "error" not in obs and (obs["shape_bad"] or obs["modified"]):
            ctx.fail("extract_wfs_array " + (obs["shape_bad"] or "modified " + ", ".join(obs["modified"])), c, {"kind": "array"})
        if c["kind"] == "valid":
            if len({tuple(r) for r in ref_neighbours(c["geom"], c["r2"] * c["r2"], 4, len(c["geom"]))}) > 1:
                nontrivial.add(json.dumps(c, sort_keys=True))
        inputs.append(enc_array_inp(c))
        outputs.append(enc_array_obs(c, obs))
        descs.append(c)

    common.correspondence(ctx, PROP, HEADER, inputs, outputs, lambda i: descs[i], n_kernel=24)

    ex = [d for d in descs if "spikes" in d and "session_pair" not in d]
    samples = [{k: (v if k != "spikes" else v[:6]) for k, v in d.items() if k != "geom"} for d in ex[:: max(1, len(ex) // 5)]][:6]
    dist = {"extractions": nrun, "cases": len(cases), "n_jobs": {str(k): v for k, v in sorted(stats["n_jobs"].items())},
            "chunks_min": min(stats["chunks"] or [0]), "chunks_max": max(stats["chunks"] or [0]),
            "implementation_hung": bool(HUNG),
            "implementation_raised": stats["errors"], "channel_index_cases": len(ci_cases),
            "spike_samples_dtype": {k: sum(1 for c in cases if c["dt"][0] == k) for k in ("int64", "uint64", "int32", "uint32")},
            "unsigned_cluster_or_channel_dtype": sum(1 for c in cases if c["dt"][1][0] == "u" or c["dt"][2][0] == "u"),
            "non_contiguous_inputs": sum(1 for c in cases if c["strided"]),
            "bin_file_as_str": sum(1 for c in cases if c["bin_str"]),
            "extract_wfs_array_cases": len(arr_cases),
            "extract_wfs_array_kinds": {k: sum(1 for c in arr_cases if c["kind"] == k) for k in ("valid", "assert", "wrap", "peak_out", "empty")},
            "extract_wfs_array_dtype_order_flag": dict(sorted(arr_stats.items())),
            "loader_calls_in_sequences_with_inplace_edits": stats["loader_calls"],
            "legacy_v1_loader_runs": stats.get("legacy_loader_runs", 0),
            "preprocess_and_cbin_runs": stats.get("pp_runs", 0),
            "preprocess_step_lists": [("default" if x is None else "+".join(x) or "none") for x in stats.get("pp_steps", [])],
            "session_pairs_with_chdir": stats.get("session_pairs", 0),
            "seed_values": {"0": sum(1 for c in cases if c["seed"] == 0), "1": sum(1 for c in cases if c["seed"] == 1),
                            "2**40": sum(1 for c in cases if c["seed"] == 2 ** 40),
                            "None": sum(1 for c in cases if c["seed"] is None)},
            "out_of_domain_chunk_lt_trough_offset": sum(1 for c in cases if c.get("out_of_domain")),
            "out_of_domain_no_exception": stats.get("out_of_domain_no_exception", 0),
            "seed_none": sum(1 for c in cases if c["seed"] is None),
            "shared_output_dir": sum(1 for c in cases if c["id"] % 4 == 1),
            "geometry_from_reader_h_none": sum(1 for c in cases if c.get("h_none")),
            "loader_label_repr": {k: sum(1 for c in cases if c.get("lab_repr") == k) for k in ("array", "list", "tuple", "int32")},
            "loader_index_repr": {k: sum(1 for c in cases if c.get("ind_repr") == k) for k in ("array", "list", "scalar", "npint")},
            "default_window_42_128": sum(1 for c in cases if (c["to"], c["L"]) == (42, 128)),
            "full_probe_cases": sum(1 for c in cases if c["nc"] == 384),
            "units_with_no_valid_spike": sum(1 for c in cases for u in {s[1] for s in c["spikes"]}
                                             if not any(s[1] == u and c["to"] < s[0] < c["ns"] - (c["L"] - c["to"])
                                                        for s in c["spikes"]))}
    return common.finish(
        ctx, TRUSTED,
        rule="synthetic float32 recordings with value = sample*(nc+1)+channel; geometries (staggered, single column "
             "with pitches that hit/miss radius 200 exactly, 3-4-5 diagonals, two shanks, random grid, one full "
             "NP1/NP2 probe); spike trains sorted by time with spikes at the validity limits, on chunk seams, "
             "duplicated inside and across units, unit sizes below/at/above max_wf and empty units; spike_samples / clusters / "
             "channels passed as int64, uint64, int32 or uint32 arrays (unsigned sample cases always carry a unit made only of "
             "spikes within trough_offset of the start), contiguous or strided, bin file as Path or str; 1-3 chunk sizes "
             "per recording (500..10000 and small ones >= trough_offset), n_jobs 1..4; every configuration is run "
             "through the real extract_wfs_cbin + WaveformsLoader and through the Coq model (all four files + loader "
             "selection), the files of all configurations of one recording must be identical; plus "
             "make_channel_index on random geometries/radii/pad values; plus extract_wfs_array called directly on "
             "float32/float64/int16/int32 arrays in C or F order, add_nan_trace on/off, peaks at both probe ends, several "
             "radii, windows touching both array ends, with assertion / wrap / bad-peak / empty-df streams; non-trivial = at least 2 waveforms and at "
             "least 2 chunks (extraction) or at least two different neighbour rows (channel index); distinct by input",
        samples=samples, evaluations=len(inputs), distinct_nontrivial=len(nontrivial),
        extra={"input_distribution": dist, "exhaustive": False},
        assumptions=["rng.choice(a,k,replace=False) returns k distinct members of a (checked on every recorded call)",
                     "pandas sort_values on (cluster, sample) keeps ties in original order",
                     "spike train sorted by time, 0 <= trough_offset <= chunk size"])


def replay(ctx, data):
    inp = data.get("input") or (data.get("correspondence_disagreements") or [{}])[0].get("input")
    if not inp:
        print(json.dumps(data, indent=1)[:3000])
        return 1
    if inp.get("pp"):
        class Collect:
            def __init__(self):
                self.items = []

            def fail(self, what, case, tags=None):
                self.items.append(what)
        col, ins, outs, ds = Collect(), [], [], []
        case = dict(inp, id=inp.get("id", 0), sizes=[inp["size"]])
        work = common.tmpdir("C13_replay_")
        try:
            run_pp_case(col, case, work, inp["n_jobs"], ins, outs, ds, {})
        finally:
            shutil.rmtree(work, ignore_errors=True)
        print("property clauses failing on the implementation:", col.items)
        ids = common.coq_mismatches(PROP, HEADER, [common.flat_cases_term(0, ins[0], outs[0])]) if ins else [0]
        print("kernel-evaluated model agrees with implementation:", not ids)
        return 1 if (col.items or ids) else 0
    if "sessions" in inp:
        lay = inp["session_pair"]
        sessions = [{"case": dict(c, id=0), "size": c["size"], "n_jobs": c["n_jobs"], "out": lay["out"], "bin": lay["bin"][k]}
                    for k, c in enumerate(inp["sessions"])]
        work = common.tmpdir("C13_replay_")
        try:
            res = run_pair_child(sessions, Path(work) / "pair")
        except Exception as e:  # noqa
            print("child process failed:", err_text(e))
            return 1
        finally:
            shutil.rmtree(work, ignore_errors=True)
        rc = 0
        for k, r in enumerate(res):
            print("session %d: error=%s failing clauses=%s" % (k, r["error"], r["bad"]))
            ids = common.coq_mismatches(PROP, HEADER, [common.flat_cases_term(0, r["inp"], r["out"])])
            print("   kernel-evaluated model agrees with implementation:", not ids)
            rc |= bool(r["error"] or r["bad"] or ids)
        return rc
    if "samples" in inp:
        obs = impl_array(inp)
        bad = oracle_array(inp, obs) if inp.get("kind") == "valid" else []
        print("extract_wfs_array:", obs.get("error") or ("first cells", [float(x) for x in obs["wfs"][:, :, 0].ravel()[:12]]))
        print("property clauses failing on the implementation:", bad)
        ids = common.coq_mismatches(PROP, HEADER, [common.flat_cases_term(0, enc_array_inp(inp), enc_array_obs(inp, obs))])
        print("kernel-evaluated model agrees with implementation:", not ids)
        return 1 if (bad or ids) else 0
    if "spikes" not in inp:
        got = impl_chanidx(inp)
        exp = ref_neighbours(inp["geom"], inp["r2"] * inp["r2"], 4, inp["padv"])
        print("make_channel_index:", got, "\nreference:", exp)
        ids = common.coq_mismatches(PROP, HEADER, [common.flat_cases_term(0, enc_chanidx(inp), got)])
        print("kernel-evaluated model agrees with implementation:", not ids)
        return 1 if ids or got[2:] != [x for r in exp for x in r] else 0
    case = dict(inp)
    case["id"] = 0
    work = common.tmpdir("C13_replay_")
    try:
        binf, data_arr = make_recording(case, work)
        obs = impl_extract(case, binf, inp["size"], inp["n_jobs"], Path(work) / "o")
        ref = impl_extract(case, binf, case["ns"], 1, Path(work) / "o1") if "error" not in obs else obs
    finally:
        shutil.rmtree(work, ignore_errors=True)
    bad = []
    if "error" in obs:
        print("implementation raised:", obs["error"])
        bad.append(obs["error"])
    else:
        print("table (index, sample, cluster, peak_channel, waveform_index, index_within_clusters):")
        print(obs["table"])
        print("first cells of each waveform:", [float(x) for x in obs["traces"][:, 0, 0]])
        bad = [w for _, w in oracle(case, obs, data_arr)]
        if "error" not in ref and not same_files(ref, obs):
            bad.append("files differ from the single-chunk single-worker extraction")
    print("property clauses failing on the implementation:", bad)
    ids = common.coq_mismatches(PROP, HEADER, [common.flat_cases_term(0, enc_inp(case, inp["size"], obs["picks"]),
                                                                      enc_obs(obs))])
    print("kernel-evaluated model agrees with implementation:", not ids)
    return 1 if (bad or ids) else 0
