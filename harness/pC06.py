"""C06 — decompress_destripe_cbin: chunked destripe-to-file writes every sample exactly once,
for any worker count.  Proofs in coq/C06; correspondence and oracle against the real
ibldsp.voltage.decompress_destripe_cbin (imported through PYTHONPATH, honouring IBLNPX_REPO)
on short synthetic recordings, with the file reads / writes of every worker observed from
outside (voltage.open and spikeglx.Reader are wrapped for the duration of a run; /repo is
not edited)."""
import atexit
import builtins
import contextlib
import io
import json
import multiprocessing
import os
import re
import shutil
import signal
import threading
import time
import traceback
import warnings
import zlib
from pathlib import Path

import numpy as np
import scipy.signal

import common

PROP = "C06"
HEADER = "From Coq Require Import ZArith List.\nImport ListNotations.\nFrom IBL.C06 Require Import Run."
T = 1024          # SAMPLES_TAPER, a constant of the source
FS = 30000.0
TRUSTED = [
    "Coq 8.16.1 kernel + vm_compute (no native_compute); C06 theorems 1-11 and 14: Closed under the global context; "
    "C06_sync_cast_exact and C06_float_quotients_exact (Flocq; the latter imports coq/C17/FloatCeil.v): the four "
    "standard-library axioms of the classical reals / funext",
    "every call into the implementation runs in a forked child process with a timeout (hang / crash of the "
    "implementation = failing input of that run); joblib 'threading' backend for the instrumented runs",
    "coq/C06/SyncSweep.v (exhaustive vm_compute over the 65536 int16 values) is kernel-checked by coqc in the build; "
    "the independent checker coqchk (thorough tier) takes that one module as given (-admit)",
    "hand-written model coq/C06/Model.v of the index/offset bookkeeping of ibldsp.voltage.decompress_destripe_cbin "
    "(my_function), tied to the source by this run's correspondence (per-worker reads and writes observed)",
    "cell contents are abstract in the theorems: a cell holds (batch, local row, byte in row); that equal descriptors "
    "mean equal bytes (the per-batch DSP is a deterministic function of the batch's read range) is checked by "
    "byte comparison across worker counts and against a harness-side batch-wise pipeline, not proved",
    "CPython int / int = correctly rounded binary64 quotient of the exact integers (the IEEE operation the theorem is "
    "about); replayed on random operands up to 2^53 in every run",
    "POSIX file semantics: a seek past the end followed by a write leaves a hole that later writes fill; "
    "concurrent writers to disjoint or identically-filled byte ranges do not disturb each other",
    "harness/stubs/pyfftw.py stands in for pyfftw (NumPy rfft/irfft, float32/complex64)",
    "harness/pC06.py generators, instrumentation (file proxy, Reader wrapper), reference pipeline, oracle",
    "extraction (ExtrOcamlBasic only), harness/driver.ml, ocamlfind ocamlopt; a sample of the same cases is "
    "re-evaluated by the kernel (vm_compute)",
]


# --------------------------------------------------------------------------
# synthetic recordings
# --------------------------------------------------------------------------
def _meta_template():
    return common.REPO / "src" / "tests" / "fixtures" / "sample3B_g0_t0.imec1.ap.meta"


def gains_of(scn):
    """AP gain of each voltage channel (imroTbl).  None: the fixture's uniform 500."""
    ncv, g = scn["ncv"], scn.get("gains")
    h = ncv // 2
    if g == "halves":          # bank 0 low gain, bank 1 high gain (channel 0 on the LOW gain)
        return np.r_[np.full(h, 250), np.full(ncv - h, 1000)]
    if g == "halves_rev":      # channel 0 on the HIGH gain
        return np.r_[np.full(h, 1000), np.full(ncv - h, 250)]
    if g == "mixed":           # three gains interleaved in blocks of 2, channel 0 on 500
        return np.array([(500, 500, 1000, 1000, 250, 1500)[i % 6] for i in range(ncv)])
    return np.full(ncv, 500)


def write_meta(dest, ns, ncv, gains=None):
    """3B (NP1) meta with `ncv` voltage channels (first ncv sites of the fixture) + 1 sync;
    `gains`: AP gain per channel written into the imroTbl."""
    nc = ncv + 1
    out = []
    for line in open(_meta_template()).read().splitlines():
        k = line.split("=")[0]
        if k == "fileSizeBytes":
            line = "fileSizeBytes=%d" % (ns * nc * 2)
        elif k == "fileTimeSecs":
            line = "fileTimeSecs=%.12f" % (ns / FS)       # plain notation: the meta parser reads 3.3e-05 as a string
        elif k == "imSampRate":
            line = "imSampRate=30000"
        elif ncv != 384:
            if k == "nSavedChans":
                line = "nSavedChans=%d" % nc
            elif k == "snsApLfSy":
                line = "snsApLfSy=%d,0,1" % ncv
            elif k == "snsSaveChanSubset":
                line = "snsSaveChanSubset=0:%d,768" % (ncv - 1)
            elif k == "~imroTbl":
                ent = re.findall(r"\([^)]*\)", line.split("=", 1)[1])
                line = "~imroTbl=(0,%d)" % ncv + "".join(ent[1:1 + ncv])
            elif k == "~snsShankMap":
                ent = re.findall(r"\([^)]*\)", line.split("=", 1)[1])
                line = "~snsShankMap=" + ent[0] + "".join(ent[1:1 + ncv])
            elif k == "~snsChanMap":
                ent = re.findall(r"\([^)]*\)", line.split("=", 1)[1])
                line = "~snsChanMap=(%d,0,1)" % ncv + "".join(ent[1:1 + ncv]) + ent[-1]
        if k == "~imroTbl" and gains is not None:
            head, ent = line.split("=", 1)[1].split(")", 1)[0] + ")", re.findall(r"\(([^)]*)\)", line.split("=", 1)[1])[1:]
            new = []
            for e, g in zip(ent, gains):
                f = e.split()
                f[3] = str(int(g))           # (channel bank ref APgain LFgain APfilter)
                new.append("(" + " ".join(f) + ")")
            line = "~imroTbl=" + head + "".join(new)
        out.append(line)
    Path(dest).write_text("\n".join(out) + "\n")


def py_rule(ns, nb):
    """The documented rule, written independently of the Coq model: stride NBATCH-2*taper, saved
    range [taper, NBATCH-taper), first batch from 0, last batch to the end.
    Returns [(first_s, last_s, local_lo, local_hi)]."""
    s = nb - 2 * T
    out = []
    k = 0
    while True:
        fs = k * s
        ls = min(fs + nb, ns)
        out.append((fs, ls, 0 if k == 0 else T, (ls - fs) if ls == ns else nb - T))
        if ls == ns or len(out) > 100000:
            return out
        k += 1


def make_data(scn):
    """int16 [ns, ncv+1]: noise + common mode + local spikes on the voltage channels, optional
    saturated stretches (all channels at the rail) placed around batch seams, random 16-bit sync
    words (extremes included)."""
    ns, ncv = scn["ns"], scn["ncv"]
    rng = np.random.default_rng(scn["seed"])
    d = rng.standard_normal((ns, ncv)) * 20 + (rng.standard_normal((ns, 1)) * 12)
    nsp = max(4, ns // 400)
    d[rng.integers(0, ns, nsp), rng.integers(0, ncv, nsp)] += rng.choice([-1, 1], nsp) * rng.integers(120, 300, nsp)
    d = np.clip(np.round(d), -500, 500)
    if scn.get("slow"):
        # slow common artefacts of 0.66 mV (20-sample ramps: far below the slew criterion): only the
        # channels whose range 0.6 V / gain is below 0.66 mV (gain >= 1000) reach their rail
        gains = gains_of(scn)
        rule = py_rule(ns, scn["nbatch"])
        centres = [rule[len(rule) // 2][0] + T + 40, max(60, rule[-1][0] + T // 2), ns // 3]
        w = np.zeros(ns)
        for cpos in centres:
            a = int(min(max(cpos, 30), ns - 160))
            b = a + int(rng.integers(60, 130))
            w[a:b] = 1
            w[a - 20:a] = np.maximum(w[a - 20:a], np.linspace(0, 1, 20, endpoint=False))
            w[b:b + 20] = np.maximum(w[b:b + 20], np.linspace(1, 0, 20, endpoint=False))
        sign = rng.choice([-1, 1])
        d = np.clip(np.round(d + sign * w[:, np.newaxis] * (0.66e-3 * gains * 512 / 0.6)[np.newaxis, :]), -511, 511)
    sat = []
    if scn.get("sat"):
        rule = py_rule(ns, scn["nbatch"])
        seams = [fs + lo for fs, ls, lo, hi in rule[1:]] + [fs for fs, *_ in rule[1:]] + [ls for _, ls, *_ in rule[:-1]]
        spots = [rng.integers(0, ns), ns - 3, 2] + [int(s) + int(rng.integers(-6, 7)) for s in rng.permutation(seams)[:4]]
        for p in spots:
            a = int(min(max(p, 0), ns - 1))
            b = int(min(ns, a + rng.integers(1, 40)))
            d[a:b, :] = 511 * rng.choice([-1, 1])
            sat.append((a, b))
    out = np.zeros((ns, ncv + 1), dtype=np.int16)
    out[:, :ncv] = d.astype(np.int16)
    sync = rng.integers(-32768, 32768, ns).astype(np.int16)
    ext = np.array([-32768, 32767, -1, 0, 1, 16384, -16385, 255, 256], dtype=np.int16)
    sync[:min(ns, ext.size)] = ext[:min(ns, ext.size)]
    for a, b in sat:                       # distinctive words inside the saturated stretches
        sync[a:b] = rng.integers(-32768, 32768, b - a).astype(np.int16) | 1
    out[:, -1] = sync
    return out, sat


def make_recording(folder, scn):
    folder.mkdir(parents=True, exist_ok=True)
    data, sat = make_data(scn)
    binf = folder / "rec.ap.bin"
    data.tofile(binf)
    write_meta(folder / "rec.ap.meta", scn["ns"], scn["ncv"], gains_of(scn) if scn.get("gains") else None)
    if scn.get("src") == "cbin":                # mtscomp-compressed source (.cbin + .ch), original removed
        import spikeglx
        with contextlib.redirect_stderr(io.StringIO()), contextlib.redirect_stdout(io.StringIO()):
            sr = spikeglx.Reader(binf)
            sr.compress_file(keep_original=False)
            sr.close()
        binf = binf.with_suffix(".cbin")
    return binf, data, sat


def make_wrot(scn):
    w = scn.get("wrot")
    if w is None:
        return None
    if w == "scalar":          # Python float
        return 0.5
    if w == "npscalar":        # NumPy float scalar
        return np.float64(3.0)
    if w == "npscalar32":
        return np.float32(0.25)
    if w == "zerod":           # 0-d array
        return np.array(2.0)
    if w == "one":
        return 1.0
    ncv = scn["ncv"]
    rng = np.random.default_rng(scn["seed"] + 7)
    m = np.eye(ncv)[rng.permutation(ncv)] * rng.choice([0.5, 1.0, 2.0], ncv)   # scaled permutation: exact in float
    return m


# --------------------------------------------------------------------------
# instrumentation: who reads which samples and writes which bytes
# --------------------------------------------------------------------------
class _FileProxy:
    """Wraps a real binary file object; ndarray.tofile(proxy) works (NumPy flushes, dups the
    descriptor, asks tell(), writes, then seeks the Python object to the new position)."""

    def __init__(self, f, kind, sess):
        self._f, self._kind, self._sess = f, kind, sess
        self._flushed = False
        self._pending = None

    def flush(self):
        self._flushed = True
        return self._f.flush()

    def tell(self):
        p = self._f.tell()
        if self._flushed:
            self._pending = p
            self._flushed = False
        return p

    def seek(self, pos, whence=0):
        pos = int(pos)
        if self._pending is not None and whence == 0 and pos >= self._pending:
            self._sess["ops"].append(("write", self._kind, self._pending, pos - self._pending))
        else:
            self._sess["ops"].append(("seek", self._kind, pos, whence))
        self._pending = None
        self._flushed = False
        return self._f.seek(pos, whence)

    def write(self, data):
        p = self._f.tell()
        n = self._f.write(data)
        self._sess["ops"].append(("write", self._kind, p, len(data)))
        self._pending = None
        return n

    def fileno(self):
        return self._f.fileno()

    def close(self):
        self._sess["ops"].append(("close", self._kind, self._f.tell(), 0))
        return self._f.close()

    def __getattr__(self, name):
        return getattr(self._f, name)

    def __enter__(self):
        return self

    def __exit__(self, *a):
        self.close()


class _SatProxy:
    """Wraps the r+ memmap of the saturation vector: slice assignments are applied under the tap's
    lock and logged with a global sequence number (so the log order is the write order)."""

    def __init__(self, arr, tap):
        self._arr, self._tap = arr, tap

    def __setitem__(self, key, value):
        tap = self._tap
        sess = tap._cur.get(threading.get_ident())
        with tap._lock:
            seq = tap._seq
            tap._seq += 1
            self._arr[key] = value
        if sess is not None and isinstance(key, slice):
            a, b, st = key.indices(len(self._arr))
            sess["ops"].append(("sat", int(a), int(b), seq, np.array(value, dtype=bool).copy()))
        elif sess is not None:
            sess["ops"].append(("sat", -1, -1, seq, None))

    def __getitem__(self, key):
        return self._arr[key]

    def __len__(self):
        return len(self._arr)

    def __getattr__(self, name):
        return getattr(self._arr, name)


class _NpShim:
    """Stands for the numpy module inside ibldsp.voltage while a Tap is active: everything is
    numpy's, except that np.load(<saturation file>, mmap_mode='r+') returns a logging proxy."""

    def __init__(self, tap):
        self._tap = tap

    def __getattr__(self, name):
        return getattr(np, name)

    def load(self, file, *a, **kw):
        arr = np.load(file, *a, **kw)
        if kw.get("mmap_mode") == "r+" and isinstance(file, (str, Path)) \
                and self._tap.watched.get(str(Path(file))) == "sat":
            return _SatProxy(arr, self._tap)
        return arr


class Tap:
    """Context manager: while active, every spikeglx.Reader created starts a 'session' in its
    thread; reads through Reader.__getitem__ and writes through files opened 'r+b' by
    ibldsp.voltage are logged in the session of the calling thread."""

    def __init__(self, watched):
        self.watched = {str(Path(p)): k for p, k in watched.items()}
        self.sessions = []
        self._cur = {}
        self._lock = threading.Lock()
        self._seq = 0

    def __enter__(self):
        import spikeglx
        from ibldsp import voltage
        self._voltage, self._spikeglx = voltage, spikeglx
        tap = self
        self._orig_init = spikeglx.Reader.__init__
        self._orig_getitem = spikeglx.Reader.__getitem__
        self._had_open = "open" in vars(voltage)
        self._orig_open = vars(voltage).get("open")

        def init(rself, *a, **kw):
            sess = {"ops": [], "thread": threading.get_ident(), "reader": id(rself)}
            with tap._lock:
                tap.sessions.append(sess)
                tap._cur[threading.get_ident()] = sess
            return tap._orig_init(rself, *a, **kw)

        def getitem(rself, item):
            sess = tap._cur.get(threading.get_ident())
            if sess is not None and sess["reader"] == id(rself) and isinstance(item, tuple) and len(item) == 2 \
                    and isinstance(item[0], slice) and isinstance(item[1], slice):
                a, b, st = item[0].indices(rself.ns)
                c0, c1, cs = item[1].indices(rself.nc)
                sess["ops"].append(("read", int(a), int(b), int(c0), int(c1)))
            return tap._orig_getitem(rself, item)

        def tap_open(file, mode="r", *a, **kw):
            f = builtins.open(file, mode, *a, **kw)
            kind = tap.watched.get(str(Path(file))) if isinstance(file, (str, Path)) else None
            sess = tap._cur.get(threading.get_ident())
            if kind is not None and sess is not None and ("+" in mode or "a" in mode):
                return _FileProxy(f, kind, sess)
            return f

        spikeglx.Reader.__init__ = init
        spikeglx.Reader.__getitem__ = getitem
        voltage.open = tap_open
        self._orig_np = voltage.np
        voltage.np = _NpShim(self)
        self._orig_sat = voltage.saturation

        def sat_wrap(*a, **kw):
            sess = tap._cur.get(threading.get_ident())
            if sess is not None:
                mv = kw.get("max_voltage", a[1] if len(a) > 1 else None)
                fs = kw.get("fs", a[3] if len(a) > 3 else 30_000)
                data = kw.get("data", a[0] if a else None)
                sess["ops"].append(("satcall", np.atleast_1d(np.asarray(mv, dtype=np.float64)).copy(), int(np.ndim(mv)),
                                    float(fs), tuple(np.shape(data))))
            return tap._orig_sat(*a, **kw)

        voltage.saturation = sat_wrap
        return self

    def __exit__(self, *a):
        self._spikeglx.Reader.__init__ = self._orig_init
        self._spikeglx.Reader.__getitem__ = self._orig_getitem
        self._voltage.np = self._orig_np
        self._voltage.saturation = self._orig_sat
        if self._had_open:
            self._voltage.open = self._orig_open
        else:
            del self._voltage.open


def canon_sessions(tap, ncv):
    """Sessions that touched the output -> per-worker list of batches
    [(first_s, last_s, out_pos, out_nbytes, rms_pos, time_pos)], pad (pos, nbytes) or None.
    Sessions that only created a Reader (the caller's own, idle workers) have no batches."""
    workers = []
    n_idle = 0
    for sess in tap.sessions:
        ops = sess["ops"]
        kinds = {o[1] for o in ops if o[0] in ("write", "seek", "sat")}
        if not kinds:
            n_idle += 1
            continue
        batches = []
        cur = None
        pad = None
        bad = []
        for o in ops:
            if o[0] == "read":
                if o[3] == 0 and o[4] == ncv:                 # voltage read opens a new batch
                    cur = {"first": o[1], "last": o[2]}
                    batches.append(cur)
                elif cur is None or (o[1], o[2]) != (cur["first"], cur["last"]):
                    bad.append("sync read %r outside the current batch" % (o,))
            elif o[0] == "satcall":
                if cur is not None and "satcall" not in cur:
                    cur["satcall"] = o[1:]
                else:
                    bad.append("saturation() called outside a batch / twice in a batch")
            elif o[0] == "sat":
                if cur is None or "sat" in cur:
                    bad.append("saturation assignment outside a batch / twice in a batch")
                else:
                    cur["sat"] = (o[1], o[2], o[3], o[4])
            elif o[0] == "write":
                if cur is None:
                    bad.append("write before any read")
                    continue
                key = {"out": "out", "rms": "rms", "time": "time"}[o[1]]
                if key in cur:
                    if key == "out" and pad is None:
                        pad = (o[2], o[3])
                    else:
                        bad.append("second %s write in one batch" % key)
                else:
                    cur[key] = (o[2], o[3])
        workers.append({"batches": batches, "pad": pad, "bad": bad})
    return workers, n_idle


# --------------------------------------------------------------------------
# running the implementation
# --------------------------------------------------------------------------
def call_impl(binf, outf, scn, nproc, backend, append=False, nbatch=None, ns2add=None):
    import joblib
    from ibldsp import voltage
    forms = scn.get("forms") or {}
    kw = dict(nprocesses=nproc, nbatch=nbatch or scn["nbatch"], ns2add=scn["ns2add"] if ns2add is None else ns2add,
              reject_channels=scn["reject"], k_filter=scn["k_filter"], append=append, wrot=make_wrot(scn))
    h0 = None
    if forms.get("out_default"):           # output_file=None: next to the (compressed) source, suffix .bin
        outf = None
    if forms.get("h_given"):               # the trace header passed explicitly
        import spikeglx
        _sr = spikeglx.Reader(binf)
        kw["h"] = {k: (np.array(v, copy=True) if isinstance(v, np.ndarray) else v) for k, v in _sr.geometry.items()}
        h0 = {k: (np.array(v, copy=True) if isinstance(v, np.ndarray) else v) for k, v in kw["h"].items()}
        _sr.close()
    if forms.get("butter"):
        kw["butter_kwargs"] = dict(forms["butter"])
    if forms.get("k_kwargs"):
        kw["k_kwargs"] = json.loads(json.dumps(forms["k_kwargs"]))
    if forms.get("nbatch_default"):
        kw["nbatch"] = None                # NBATCH = 65536
    if forms.get("P_default"):
        kw["nprocesses"] = None            # int(cpu_count() - cpu_count() / 4)
    if forms.get("qc_path"):
        qc = Path(forms["qc_path"])
        qc.mkdir(parents=True, exist_ok=True)
        kw["output_qc_path"] = qc
    if forms.get("reader_kwargs"):
        kw["reader_kwargs"] = {"ignore_warnings": True, "meta_file": Path(binf).with_suffix(".meta")}
    if scn.get("nc_out") is not None:
        kw["nc_out"] = scn["nc_out"]
    if scn.get("dtype", "int16") != "int16":
        kw["dtype"] = getattr(np, scn["dtype"])
    if scn.get("compute_rms") is False:
        kw["compute_rms"] = False
    if scn.get("aspath") is False:               # str instead of pathlib.Path
        binf, outf = str(binf), (None if outf is None else str(outf))
    w0 = None if kw["wrot"] is None else np.array(kw["wrot"], copy=True)
    with warnings.catch_warnings():
        warnings.simplefilter("ignore")
        with joblib.parallel_config(backend=backend):
            ret = voltage.decompress_destripe_cbin(binf, outf, **kw)
    notes = []
    if ret is not None:
        notes.append("returned %s instead of None" % type(ret).__name__)
    if w0 is not None and not np.array_equal(w0, np.asarray(kw["wrot"])):
        notes.append("the wrot argument was modified in place")
    if h0 is not None and (set(h0) != set(kw["h"]) or any(
            not np.array_equal(np.asarray(h0[k]), np.asarray(kw["h"][k])) for k in h0)):
        notes.append("the h argument was modified in place")
    return notes


def fingerprint(binf):
    """crc of every file of the source recording (bin/cbin, ch, meta)."""
    out = {}
    for f in sorted(Path(binf).parent.iterdir()):
        if f.is_file():
            out[f.name] = (f.stat().st_size, zlib.crc32(f.read_bytes()))
    return out


def observe(*a, **kw):
    """observe_inner, never raising: whatever goes wrong while running the implementation or while
    collecting what it left behind is an error of that run (reported with its input)."""
    try:
        return observe_inner(*a, **kw)
    except BaseException as e:          # noqa: the implementation may raise anything, SystemExit included
        return {"P": a[3] if len(a) > 3 else kw.get("nproc"), "backend": a[4] if len(a) > 4 else kw.get("backend"),
                "append": kw.get("append", False), "pre": {"out": 0, "rms": 0, "time": 0},
                "error": "%s: %s" % (type(e).__name__, e), "trace": traceback.format_exc()[-1500:]}


def plant_stale(outdir, scn, kind, ns2add, outf=None):
    """What a previous, different run may have left at the output location: an output file shorter /
    as long as / longer than the one about to be written (junk bytes), and stale QC files."""
    if kind is None:
        return
    dtype = np.dtype(scn.get("dtype", "int16"))
    ncout = scn.get("nc_out") or (scn["ncv"] + 1)
    new = (scn["ns"] + ns2add) * ncout * dtype.itemsize
    n = {"shorter": max(1, new // 3 + 5), "equal": new, "longer": new + 7 * ncout * dtype.itemsize + 1234 * ncout * 2}[kind]
    rng = np.random.default_rng(scn["seed"] + 99)
    rng.integers(0, 255, n, dtype=np.uint8).tofile(outf or (outdir / "out.bin"))
    rng.standard_normal(scn["ncv"] * 977).astype(np.float32).tofile(outdir / "ap_rms.bin")
    rng.standard_normal(977).astype(np.float32).tofile(outdir / "ap_time.bin")
    np.save(outdir / "_iblqc_ephysSaturation.samples.npy", np.ones(scn["ns"] + 4321, dtype=bool))
    np.save(outdir / "_iblqc_ephysTimeRmsAP.rms.npy", np.ones((977, scn["ncv"]), dtype=np.float32))
    np.save(outdir / "_iblqc_ephysTimeRmsAP.timestamps.npy", np.ones(977, dtype=np.float32))


def observe_inner(binf, outdir, scn, nproc, backend, append=False, nbatch=None, ns2add=None, stale=None):
    """One real run.  Returns dict with bytes / QC / (threading backend only) per-worker events."""
    forms = scn.get("forms") or {}
    if forms.get("out_default"):
        outdir, outf = Path(binf).parent, Path(binf).with_suffix(".bin")
    else:
        outf = outdir / "out.bin"
    outdir.mkdir(parents=True, exist_ok=True)
    qcdir = outdir
    if forms.get("qc_path"):
        scn = dict(scn, forms=dict(forms, qc_path=str(outdir / "qc_elsewhere")))
        qcdir = outdir / "qc_elsewhere"
    if not append:
        plant_stale(outdir, scn, stale, scn["ns2add"] if ns2add is None else ns2add, outf)
    fp0 = fingerprint(binf)
    for name in ("ap_rms.bin", "ap_time.bin", outf.name, "_iblqc_ephysSaturation.samples.npy",
                 "_iblqc_ephysTimeRmsAP.rms.npy", "_iblqc_ephysTimeRmsAP.timestamps.npy"):
        fp0.pop(name, None)                  # outputs living next to the source (output_file=None)
    watched = {outf: "out", outdir / "ap_rms.bin": "rms", outdir / "ap_time.bin": "time",
               outdir / "_iblqc_ephysSaturation.samples.npy": "sat"}
    pre = {k: (Path(p).stat().st_size if Path(p).exists() else 0) for p, k in watched.items() if k != "sat"}
    res = {"P": nproc, "backend": backend, "append": append, "pre": pre, "stale": stale}
    t0 = time.time()
    try:
        if backend == "threading":
            with Tap(watched) as tap:
                res["arg_notes"] = call_impl(binf, outf, scn, nproc, backend, append, nbatch, ns2add)
            res["workers"], res["n_idle"] = canon_sessions(tap, scn["ncv"])
        else:
            res["arg_notes"] = call_impl(binf, outf, scn, nproc, backend, append, nbatch, ns2add)
    except BaseException as e:          # noqa
        res["error"] = "%s: %s" % (type(e).__name__, e)
        res["trace"] = traceback.format_exc()[-1500:]
        return res
    res["wall"] = time.time() - t0
    fp1 = fingerprint(binf)
    res["src_changed"] = sorted(k for k in fp0 if fp0.get(k) != fp1.get(k))
    res["raw"] = np.fromfile(outf, dtype=np.uint8)
    res["size"] = {k: (Path(p).stat().st_size if Path(p).exists() else -1) for p, k in watched.items() if k != "sat"}
    if scn.get("compute_rms") is False:
        fsat = outdir / "_iblqc_ephysSaturation.samples.npy"
        res["sat"] = np.load(fsat) if fsat.exists() else None
        res["rms_files"] = sorted(f.name for f in outdir.iterdir()
                                  if f.name.startswith(("ap_rms", "ap_time", "_iblqc_ephysTimeRmsAP")))
        return res
    res["sat"] = np.load(qcdir / "_iblqc_ephysSaturation.samples.npy")
    res["rms"] = np.load(qcdir / "_iblqc_ephysTimeRmsAP.rms.npy")
    res["times"] = np.load(qcdir / "_iblqc_ephysTimeRmsAP.timestamps.npy")
    return res


# --------------------------------------------------------------------------
# every call into the implementation happens in a forked child, bounded by a timeout
# --------------------------------------------------------------------------
class RunFailure(Exception):
    pass


def _serve(conn):
    os.setsid()                       # own process group: loky workers are killed with us
    funcs = {"observe": observe, "reference": reference, "make_recording": make_recording,
             "sync_factors": sync_factors}
    while True:
        try:
            msg = conn.recv()
        except (EOFError, OSError):
            break
        if msg is None:
            break
        name, a, kw = msg
        try:
            res = ("ok", funcs[name](*a, **kw))
        except BaseException as e:    # noqa
            res = ("exc", "%s: %s" % (type(e).__name__, e), traceback.format_exc()[-1500:])
        try:
            conn.send(res)
        except BaseException as e:    # noqa: unpicklable result
            conn.send(("exc", "result could not be returned: %r" % (e,), ""))
    # leave without multiprocessing's exit handler (it would wait for idle loky workers); when a coverage
    # audit is running (tools/cov.py) save this process's data first
    if os.environ.get("COVERAGE_PROCESS_START"):
        try:
            import coverage
            cov = coverage.Coverage.current()
            if cov is not None:
                cov.stop()
                cov.save()
        except Exception:
            pass
    os._exit(0)


class Runner:
    """Runs observe / reference / make_recording in a forked child process and waits at most
    `timeout` seconds for the answer.  A hang or a crash of the child (segfault, os._exit) kills its
    whole process group, is reported as a failure of that run and a new child is started; after
    three hangs no further run is attempted (each reports the same failure at once)."""

    def __init__(self):
        self.proc = self.conn = None
        self.hangs = 0
        self.scale = 1.0

    def start(self):
        mp = multiprocessing.get_context("fork")
        self.conn, child = mp.Pipe()
        self.proc = mp.Process(target=_serve, args=(child,))
        self.proc.start()
        child.close()

    def stop(self, graceful=True):
        if self.proc is not None:
            if graceful and self.proc.is_alive():
                try:                       # let the child finish by itself (coverage data, loky shutdown)
                    self.conn.send(None)
                    self.proc.join(15)
                except Exception:
                    pass
            try:
                os.killpg(self.proc.pid, signal.SIGKILL)
            except (ProcessLookupError, PermissionError):
                pass
            try:
                self.proc.kill()
            except Exception:
                pass
            self.proc.join(5)
            try:
                self.conn.close()
            except Exception:
                pass
        self.proc = self.conn = None

    def call(self, name, a=(), kw=None, timeout=120.0):
        if self.hangs >= 3:
            raise RunFailure("Timeout: not run, the implementation already hung %d times" % self.hangs)
        if self.proc is None or not self.proc.is_alive():
            self.stop()
            self.start()
        tmo = max(20.0, timeout * self.scale)
        try:
            self.conn.send((name, a, kw or {}))
            if not self.conn.poll(tmo):
                self.hangs += 1
                self.scale = 0.34
                self.stop(graceful=False)
                raise RunFailure("Timeout: no result within %.0f s (hang / dead-lock); process group killed" % tmo)
            res = self.conn.recv()
        except (EOFError, OSError, BrokenPipeError) as e:
            code = self.proc.exitcode if self.proc is not None else None
            self.stop(graceful=False)
            raise RunFailure("Crash: the process running the implementation died (exit code %s, %s)"
                             % (code, type(e).__name__))
        if res[0] == "exc":
            raise RunFailure(res[1])
        return res[1]


RUN = Runner()
atexit.register(RUN.stop)


def run_timeout(scn, thorough=False):
    base = {8: 60.0, 64: 150.0}.get(scn["ncv"], 400.0)
    return base * (2.0 if thorough else 1.0) * (1.0 + scn["ns"] / 40000.0)


def g_call(ctx, name, scn, *a, **kw):
    """make_recording / reference / sync_factors in the child; raises RunFailure."""
    return RUN.call(name, a, kw, run_timeout(scn, ctx.thorough()))


def sync_factors(binf):
    import spikeglx
    sr = spikeglx.Reader(binf)
    try:
        return np.array(sr.sample2volts)
    finally:
        sr.close()


def g_observe(ctx, binf, outdir, scn, nproc, backend, **kw):
    try:
        return RUN.call("observe", (binf, outdir, scn, nproc, backend), kw, run_timeout(scn, ctx.thorough()))
    except RunFailure as e:
        return {"P": nproc, "backend": backend, "append": kw.get("append", False),
                "pre": {"out": 0, "rms": 0, "time": 0}, "error": str(e)}


# --------------------------------------------------------------------------
# harness-side batch-wise in-memory destriping (the oracle's reference)
# --------------------------------------------------------------------------
def reference(binf, scn, nbatch=None, t0=0.0):
    """Batch by batch, in memory, following the documented recipe of decompress_destripe_cbin with
    the public building blocks (saturation, sosfiltfilt, fshift, interpolate_bad_channels, kfilt/car).
    Returns per batch the FULL processed chunk in output units (all local rows, before the saved
    range is cut out), the saturation flags, the rms row and the time stamp."""
    import spikeglx
    from ibldsp import voltage, fourier, utils
    import pyfftw
    nb = nbatch or scn["nbatch"]
    sr = spikeglx.Reader(binf, open=True)
    ncv = scn["ncv"]
    h = sr.geometry
    with warnings.catch_warnings():
        warnings.simplefilter("ignore")
        labels = voltage.detect_bad_channels_cbin(sr) if scn["reject"] else None
    forms = scn.get("forms") or {}
    butter_kwargs, k_kwargs, spatial_fcn = voltage._get_destripe_parameters(
        sr.fs, dict(forms["butter"]) if forms.get("butter") else None,
        json.loads(json.dumps(forms["k_kwargs"])) if forms.get("k_kwargs") else None, scn["k_filter"])
    sos = scipy.signal.butter(**butter_kwargs, output="sos")
    taper = np.r_[0, scipy.signal.windows.cosine((T - 1) * 2), 0]
    win = pyfftw.empty_aligned((ncv, nb), dtype="float32")
    WIN = pyfftw.empty_aligned((ncv, int(nb / 2 + 1)), dtype="complex64")
    fft_object = pyfftw.FFTW(win, WIN, axes=(1,), direction="FFTW_FORWARD", threads=4)
    ifft_object = pyfftw.FFTW(WIN, win, axes=(1,), direction="FFTW_BACKWARD", threads=4)
    dephas = np.zeros((ncv, nb), dtype=np.float32)
    dephas[:, 1] = 1.0
    DEPHAS = np.exp(1j * np.angle(fft_object(dephas)) * h["sample_shift"][:, np.newaxis])
    wrot = make_wrot(scn)
    dtype = getattr(np, scn.get("dtype", "int16"))
    # NP1: 10-bit ADC over +/-0.6 V divided by the channel's AP gain (independent of Reader.range_volts)
    max_voltage = (0.6 / gains_of(scn)).astype(np.float32)
    if not np.allclose(sr.range_volts[:ncv], max_voltage, rtol=1e-5, atol=0):
        raise RuntimeError("Reader.range_volts %r differs from 0.6 V / AP gain %r"
                           % (sr.range_volts[:ncv][:8], max_voltage[:8]))
    out = []
    with warnings.catch_warnings():
        warnings.simplefilter("ignore")
        for fs, ls, lo, hi in py_rule(sr.ns, nb):
            chunk = sr[fs:ls, :ncv].T
            sat, mute = voltage.saturation(data=chunk, max_voltage=max_voltage, fs=FS)
            chunk[:, :T] *= taper[:T]
            chunk[:, -T:] *= taper[T:]
            sat_tap, _ = voltage.saturation(data=chunk, max_voltage=max_voltage, fs=FS)
            chunk = scipy.signal.sosfiltfilt(sos, chunk)
            if ls == sr.ns:
                chunk = fourier.fshift(chunk, s=h["sample_shift"])
            else:
                chunk = ifft_object(fft_object(chunk) * DEPHAS)
            if scn["reject"]:
                chunk = voltage.interpolate_bad_channels(chunk, labels, h["x"], h["y"])
                inside = np.where(labels != 3)[0]
                chunk[inside, :] = spatial_fcn(chunk[inside, :])
            else:
                chunk = spatial_fcn(chunk)
            chunk = np.r_[chunk * mute, sr[fs:ls, ncv:].T].T
            rms = utils.rms(chunk[:, :ncv], axis=0).astype(np.float32)
            tstamp = np.float32(t0 + (fs + (ls - fs - 1) / 2) / sr.fs)
            full = chunk * (1 / sr.sample2volts)
            if wrot is not None:
                full[:, :ncv] = np.dot(full[:, :ncv], wrot)
            out.append({"first": fs, "last": ls, "lo": lo, "hi": hi, "full": full.astype(dtype),
                        "max_voltage": max_voltage, "sat": np.asarray(sat), "sat_tap": np.asarray(sat_tap), "rms": rms, "t": tstamp})
    sr.close()
    return out


def rows_close(a, b, ncv):
    """int16 rows equal: sync columns exactly, voltage within 1 LSB (float dtype: 1e-3 relative)."""
    if a.shape != b.shape:
        return False
    if a.size == 0:
        return True
    if a.dtype.kind == "f":
        return bool(np.allclose(a, b, rtol=1e-3, atol=1.0))
    av, bv = a[:, :ncv].astype(np.int32), b[:, :ncv].astype(np.int32)
    return bool(np.all(np.abs(av - bv) <= 1) and np.array_equal(a[:, ncv:], b[:, ncv:]))


# --------------------------------------------------------------------------
# flat encodings (same layout as coq/C06/Run.v `run`)
# --------------------------------------------------------------------------
def enc_input(ns, nb, nproc, ns2add, append, pre_len, ncout, nbytes, ncv, roff, toff):
    """pre_len: bytes of whatever file was at output_file before the call (the model derives the offset)."""
    return [ns, nb, nproc, ns2add, 1 if append else 0, pre_len, ncout, nbytes, ncv, roff, toff]


def locate(full, rows, guess, ncv):
    """local row index j (near guess) with full[j:j+n] == rows; -1 if none."""
    n = rows.shape[0]
    hits = [j for j in range(guess - 2, guess + 3)
            if 0 <= j and j + n <= full.shape[0] and rows_close(full[j:j + n], rows, ncv)]
    if not hits:
        return -1
    # several offsets match only when neighbouring rows are identical (muted stretch, no sync column)
    return guess if guess in hits else hits[0]


def sat_stage(b, r):
    """Which input of saturation() explains the verdict a batch assigned: 0 = the chunk as read
    (raw), 1 = only the tapered chunk, -1 = neither / wrong slice."""
    sat = b.get("sat")
    if sat is None or r is None or (sat[0], sat[1]) != (b["first"], b["last"]) or sat[3] is None \
            or sat[3].shape != r["sat"].shape:
        return -1
    if np.array_equal(sat[3], r["sat"]):
        return 0
    return 1 if np.array_equal(sat[3], r["sat_tap"]) else -1


def sat_args(b, r):
    """How saturation() was called for a batch: 0 = one threshold per voltage channel equal to that
    channel's range, reader's sampling rate, the raw chunk's shape; 1 = not one value per channel
    (scalar / wrong length); 2 = per channel but wrong values; 3 = wrong fs / data shape; -1 = no call."""
    c = b.get("satcall")
    if c is None or r is None:
        return -1
    mv, ndim, fs, shape = c
    ncv = r["max_voltage"].size
    if ndim != 1 or mv.shape != (ncv,):
        return 1
    if not np.allclose(mv, r["max_voltage"], rtol=1e-5, atol=0):
        return 2
    if fs != FS or shape != (ncv, b["last"] - b["first"]):
        return 3
    return 0


def pick_probes(ref, ns):
    """samples at which the saturation bookkeeping is reported: around the read ranges' ends."""
    ks = sorted(set(list(range(min(3, len(ref)))) + list(range(max(0, len(ref) - 3), len(ref)))
                    + [len(ref) // 2]))
    pr = {0, ns - 1}
    for k in ks:
        r = ref[k]
        pr |= {r["first"] - 1, r["first"], r["first"] + T, r["last"] - T, r["last"] - 1, r["last"]}
    return sorted(g for g in pr if 0 <= g < ns)[:40]


def enc_impl(obs, ref, out_rows, offset, rowbytes, ncv, P, probes=()):
    """The implementation's observation, in the model's layout.  Local row indices (e_lo, p_src)
    are measured by locating the written rows inside the batch's in-memory result."""
    refby = {r["first"]: r for r in ref}
    workers = sorted(obs["workers"], key=lambda w: (w["batches"][0]["first"], len(w["batches"])))
    batches = {}
    flat_w = []
    for w in workers:
        evs = []
        for b in w["batches"]:
            pos, nby = b.get("out", (-1, -1))
            cnt = nby // rowbytes if nby % rowbytes == 0 else -1
            row0 = (pos - offset) // rowbytes if (pos - offset) % rowbytes == 0 else -1
            r = refby.get(b["first"])
            lo = -1
            if r is not None and cnt >= 0 and row0 >= 0:
                lo = locate(r["full"][:, :out_rows.shape[1]], out_rows[row0:row0 + cnt], row0 - b["first"], ncv)
            evs.append([b["first"], b["last"], pos, lo, cnt, b.get("rms", (-1, 0))[0], b.get("time", (-1, 0))[0],
                        sat_stage(b, r), sat_args(b, r)])
            batches[b["first"]] = [b["first"], b["last"], row0, row0 + cnt, lo]
        pads = []
        if w["pad"] is not None:
            pos, nby = w["pad"]
            cnt = nby // rowbytes if nby % rowbytes == 0 else -1
            lastb = w["batches"][-1]
            r = refby.get(lastb["first"])
            row0 = (pos - offset) // rowbytes
            src = -1
            if r is not None and cnt > 0:
                padrow = out_rows[row0:row0 + 1]
                guess = lastb["last"] - lastb["first"] - 1
                src = locate(r["full"][:, :out_rows.shape[1]], padrow, guess, ncv)
                if not all(np.array_equal(out_rows[row0 + q], out_rows[row0]) for q in range(cnt)):
                    src = -3
            pads.append([lastb["first"], pos, cnt, src])
        flat_w.append([0, len(evs)] + [x for e in evs for x in e] + [len(pads)] + [x for p in pads for x in p])
    flat_w += [[0, 0, 0]] * obs["n_idle_workers"]
    bl = [batches[k] for k in sorted(batches)]
    # saturation vector: observed slice assignments (any worker) covering each probe
    sat_ops = [b["sat"] + (b["first"],) for w in workers for b in w["batches"] if b.get("sat") is not None]
    pl = []
    for g in probes:
        cov = [o for o in sat_ops if o[0] <= g < o[1]]
        if not cov:
            pl.append([-1, -1, -1])
        else:
            winner = max(cov, key=lambda o: o[2])[0] if P == 1 else -2
            pl.append([min(o[0] for o in cov), max(o[0] for o in cov), winner])
    return ([len(bl), obs["size"]["out"], obs["size"]["rms"], obs["size"]["time"], len(flat_w)]
            + [x for w in flat_w for x in w] + [len(bl)] + [x for b in bl for x in b]
            + [len(pl)] + [x for q in pl for x in q]
            + [obs.get("sync_scaled", 0)])


# --------------------------------------------------------------------------
# scenarios
# --------------------------------------------------------------------------
def gen_scenarios(ctx):
    rng = ctx.rng
    scns = []

    def scn(ns, nb, ps, **kw):
        d = {"ns": int(ns), "nbatch": int(nb), "ps": list(ps), "ncv": 8, "ns2add": 0, "reject": False,
             "k_filter": False, "wrot": None, "nc_out": None, "dtype": "int16", "sat": True,
             "seed": rng.randrange(1 << 30), "append": None, "loky": [], "src": "bin", "aspath": True,
             "gains": None, "slow": False, "forms": None}
        d.update(kw)
        scns.append(d)
        return d

    def boundary_ns(nb, m):
        s = nb - 2 * T
        return rng.choice([nb + m * s + rng.choice([-1, 0, 1]),          # last batch just (not) full
                           m * s + 2 * T + rng.choice([-1, 0, 1, 2]),    # previous batch just reaches the end
                           nb + m * s - rng.randrange(0, s),
                           rng.randrange(5000, 40001)])

    def some_ps(k):
        base = [1] + rng.sample(range(2, 9), k - 1)
        return base

    # --- the idle-worker rule at equality: ns = NBATCH + m*stride exactly, workers starting past the end ---
    nb0 = rng.choice([2304, 3000, 4096])
    scn(nb0, nb0, [1, 2, rng.randrange(3, 9)], ns2add=rng.choice([1, 3, 100]))   # idle LAST worker and padding
    m0 = rng.choice([1, 2])
    scn(4096 + m0 * 2048, 4096, [1, rng.randrange(5, 9), 16], ns2add=rng.choice([2, 3]),
        append={"P": 7, "nbatch": 4096})
    # --- every public parameter in a non-default form at least once ---
    import joblib
    pdef = int(joblib.cpu_count() - joblib.cpu_count() / 4)
    scn(rng.randrange(5000, 9000), 3000, [1, 3], src="cbin", forms={"out_default": True}, ns2add=rng.choice([0, 2]))
    scn(rng.randrange(5000, 9000), rng.choice([2304, 3000]), [1, 2], k_filter=True,
        forms={"h_given": True, "butter": {"N": 2, "Wn": 500 / 30000 * 2, "btype": "highpass"},
               "k_kwargs": {"ntr_pad": 3, "ntr_tap": 0, "lagc": 300,
                            "butter_kwargs": {"N": 3, "Wn": 0.02, "btype": "highpass"}}})
    scn(rng.randrange(7000, 12000), 65536, [max(1, pdef)], forms={"nbatch_default": True, "P_default": True},
        ns2add=rng.choice([0, 4]))
    scn(rng.randrange(5000, 9000), 3000, [2], forms={"qc_path": True, "reader_kwargs": True}, wrot="perm")
    # --- per-bank AP gains (imroTbl) and slow artefacts that rail only the high-gain channels ---
    gk = ["halves", "halves_rev", "mixed"]
    rng.shuffle(gk)
    for gi in gk[:3 if ctx.thorough() else 2]:
        nbg = rng.choice([3000, 4096])
        scn(nbg + rng.randrange(2, 5) * (nbg - 2 * T) + rng.randrange(-300, 300), nbg, [1, rng.randrange(2, 7)],
            gains=gi, slow=True, sat=rng.random() < 0.5, ns2add=rng.choice([0, 2]))
    # --- worker shares at exact multiples of NBATCH: i*CHUNK_SIZE == k*NBATCH (ceil / int at equality) ---
    for _ in range(4 if ctx.thorough() else 2):
        nb1 = rng.choice([2304, 3000, 4096])
        p1 = rng.randrange(2, 8)
        k1 = rng.randrange(1, max(2, 40000 // (p1 * nb1) + 1))
        ns1 = min(40000, p1 * nb1 * k1 + rng.choice([0, 1, p1 - 1]))
        scn(ns1, nb1, [1, p1, rng.randrange(2, 9)], ns2add=rng.choice([0, 2]))
    # --- light stream: 8 channels, CAR: many (ns, nbatch, P) positions ---
    n_light = 60 if ctx.thorough() else 14
    nbs = [2304, 3000, 4096, 2560, 6556, 2100, 3333]
    for q in range(n_light):
        nb = nbs[q % len(nbs)] if q < 2 * len(nbs) else rng.choice(nbs + [rng.randrange(2200, 9000)])
        s = nb - 2 * T
        m = rng.randrange(0, max(1, min(40, 38000 // s)))
        ns = max(2 * T + 1, min(40000, nb + (150 if ctx.thorough() else 45) * s, boundary_ns(nb, m)))
        if q % 5 == 4:
            ns = rng.choice([nb - 1, nb, nb + 1, 2 * T + 1, 2 * T + 2, nb + s, nb + s + 1, T, T + 1, 2 * T - 1, 2 * T])
        ps = some_ps(4 if ctx.thorough() else 3)
        if q % 3 == 0:
            ps.append(rng.choice([12, 16, 23]))                        # more workers than batches: idle workers
        # wrot in every accepted form, in turn; scalar forms always with the sync column in the output
        wform = (None, "scalar", "perm", "npscalar", "zerod", "npscalar32", "one")[q % 7]
        d = scn(ns, nb, ps, ns2add=rng.choice([0, 0, 1, 7, 100]),
                wrot=wform,
                nc_out=(None if wform not in (None, "perm") else rng.choice([None, None, None, 8, 5])),
                dtype="float32" if q % 7 == 6 else ("int32" if q % 7 == 3 else "int16"),
                src="cbin" if q % 4 == 2 else "bin", aspath=(q % 3 != 1),
                gains=(None, "halves", None, "mixed", "halves_rev")[q % 5], slow=(q % 5 in (1, 3, 4)))
        if q % 4 == 1:
            d["append"] = {"P": rng.randrange(1, 7), "nbatch": rng.choice([nb, 2304, 4096])}
    # --- medium stream: 64 channels, k-filter / CAR, channel rejection ---
    n_med = 14 if ctx.thorough() else 3
    for q in range(n_med):
        nb = [3000, 2304, 4096][q % 3]
        s = nb - 2 * T
        lim = 12 if (nb == 2304 or not ctx.thorough()) else 40
        m = rng.randrange(1, max(2, min(lim, 30000 // s)))
        ns = max(9500, min(40000 if ctx.thorough() else 16000, boundary_ns(nb, m)))
        d = scn(ns, nb, some_ps(3), ncv=64, k_filter=(q % 3 != 2), reject=(q % 2 == 0),
                ns2add=rng.choice([0, 5]), wrot=(None, "perm", "npscalar")[q % 3], src="cbin" if q % 3 == 1 else "bin",
                gains=("halves", None, "mixed")[q % 3], slow=(q % 3 != 1))
        if q == 0:
            d["loky"] = [rng.randrange(2, 7)]
            d["append"] = {"P": rng.randrange(2, 6), "nbatch": nb}
    # --- full probe: 384 channels, defaults (k-filter + channel rejection), real processes ---
    n_full = 3 if ctx.thorough() else 1
    for q in range(n_full):
        nb = [4096, 3000, 6556][q % 3]
        s = nb - 2 * T
        ns = max(9500, min(30000 if ctx.thorough() else 13000, boundary_ns(nb, rng.randrange(2, 6))))
        scn(ns, nb, [rng.randrange(2, 7)] + ([1] if ctx.thorough() else []), ncv=384, k_filter=True, reject=True,
            gains="halves", slow=True, ns2add=rng.choice([0, 3]), loky=[rng.randrange(2, 7)] + ([8] if ctx.thorough() else []))
    return scns


def scn_public(s):
    return {k: v for k, v in s.items()}


# --------------------------------------------------------------------------
# one scenario: runs, oracle, flat encodings
# --------------------------------------------------------------------------
def check_run(ctx, scn, obs, data, ref, ref_prev, tags_base, cases, stats, nbatch, base_rows=0,
              prev_raw=None, prev_qc=None):
    """Oracle on one real run (`obs`) + flat encoding for the model comparison."""
    ns, ncv = scn["ns"], scn["ncv"]
    ncout = scn["nc_out"] or (ncv + 1)
    dtype = np.dtype(scn.get("dtype", "int16"))
    rowbytes = ncout * dtype.itemsize
    inp = dict(scn_public(scn), P=obs["P"], backend=obs["backend"], append_run=obs["append"], nbatch_run=nbatch,
               stale=obs.get("stale"), pre_existing_bytes=obs["pre"].get("out"))
    tags = dict(tags_base, P=obs["P"], backend=obs["backend"], append=bool(obs["append"]),
                workers_gt_samples=bool(obs["P"] > ns))

    def fail(what, **kw):
        ctx.fail(what, inp, dict(tags, clause=what.split(":")[0], **kw))

    if "error" in obs:
        fail("exception: decompress_destripe_cbin raised %s" % obs["error"])
        return None
    if obs.get("src_changed"):
        fail("input: the source recording was modified by the run (%s)" % ", ".join(obs["src_changed"]))
    for note in obs.get("arg_notes") or []:
        fail("input: " + note)
    offset = obs["pre"]["out"] if obs["append"] else 0
    raw = obs["raw"]
    ns2add = scn["ns2add"]
    # -- file length
    if raw.size != offset + (ns + ns2add) * rowbytes:
        fail("length: output has %d bytes, expected %d" % (raw.size, offset + (ns + ns2add) * rowbytes))
        return None
    if obs["append"] and prev_raw is not None and not np.array_equal(raw[:offset], prev_raw):
        fail("append: the existing part of the output file was modified")
    rows = raw[offset:].view(dtype).reshape(ns + ns2add, ncout)
    # -- sync column copied bit for bit (when it is part of the output)
    if ncout == ncv + 1:
        if not np.array_equal(rows[:ns, -1].astype(np.int64), data[:, -1].astype(np.int64)):
            bad = np.flatnonzero(rows[:ns, -1].astype(np.int64) != data[:, -1].astype(np.int64))
            fail("sync: %d sync words differ from the source (first at sample %d)" % (bad.size, bad[0]))
    # -- padding repeats the last row
    if ns2add and not np.all(rows[ns:] == rows[ns - 1]):
        fail("padding: padding rows are not copies of the last sample")
    # -- equals batch-wise in-memory destriping with the documented margins
    exp = np.concatenate([r["full"][r["lo"]:r["hi"], :ncout] for r in ref], axis=0)
    if exp.shape[0] != ns:
        fail("reference: documented rule does not tile the recording")
    elif not rows_close(rows[:ns], exp, ncv):
        nv = min(ncv, ncout)
        d = np.abs(rows[:ns, :nv].astype(np.float64) - exp[:, :nv].astype(np.float64)).max(axis=1)
        badrows = np.flatnonzero((d > 1) | np.any(rows[:ns, nv:] != exp[:, nv:], axis=1))
        fail("batchwise: output differs from batch-wise in-memory destriping at %d rows (first %s)"
             % (badrows.size, badrows[:3].tolist()))
    else:
        if dtype.kind == "i" and min(ncv, ncout) > 0:
            dmax = int(np.abs(rows[:ns, :min(ncv, ncout)].astype(np.int32) - exp[:, :min(ncv, ncout)].astype(np.int32)).max())
            stats["max_lsb_diff_vs_reference"] = max(stats.get("max_lsb_diff_vs_reference", 0), dmax)
    # -- QC sizes and contents
    sat, rms, times = obs["sat"], obs["rms"], obs["times"]
    nprev = 0 if not obs["append"] else obs["pre"]["time"] // 4
    if sat.shape != (ns,) or sat.dtype != np.bool_:
        fail("qc: saturation vector has shape %s dtype %s, expected (%d,) bool" % (sat.shape, sat.dtype, ns))
    else:
        if obs["backend"] == "threading":
            # exact: the file holds, at every sample, what the LAST observed assignment covering it wrote,
            # and every assignment is saturation()'s verdict on the chunk as read (raw, before the taper)
            ops = sorted((b["sat"] for w in obs["workers"] for b in w["batches"] if b.get("sat") is not None),
                         key=lambda o: o[2])
            last = np.zeros(ns, dtype=bool)
            for a, b_, _, vals in ops:
                if vals is not None and 0 <= a <= b_ <= ns and vals.shape == (b_ - a,):
                    last[a:b_] = vals
            if not np.array_equal(last, sat):
                fail("qc: saturation file differs from the last-writer replay of the observed assignments at %d samples"
                     % int((last != sat).sum()))
            refby = {r["first"]: r for r in ref}
            nbadargs = sum(1 for w in obs["workers"] for b in w["batches"] if sat_args(b, refby.get(b["first"])) != 0)
            if nbadargs:           # not a failure by itself (harmless on a uniform-gain probe): reported with the model
                ctx.disagree("%d saturation() calls were not given one threshold per voltage channel (that channel's "
                             "range), the reader's sampling rate and the raw chunk" % nbadargs, inp, tags)
            nraw = sum(1 for w in obs["workers"] for b in w["batches"] if sat_stage(b, refby.get(b["first"])) == 0)
            nall = sum(len(w["batches"]) for w in obs["workers"])
            if nraw != nall:
                fail("qc: %d of %d saturation assignments are not saturation()'s verdict on the raw chunk "
                     "[first_s:last_s] of their batch" % (nall - nraw, nall))
        # independent of voltage.saturation: a sample at which more than 20 % of the voltage channels sit
        # within 2 % of their ADC rail (raw counts, 10-bit NP1: |count| > 0.98 * 512) must be flagged
        rail = np.mean(np.abs(data[:, :ncv].astype(np.int32)) > 0.98 * 512, axis=1) > 0.2
        if np.any(rail & ~sat):
            fail("qc: %d samples with more than 20%% of the channels at their rail are not flagged in the "
                 "saturation file" % int(np.count_nonzero(rail & ~sat)))
        stats["rail_samples"] = stats.get("rail_samples", 0) + int(rail.sum())
        cover = np.zeros(ns, dtype=bool)       # flag must be the value some covering batch computed
        for r in ref:
            cover[r["first"]:r["last"]] |= (sat[r["first"]:r["last"]] == r["sat"])
        if not cover.all():
            fail("qc: saturation flags at %d samples are not those of any batch covering them" % int((~cover).sum()))
    if rms.shape != (nprev + len(ref), ncv) or times.shape != (nprev + len(ref),) \
            or rms.dtype.kind != "f" or times.dtype.kind != "f":
        fail("qc: rms %s %s / timestamps %s %s, expected %d batches of floats"
             % (rms.shape, rms.dtype, times.shape, times.dtype, nprev + len(ref)))
    else:
        rr = np.array([r["rms"] for r in ref])
        tt = np.array([r["t"] for r in ref], dtype=np.float32)
        if not np.allclose(rms[nprev:], rr, rtol=1e-4, atol=1e-12):
            fail("qc: rms rows are not the per-batch rms in batch order")
        if not np.allclose(times[nprev:], tt, rtol=0, atol=2e-6):
            fail("qc: rms timestamps are not the batch centres in batch order")
        if obs["append"] and prev_qc is not None:
            if not (np.array_equal(rms[:nprev], prev_qc[0]) and np.array_equal(times[:nprev], prev_qc[1])):
                fail("append: existing rms rows were modified")
    # -- model comparison (threading backend: per-worker events observed)
    if obs["backend"] == "threading":
        for w in obs["workers"]:
            for b in w["bad"]:
                ctx.disagree("unexpected I/O pattern: " + b, inp, tags)
        nw = len(obs["workers"])
        # sessions without any write: the caller's own Reader(s) + idle workers
        obs["n_idle_workers"] = obs["P"] - nw
        if obs["n_idle_workers"] < 0:
            ctx.disagree("more writing sessions than workers", inp, tags)
            obs["n_idle_workers"] = 0
        roff, toff = obs["pre"]["rms"], obs["pre"]["time"]     # what was there; the model decides what is kept
        # does the first sync column differ from the source although the run whitens (wrot given)?
        obs["sync_scaled"] = int(scn.get("wrot") is not None and ncout == ncv + 1 and
                                 not np.array_equal(rows[:ns, -1].astype(np.int64), data[:, -1].astype(np.int64)))
        probes = pick_probes(ref, ns)
        ci = enc_input(ns, nbatch, obs["P"], ns2add, bool(obs["append"]), obs["pre"]["out"], ncout, dtype.itemsize,
                       ncv, roff, toff) + probes
        co = enc_impl(obs, ref, rows, offset, rowbytes, ncv, obs["P"], probes)
        cases.append((ci, co, inp))
    return rows


def safe_check_run(ctx, scn, obs, *a, **kw):
    """check_run; outputs so malformed that they cannot even be examined are a failure of that run."""
    ncases = len(a[4]) if len(a) > 4 else 0
    try:
        return check_run(ctx, scn, obs, *a, **kw)
    except Exception as e:
        if len(a) > 4:
            del a[4][ncases:]
        ctx.fail("malformed: what the run left behind could not be examined (%s: %s)" % (type(e).__name__, str(e)[:200]),
                 dict(scn_public(scn), P=obs.get("P"), backend=obs.get("backend"), append_run=obs.get("append")),
                 {"clause": "malformed", "ncv": scn["ncv"]})
        return None


def run_scenario(ctx, scn, cases, stats, samples):
    tmp = common.tmpdir("C06_run_")
    t_s = time.time()
    try:
        tags_base = {"ncv": scn["ncv"], "reject": scn["reject"], "k_filter": scn["k_filter"]}
        try:
            binf, data, sat = g_call(ctx, "make_recording", scn, tmp / "src", scn)
            ref = g_call(ctx, "reference", scn, binf, scn)
        except RunFailure as e:
            ctx.fail("exception: building blocks (reader / compression / batch-wise reference) failed: %s" % e,
                     scn_public(scn), dict(tags_base, clause="exception"))
            return
        stats["sat_raw_vs_tapered_samples"] = stats.get("sat_raw_vs_tapered_samples", 0) + \
            sum(int(np.count_nonzero(r["sat"] != r["sat_tap"])) for r in ref)
        stats["sat_flagged_samples"] = stats.get("sat_flagged_samples", 0) + sum(int(r["sat"].sum()) for r in ref)
        first_raw = None
        runs = [(p, "threading") for p in scn["ps"]] + [(p, "loky") for p in scn["loky"]]
        kinds = [None, "longer", "shorter", "equal"]
        k0 = scn["seed"] % 4
        for j, (p, be) in enumerate(runs):
            # what already exists at the output path: nothing / a longer / shorter / equally long stale file
            obs = g_observe(ctx, binf, tmp / ("o_%s_%d" % (be, p)), scn, p, be, stale=(kinds[(k0 + j) % 4] if scn.get("stale_force", "-") == "-" else scn["stale_force"]))
            stats["stale_" + str(obs.get("stale"))] = stats.get("stale_" + str(obs.get("stale")), 0) + 1
            stats["runs"] += 1
            stats["runs_" + be] += 1
            stats["P_hist"][p] = stats["P_hist"].get(p, 0) + 1
            rows = safe_check_run(ctx, scn, obs, data, ref, None, tags_base, cases, stats, scn["nbatch"])
            if rows is None:
                continue
            if be == "threading":
                stats["idle_workers"] += obs.get("n_idle_workers", 0)
                stats["twice_processed_batches"] += sum(len(w["batches"]) for w in obs["workers"]) - len(ref)
            if first_raw is None:
                first_raw = (p, be, obs["raw"], obs["rms"], obs["times"], obs["sat"])
            else:
                inp = dict(scn_public(scn), P=p, backend=be, P_ref=first_raw[0])
                tags = dict(tags_base, P=p, backend=be, clause="workers")
                if not np.array_equal(obs["raw"], first_raw[2]):
                    nd = int(np.count_nonzero(obs["raw"] != first_raw[2])) if obs["raw"].size == first_raw[2].size else -1
                    ctx.fail("workers: output with %d workers (%s) differs from %d workers in %d bytes"
                             % (p, be, first_raw[0], nd), inp, tags)
                if not (np.array_equal(obs["rms"], first_raw[3]) and np.array_equal(obs["times"], first_raw[4])):
                    ctx.fail("workers: rms QC with %d workers differs from %d workers" % (p, first_raw[0]), inp, tags)
            if len(samples) < 8 and be == "threading" and p > 1:
                samples.append({"ns": scn["ns"], "nbatch": scn["nbatch"], "P": p, "ncv": scn["ncv"],
                                "ns2add": scn["ns2add"], "n_batches": len(ref),
                                "worker_batches": [[b["first"] for b in w["batches"]][:6] for w in obs["workers"]][:8],
                                "bytes": int(obs["raw"].size)})
        # append mode: a second run on top of an existing output
        if scn["append"] and first_raw is not None:
            ap = scn["append"]
            base = tmp / ("o_threading_%d" % scn["ps"][0])
            try:
                prev_raw = np.fromfile(base / "out.bin", dtype=np.uint8)
                prev_rms = np.load(base / "_iblqc_ephysTimeRmsAP.rms.npy")
                prev_t = np.load(base / "_iblqc_ephysTimeRmsAP.timestamps.npy")
                float(prev_t[-1])
            except Exception:
                return             # the first run already failed its oracle
            try:
                ref2 = g_call(ctx, "reference", scn, binf, scn, nbatch=ap["nbatch"], t0=float(prev_t[-1]))
            except RunFailure as e:
                ctx.fail("exception: building blocks failed: %s" % e, scn_public(scn), dict(tags_base, clause="exception"))
                return
            obs = g_observe(ctx, binf, base, scn, ap["P"], "threading", append=True, nbatch=ap["nbatch"])
            stats["runs"] += 1
            stats["runs_threading"] += 1
            stats["runs_append"] += 1
            safe_check_run(ctx, scn, obs, data, ref2, ref, tags_base, cases, stats, ap["nbatch"],
                           prev_raw=prev_raw, prev_qc=(prev_rms, prev_t))
    finally:
        shutil.rmtree(tmp, ignore_errors=True)
        stats["scenario_wall"].append([scn["ncv"], scn["ns"], scn["nbatch"], len(scn["ps"]) + len(scn["loky"]),
                                       round(time.time() - t_s, 1)])


def model_worker_status(out):
    """statuses of the workers in a flat model output (see coq/C06/Run.v)."""
    n, i, st = out[4], 5, []
    for _ in range(n):
        st.append(out[i])
        if out[i] == 0:
            nev = out[i + 1]
            i += 2 + 9 * nev
            i += 1 + 4 * out[i]
        elif out[i] == 1:
            i += 2
        else:
            i += 1
    return st


def short_stream(ctx, stats):
    """Malformed stream: recordings shorter than one taper.  The model says the worker cannot
    taper its chunk (WShort); the implementation must raise ValueError, and must not raise on
    the boundary length ns = T."""
    todo = [(1023, 4096, 1), (1000, 2304, 3), (700, 3000, 2), (1024, 4096, 2)]
    if ctx.thorough():
        todo += [(1, 4096, 1), (512, 2100, 1), (1022, 65536, 4), (1025, 2304, 5)]
    model = common.Extracted(PROP).run_many([enc_input(ns, nb, p, 0, False, 0, 9, 2, 8, 0, 0) for ns, nb, p in todo])
    for (ns, nb, p), mo in zip(todo, model):
        scn = {"ns": ns, "nbatch": nb, "ncv": 8, "ns2add": 0, "reject": False, "k_filter": False, "wrot": None,
               "nc_out": None, "dtype": "int16", "sat": False, "seed": 11 + ns, "append": None}
        tmp = common.tmpdir("C06_run_")
        try:
            try:
                binf, data, _ = g_call(ctx, "make_recording", scn, tmp / "src", scn)
                obs = g_observe(ctx, binf, tmp / "o", scn, p, "threading")
            except RunFailure as e:
                obs = {"error": str(e)}
        finally:
            shutil.rmtree(tmp, ignore_errors=True)
        stats["short_stream"] += 1
        m_short = 1 in model_worker_status(mo)
        i_short = obs.get("error", "").startswith("ValueError")
        inp = dict(scn, P=p, kind="short")
        if "error" in obs and not i_short:
            ctx.disagree("short recording: implementation raised %s, model expects ValueError" % obs["error"][:80], inp)
        elif m_short != i_short:
            ctx.disagree("short recording: model says %s, implementation %s"
                         % ("ValueError" if m_short else "ok", obs.get("error", "ok")[:80]), inp)


def no_rms_run(ctx, stats):
    """compute_rms=False (a documented switch), an ordinary case: same output bytes as with
    compute_rms=True, the saturation vector is still produced (same assignments, file = last-writer
    replay), the rms files are not."""
    scn = {"ns": 5000, "nbatch": 3000, "ncv": 8, "ns2add": 3, "reject": False, "k_filter": False, "wrot": None,
           "nc_out": None, "dtype": "int16", "sat": True, "seed": 77, "append": None}
    tmp = common.tmpdir("C06_run_")
    try:
        try:
            binf, data, _ = g_call(ctx, "make_recording", scn, tmp / "src", scn)
        except RunFailure as e:
            ctx.fail("exception: building blocks failed: %s" % e, scn, {"clause": "exception", "ncv": 8})
            return
        a = g_observe(ctx, binf, tmp / "a", scn, 2, "threading")
        b = g_observe(ctx, binf, tmp / "b", dict(scn, compute_rms=False), 2, "threading")
    finally:
        shutil.rmtree(tmp, ignore_errors=True)
    stats["runs"] += 2
    inp = dict(scn, P=2, compute_rms=False)
    tags = {"compute_rms": False, "ncv": 8}

    def fail(what, **kw):
        ctx.fail(what, inp, dict(tags, clause=what.split(":")[0], **kw))

    if "error" in b:
        fail("exception: compute_rms=False: decompress_destripe_cbin raised %s" % b["error"][:160],
             error=b["error"].split(":")[0])
        return
    if "error" in a:
        fail("exception: decompress_destripe_cbin raised %s" % a["error"][:160])
        return
    if not np.array_equal(a["raw"], b["raw"]):
        fail("workers: compute_rms=False output differs from the compute_rms=True output")
    if b["rms_files"]:
        fail("qc: compute_rms=False left rms files behind: %s" % b["rms_files"])
    if b["sat"] is None or b["sat"].shape != (scn["ns"],):
        fail("qc: compute_rms=False: saturation vector missing or of the wrong length")
    else:
        va = {bt["first"]: bt["sat"][3] for w in a["workers"] for bt in w["batches"] if bt.get("sat") is not None}
        ops = sorted((bt["sat"] for w in b["workers"] for bt in w["batches"] if bt.get("sat") is not None),
                     key=lambda o: o[2])
        last = np.zeros(scn["ns"], dtype=bool)
        same = len(ops) == sum(len(w["batches"]) for w in b["workers"])
        for a0, b0, _, vals in ops:
            same = same and vals is not None and a0 in va and np.array_equal(vals, va[a0])
            if vals is not None and vals.shape == (b0 - a0,):
                last[a0:b0] = vals
        if not same or not np.array_equal(last, b["sat"]):
            fail("qc: compute_rms=False: saturation assignments differ from the compute_rms=True run")
    def io_of(o):
        return sorted([(bt["first"], bt["last"], bt.get("out")) for bt in w["batches"]] for w in o["workers"])

    if io_of(a) != io_of(b):
        ctx.disagree("compute_rms=False changes the workers' reads / writes of the output file", inp, tags)


def numpy_sync_sweep(ctx):
    """The sync word's arithmetic path (coq/C06/SyncCast.v) replayed with NumPy on all 65536 int16
    values, with the conversion factors the real Reader has for the sync channel."""
    tmp = common.tmpdir("C06_run_")
    scn = {"ns": 1100, "ncv": 8, "seed": 1, "nbatch": 4096}
    try:
        binf, _, _ = g_call(ctx, "make_recording", scn, tmp / "src", scn)
        s2v = np.asarray(g_call(ctx, "sync_factors", scn, binf))
        one = s2v[-1:]
    except (RunFailure, Exception) as e:
        ctx.disagree("sync cast: the reader's conversion factors could not be obtained (%s)" % e, {"kind": "sync_cast"})
        return 0
    finally:
        shutil.rmtree(tmp, ignore_errors=True)
    r = np.arange(-32768, 32768).astype(np.int16)[:, np.newaxis]
    d = r.astype(np.float32)
    d *= one                                              # Reader.read
    chunk = np.r_[np.zeros((1, r.size)), d.T].T          # joined with the float64 voltage chunk
    out = chunk * (1 / np.r_[s2v[:1], one])               # * intnorm
    ok = (one.dtype == np.float32 and float(one[0]) == 1.0 and out.dtype == np.float64
          and np.array_equal(out[:, 1].astype(np.int16), r[:, 0])
          and np.array_equal(out[:, 1].astype(np.float32), r[:, 0].astype(np.float32)))
    if not ok:
        ctx.disagree("sync cast: the NumPy replay of the modelled path is not the identity on int16 "
                     "(factor dtype %s value %r, product dtype %s)" % (one.dtype, float(one[0]), out.dtype),
                     {"kind": "sync_cast"})
    return 65536


def float_quotient_replay(ctx):
    """C06_float_quotients_exact says what IEEE division gives; that Python's int / int followed by
    int() / np.ceil is that operation is replayed here on operands up to 2^53 (boundary-heavy)."""
    rng = ctx.rng
    n = 0
    for _ in range(20000 if ctx.thorough() else 4000):
        b = rng.choice([rng.randrange(1, 1 << rng.randrange(1, 53)), 65536, 2304, rng.randrange(1, 64)])
        q = rng.randrange(0, (1 << 53) // b)
        a = min((1 << 53) - 1, max(1, q * b + rng.choice([-1, 0, 1, rng.randrange(0, b)])))
        n += 1
        if int(a / b) != a // b or int(np.ceil(a / b)) != -((-a) // b):
            ctx.disagree("float quotient: int(a / b) or int(np.ceil(a / b)) is not the exact floor / ceiling",
                         {"kind": "float_quotient", "a": a, "b": b})
            break
    return n


def run(ctx):
    try:
        return run_inner(ctx)
    finally:
        RUN.stop()        # before interpreter exit: multiprocessing would otherwise wait for the child


def run_inner(ctx):
    os.environ["PYTHONWARNINGS"] = "ignore"       # loky worker processes inherit it
    common.proof_obligations(ctx, whitelist=sorted(common.STDLIB_AXIOMS), coqchk_admit=["IBL.C06.SyncSweep"])
    scns = gen_scenarios(ctx)
    cases, samples = [], []
    stats = {"runs": 0, "runs_threading": 0, "runs_loky": 0, "runs_append": 0, "idle_workers": 0,
             "twice_processed_batches": 0, "P_hist": {}, "scenario_wall": [], "short_stream": 0}
    for s in scns:
        run_scenario(ctx, s, cases, stats, samples)
    short_stream(ctx, stats)
    try:
        no_rms_run(ctx, stats)
    except Exception as e:
        ctx.fail("malformed: compute_rms=False run could not be examined (%s: %s)" % (type(e).__name__, str(e)[:200]),
                 {"compute_rms": False}, {"clause": "malformed", "compute_rms": False})
    stats["float_quotients"] = float_quotient_replay(ctx)
    try:
        stats["sync_sweep"] = numpy_sync_sweep(ctx)
    except Exception as e:
        ctx.disagree("sync cast: NumPy replay failed (%s: %s)" % (type(e).__name__, e), {"kind": "sync_cast"})
        stats["sync_sweep"] = 0
    if ctx.thorough():
        # outside the property's quantifier, kept as a known finding (C06_more_workers_than_samples_refuted):
        # more workers than samples
        over = {"ns": 1024, "nbatch": 4096, "ps": [1025], "ncv": 8, "ns2add": 0, "reject": False, "k_filter": False,
                "wrot": None, "nc_out": None, "dtype": "int16", "sat": False, "seed": 3, "append": None, "loky": []}
        run_scenario(ctx, over, cases, stats, samples)
    inputs = [c[0] for c in cases]
    outs = [c[1] for c in cases]
    common.correspondence(ctx, PROP, HEADER, inputs, outs, lambda i: cases[i][2], n_kernel=8, shard=4)
    nontrivial = {(c[2]["ns"], c[2]["nbatch_run"], c[2]["P"], c[2]["ns2add"], bool(c[2]["append_run"]))
                  for c in cases if c[2]["P"] > 1 and c[1][0] > 1}
    ctx.measurements["max |output - batchwise reference| (LSB), bound 1"] = stats.get("max_lsb_diff_vs_reference", 0)
    ctx.measurements["samples where saturation(raw) != saturation(tapered) in the generated data (must be > 0 for the "
                     "raw-vs-tapered stage to be observable)"] = stats.get("sat_raw_vs_tapered_samples", 0)
    ctx.measurements["saturated samples flagged by the reference (per batch, summed)"] = stats.get("sat_flagged_samples", 0)
    ctx.measurements["samples with > 20% of the channels at their rail (raw counts rule, all runs)"] = stats.get("rail_samples", 0)
    if stats.get("sat_raw_vs_tapered_samples", 0) == 0:
        ctx.disagree("generator: no sample distinguishes saturation(raw) from saturation(tapered)", {"kind": "generator"})
    dist = {"scenarios": len(scns), "runs": stats["runs"], "runs_threading": stats["runs_threading"],
            "runs_loky_processes": stats["runs_loky"], "runs_append": stats["runs_append"],
            "short_recordings_malformed_stream": stats["short_stream"],
            "pre_existing_output": {k[6:]: v for k, v in sorted(stats.items()) if k.startswith("stale_")},
            "float_quotient_pairs_replayed": stats.get("float_quotients", 0),
            "sync_words_replayed_with_numpy": stats.get("sync_sweep", 0),
            "idle_workers_seen": stats["idle_workers"], "batches_processed_twice": stats["twice_processed_batches"],
            "workers_hist": {str(k): v for k, v in sorted(stats["P_hist"].items())},
            "ncv_hist": {str(k): sum(1 for s in scns if s["ncv"] == k) for k in sorted({s["ncv"] for s in scns})},
            "ns_range": [min(s["ns"] for s in scns), max(s["ns"] for s in scns)],
            "nbatch_values": sorted({s["nbatch"] for s in scns}),
            "scenario_wall_s": stats["scenario_wall"]}
    return common.finish(
        ctx, TRUSTED,
        rule="synthetic NP1 recordings (8 / 64 / 384 voltage channels + sync; noise + common mode + spikes + saturated "
             "stretches around batch seams), ns 2049..40000 placed at batch-seam boundaries, nbatch in {2100..9000}, "
             "each destriped by the real decompress_destripe_cbin for several worker counts (threads with observed "
             "per-worker reads/writes; a few runs with real loky processes), with/without append, ns2add, wrot, nc_out, "
             "float32 output, channel rejection, k-filter/CAR; every run is compared with the Coq model's per-worker "
             "events and write map and with a harness-side batch-wise pipeline; non-trivial = more than one worker and "
             "more than one batch; distinct by (ns, nbatch, P, ns2add, append)",
        samples=samples, evaluations=len(cases) + stats["runs_loky"] + stats["short_stream"],
        distinct_nontrivial=len(nontrivial),
        extra={"input_distribution": dist},
        assumptions=["recordings below 2^53 samples (C06_float_quotients_exact)",
                     "equal (batch, local row) descriptors mean equal bytes: the per-batch DSP is deterministic"])


def replay(ctx, data):
    try:
        return replay_inner(ctx, data)
    finally:
        RUN.stop()


def replay_inner(ctx, data):
    inp = data.get("input") or (data.get("correspondence_disagreements") or [{}])[0].get("input")
    if not inp:
        print(json.dumps(data, indent=1)[:3000])
        return 1
    if inp.get("compute_rms") is False:
        stats = {"runs": 0}
        no_rms_run(ctx, stats)
        print("compute_rms=False case; property clauses failing on the implementation:",
              [f["what"] for f in ctx.oracle_failures], [d["what"] for d in ctx.disagreements])
        return 1 if (ctx.oracle_failures or ctx.disagreements) else 0
    scn = {k: inp[k] for k in ("ns", "nbatch", "ncv", "ns2add", "reject", "k_filter", "wrot", "nc_out", "dtype",
                               "sat", "seed", "append")}
    scn["src"], scn["aspath"] = inp.get("src", "bin"), inp.get("aspath", True)
    scn["gains"], scn["slow"], scn["forms"] = inp.get("gains"), inp.get("slow", False), inp.get("forms")
    if "stale" in inp:
        scn["stale_force"] = inp["stale"]
    scn["ps"] = sorted({1, inp.get("P", 1), inp.get("P_ref", 1)})
    scn["loky"] = [inp["P"]] if inp.get("backend") == "loky" else []
    if not inp.get("append_run"):
        scn["append"] = None
    cases, samples = [], []
    stats = {"runs": 0, "runs_threading": 0, "runs_loky": 0, "runs_append": 0, "idle_workers": 0,
             "twice_processed_batches": 0, "P_hist": {}, "scenario_wall": []}
    run_scenario(ctx, scn, cases, stats, samples)
    print("scenario:", scn)
    print("property clauses failing on the implementation:", [f["what"] for f in ctx.oracle_failures])
    ids = common.coq_mismatches(PROP, HEADER, [common.flat_cases_term(i, c[0], c[1]) for i, c in enumerate(cases)],
                                shard=4)
    for i, c in enumerate(cases):
        print("run P=%d: implementation events %s... ; kernel-evaluated model agrees: %s"
              % (c[2]["P"], c[1][:24], i not in ids))
    return 1 if (ctx.oracle_failures or ctx.disagreements or ids) else 0
