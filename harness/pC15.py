"""C15 — bad-channel interpolation / labelling rule / mode over batches.

Proofs in coq/C15 (ordered-field model); correspondence of the model (run at
Qc, exact) against ibldsp.voltage.interpolate_bad_channels,
detect_bad_channels (recommendation block, fed with the implementation's own
feature dictionary) and detect_bad_channels_cbin (mode over batches); property
oracle evaluated directly on the implementation; the statistical detection
clauses are measured on synthetic recordings."""
import json
import os
import math
import re
import warnings

import numpy as np
import scipy.signal

import common

PROP = "C15"
HEADER = "From Coq Require Import ZArith List.\nImport ListNotations.\nFrom IBL.C15 Require Import Run."
TRUSTED = [
    "Coq 8.16.1 kernel + vm_compute (no native_compute); the 14 theorems of Props.v: Closed under the global context; the 2 "
    "real-number theorems of PropsReal.v (coq-interval): standard-library axioms of the classical reals and of the "
    "primitive 63-bit integers (listed per theorem in the evidence)",
    "hand-written model coq/C15/Model.v of interpolate_bad_channels, of the recommendation block of "
    "detect_bad_channels and of the batch mode of detect_bad_channels_cbin, tied to /repo/src by this run's "
    "correspondence; the theorems are about exact arithmetic in an arbitrary ordered field (reals; rationals, "
    "which contain every float), the float rounding of the implementation is only bounded by the 1e-9 comparison",
    "the raw weights exp(-(|pos-pos_i|/kriging)**p) are recomputed by the harness with the NumPy expression of the "
    "source and handed to the model as exact dyadic rationals (the theorems only assume W >= 0)",
    "the features (xcor_hf, xcor_lf, psd_hf) are taken from the implementation's own return value; the filters, "
    "Welch PSD, FFT cross-correlation and median detrend that produce them are outside the model",
    "scipy.stats.mode returns the smallest most frequent value (modelled by `mode`, checked on every run)",
    "scipy.signal.medfilt returns the middle order statistic of each window (modelled by `median`; the nested "
    "detrend() of detect_bad_channels is run against the model on integer vectors on every run)",
    "float64 constants 0.005, 0.02, 1.4, -0.75, -0.5, 1 of the source are written into coq/C15/Run.v as exact "
    "dyadics; this run re-derives them from Python floats",
    "harness/pC15.py generators, canonicaliser, oracles and synthetic recordings",
    "extraction (Require Extraction, ExtrOcamlBasic only; Z, positive, Q, Qc kept as extracted), harness/driver.ml, "
    "ocamlfind ocamlopt; a sample of the same cases is re-evaluated by the kernel (vm_compute)",
]

TOL = 1e-9
OUT_SCALE = 2 ** 32
P_EXP, KRIG = 1.3, 20
R2 = 5201                                              # coq/C15/Model.v R2: floor of the squared crossing distance
R_KEEP = KRIG * (-math.log(0.005)) ** (1 / P_EXP)       # distance at which the raw weight crosses 0.005 (72.13 um)
CONSTS = {"c_0005": (0.005, 5764607523034235, 60), "c_002": (0.02, 5764607523034235, 58),
          "c_14": (1.4, 3152519739159347, 51), "c_m075": (-0.75, -3, 2)}


# axioms the two theorems of coq/C15/PropsReal.v may depend on: the standard library's classical reals and the
# kernel's primitive 63-bit integers with their specification (coq-interval computes with them)
REAL_AXIOMS = sorted(common.STDLIB_AXIOMS) + ["PrimInt63." + n for n in (
    "add addc addcarryc addmuldiv compare div diveucl diveucl_21 eqb head0 int land leb lor lsl lsr ltb lxor mod "
    "mul mulc sub subc subcarryc tail0").split()] + ["Uint63." + n for n in (
    "add_spec addc_def_spec addcarryc_def_spec addmuldiv_def_spec compare_def_spec div_spec diveucl_21_spec "
    "diveucl_def_spec eqb_correct eqb_refl head0_spec land_spec leb_spec lor_spec lsl_spec lsr_spec ltb_spec "
    "lxor_spec mod_spec mul_spec mulc_spec of_to_Z sub_spec subc_def_spec subcarryc_def_spec tail0_spec").split()]


def V():
    from ibldsp import voltage
    return voltage


# ---------------------------------------------------------------------------
# numbers
# ---------------------------------------------------------------------------
def dy(v):
    """float -> (m, k) with v == m / 2**k exactly."""
    m, d = float(v).as_integer_ratio()
    k = d.bit_length() - 1
    if abs(m) >= 2 ** 61:      # huge magnitude: use a negative k
        sh = (abs(m).bit_length() - 60)
        assert m % (1 << sh) == 0, "float with more than 60 significant bits?"
        return m >> sh, k - sh
    return m, k


def feat_triple(v):
    v = float(v)
    if math.isnan(v):
        return [0, 0, 0]
    if math.isinf(v):
        return [1, 1 if v > 0 else -1, -1020]
    m, k = dy(v)
    return [1, m, k]


def r_keep(p=P_EXP, krig=KRIG):
    """distance at which exp(-(d/krig)**p) crosses 0.005"""
    return krig * (-math.log(0.005)) ** (1 / p)


def raw_weights(x, y, i, p=P_EXP, krig=KRIG):
    """The source's expression, evaluated by NumPy (float64)."""
    offset = np.abs(x - x[i] + 1j * (y - y[i]))
    return np.exp(-((offset / krig) ** p))


# ---------------------------------------------------------------------------
# geometries
# ---------------------------------------------------------------------------
def headers():
    import neuropixel
    hs = {"NP1": neuropixel.trace_header(version=1), "NP2": neuropixel.trace_header(version=2),
          "NP2_4shank": neuropixel.trace_header(version=2, nshank=4),
          "NPultra": neuropixel.trace_header(version="NPultra")}
    return {k: (np.asarray(h["x"]), np.asarray(h["y"])) for k, h in hs.items()}


SHANK_PITCH = 250          # um between the shanks of an NP2.4 probe (coq/C15/Geo.v SHANK_PITCH)


def far_sources_4shank(labels, srcs):
    """'nearby' on the physical 4-shank probe: (i, shank_i, j, shank_j, distance) of a source beyond the range."""
    import neuropixel
    h = neuropixel.trace_header(version=2, nshank=4)
    px = np.asarray(h["x"], dtype=float) + SHANK_PITCH * np.asarray(h["shank"], dtype=float)
    py = np.asarray(h["y"], dtype=float)
    bads = [i for i, l in enumerate(labels) if l in (1, 2)]
    for i, sl in zip(bads, srcs):
        for j in sl:
            dd = math.hypot(px[j] - px[i], py[j] - py[i])
            if dd > R_KEEP * (1 + 1e-9):
                return (i, int(h["shank"][i]), j, int(h["shank"][j]), int(round(dd)))
    return None


def destripe_4shank(ctx, st):
    """The public path: destripe(x, fs, h=<4-shank header>, channel_labels=...) hands h['x'], h['y'] to
    interpolate_bad_channels; the row it computes for a dead channel of shank 0 must stay within the range of
    the physically near usable channels."""
    import neuropixel
    voltage = V()
    h = neuropixel.trace_header(version=2, nshank=4)
    nc, ns, fs = 384, 1024, 30000
    t = np.arange(ns) / fs
    x = np.zeros((nc, ns))
    for k in (1, 2, 3):                      # shanks 1..3 carry a 1 kHz tone, shank 0 is flat
        x[np.asarray(h["shank"]) == k] = 100e-6 * k * np.sin(2 * np.pi * 1000 * t)
    lab = np.zeros(nc)
    lab[0] = 1
    seen = []
    orig = voltage.interpolate_bad_channels

    def spy(data, channel_labels=None, x=None, y=None, **kw):
        before = np.array(data)
        out = orig(data, channel_labels, x, y, **kw)
        seen.append((before, np.array(out), np.array(x), np.array(y)))
        return out
    voltage.interpolate_bad_channels = spy
    d = {"op": "destripe-4shank", "dead_channel": 0}
    try:
        with warnings.catch_warnings():
            warnings.simplefilter("ignore")
            voltage.destripe(x.copy(), fs, h=h, neuropixel_version=2, channel_labels=lab, k_filter=False)
    except Exception as e:
        ctx.disagree("destripe raised %r on the 4-shank header" % (e,), d, {"op": "interp"})
        return
    finally:
        voltage.interpolate_bad_channels = orig
    st.evals += 1
    st.count("destripe_4shank_path")
    if len(seen) != 1 or bad_array(seen[0][1], (nc, ns)) or bad_array(seen[0][0], (nc, ns)):
        ctx.disagree("destripe did not call interpolate_bad_channels once on the (nc, ns) array", d, {"op": "interp"})
        return
    before, after, hx, hy = seen[0]
    px = np.asarray(h["x"], dtype=float) + SHANK_PITCH * np.asarray(h["shank"], dtype=float)
    py = np.asarray(h["y"], dtype=float)
    near = np.hypot(px - px[0], py - py[0]) <= R_KEEP
    near[0] = False
    lo, hi = before[near].min(axis=0), before[near].max(axis=0)
    tol = 1e-9 * max(1e-12, float(np.abs(before).max()))
    ctx.measurements["destripe_4shank_dead_channel_rms_uV_while_its_own_shank_is_flat"] = float(
        1e6 * np.sqrt(np.mean(after[0] ** 2)))
    if np.any(after[0] < lo - tol) or np.any(after[0] > hi + tol):
        ctx.fail("destripe on the 4-shank header: dead channel 0 (shank 0) leaves the range of the usable channels "
                 "within the kriging range on its own shank - it is filled from the other shanks", d,
                 {"op": "interp", "kind": "nearby", "geom": "NP2_4shank"})


def small_geometries(rng, hs, nc):
    g = []
    for name, (x, y) in hs.items():
        if name == "NP2_4shank":
            continue
        g.append((name + "[:%d]" % nc, x[:nc].copy(), y[:nc].copy()))
    for sp in (20, 72, 73, 80):
        g.append(("line%d" % sp, np.zeros(nc, dtype=np.int64), np.arange(nc) * float(sp)))
    # three sites at the same place next to sites 72 um away: a retained weight (0.00506) that is tiny after normalisation
    g.append(("near_far", np.zeros(nc, dtype=np.int64), np.array([0.0, 0.0, 0.0, 72.0, 72.0, 72.0, 144.0][:nc])))
    g.append(("random", np.array([rng.randrange(0, 90) for _ in range(nc)], dtype=np.int64),
              np.array([float(rng.randrange(0, 120)) for _ in range(nc)])))
    xs = [rng.randrange(0, 40) for _ in range(nc)]
    ys = [float(rng.randrange(0, 40)) for _ in range(nc)]
    if nc >= 2:
        xs[-1], ys[-1] = xs[0], ys[0]         # two sites at the same place (distance 0)
    g.append(("duplicate", np.array(xs, dtype=np.int64), np.array(ys)))
    return g


def label_vectors_384(rng, nc=384):
    lab = [0] * nc
    kind = rng.random()
    if kind < 0.04:
        return [rng.choice([1, 2]) for _ in range(nc)][:nc] if rng.random() < 0.5 else lab
    top = rng.choice([0, 0, 1, 2, 5, 12, 40, rng.randrange(0, 60)])
    for i in range(nc - top, nc):
        lab[i] = 3
    ncl = rng.choice([1, 2, 3, 5, 8])
    for _ in range(ncl):
        # small clusters, and now and then a whole faulty bank (wider than the kriging range on every probe)
        size = rng.choice([1, 1, 2, 3, 4, 6, 9, 15, 16, 19, 20, 40, 200])
        start = rng.choice([0, 1, nc - size, nc - size - 1, nc - top - size // 2 - 1,
                            rng.randrange(0, nc), rng.randrange(0, nc), rng.randrange(0, nc)])
        for i in range(max(0, start), min(nc, start + size)):
            lab[i] = rng.choice([1, 2])
    if rng.random() < 0.2:                     # a few stray outside labels inside the probe
        for _ in range(rng.randrange(1, 5)):
            lab[rng.randrange(nc)] = 3
    return lab


# ---------------------------------------------------------------------------
# interpolate: implementation run, oracle, encoding
# ---------------------------------------------------------------------------
def explain(e, name):
    return str(e) if isinstance(e, BadReturn) else "%s raised %r" % (name, e)


class BadReturn(Exception):
    """The implementation returned something that is not what the property's observation point promises."""


def bad_array(a, shape, dtype=None, kinds=None):
    """None if `a` is an ndarray of this shape (and dtype / dtype kind); else a description."""
    if not isinstance(a, np.ndarray):
        return "%s instead of an array" % type(a).__name__
    if tuple(a.shape) != tuple(shape):
        return "an array of shape %s instead of %s" % (tuple(a.shape), tuple(shape))
    if dtype is not None and a.dtype != np.dtype(dtype):
        return "an array of dtype %s instead of %s" % (a.dtype, np.dtype(dtype))
    if kinds is not None and a.dtype.kind not in kinds:
        return "an array of dtype %s" % a.dtype
    return None


def checked_detect_return(ret, nc):
    """(labels, features) as the property's observation point promises, else BadReturn."""
    if not (isinstance(ret, tuple) and len(ret) == 2):
        raise BadReturn("detect_bad_channels returned %s instead of (labels, features)" % type(ret).__name__)
    lab, feats = ret
    why = bad_array(lab, (nc,), kinds="fiu")
    if why:
        raise BadReturn("detect_bad_channels returned labels: " + why)
    if not isinstance(feats, dict):
        raise BadReturn("detect_bad_channels returned features: %s instead of a dict" % type(feats).__name__)
    for key in ("xcor_hf", "xcor_lf", "psd_hf"):
        if key not in feats:
            raise BadReturn("detect_bad_channels features lack %r" % key)
        why = bad_array(feats[key], (nc,), kinds="f")
        if why:
            raise BadReturn("detect_bad_channels feature %s: %s" % (key, why))
    return lab, feats


def call_detect(x, fs, fn=None, **kw):
    """detect_bad_channels on x (nc, ns); the input must come back unmodified."""
    fn = fn or V().detect_bad_channels
    x = np.asarray(x)
    keep = x.copy()
    ret = fn(x, fs, **kw)
    if not np.array_equal(x, keep, equal_nan=True):
        raise BadReturn("detect_bad_channels modified its input array")
    return checked_detect_return(ret, x.shape[0])


def call_cbin(arg, nc, **kw):
    out = V().detect_bad_channels_cbin(arg, **kw)
    why = bad_array(out, (nc,), kinds="fiu")
    if why:
        raise BadReturn("detect_bad_channels_cbin returned " + why)
    return out


def impl_interp(x, y, labels, data, dtype, label_float, layout="C", p=P_EXP, krig=KRIG):
    """layout: C-contiguous array, Fortran-ordered array, or a strided view into a wider array (the columns
    in between must stay untouched); coordinates as given or as float arrays."""
    lab = np.array(labels, dtype=np.float64 if label_float else np.int64)
    d = np.array(data, dtype=dtype)
    wide = None
    if layout == "F":
        arg = np.asfortranarray(d)
    elif layout == "view":
        wide = np.full((d.shape[0], 2 * d.shape[1] + 1), 77, dtype=d.dtype)
        wide[:, 1::2] = d
        arg = wide[:, 1::2]
    else:
        arg = d.copy()
    if layout == "floatxy":
        x, y = np.asarray(x, dtype=np.float64), np.asarray(y, dtype=np.float32)
    with warnings.catch_warnings():
        warnings.simplefilter("ignore")        # 0/0 when a channel has no neighbour left
        kw = {} if (p, krig) == (P_EXP, KRIG) else {"p": p, "kriging_distance_um": krig}
        out = V().interpolate_bad_channels(arg, channel_labels=lab, x=x, y=y, **kw)
    why = bad_array(out, d.shape, d.dtype)
    if why:
        raise BadReturn("interpolate_bad_channels returned " + why)
    out = np.array(out)
    if wide is not None and not (np.all(wide[:, 0::2] == 77) and np.array_equal(wide[:, 1::2], out, equal_nan=True)):
        raise BadReturn("strided view: columns outside the view were written or the view was not updated")
    return out


REL64 = 2.0 ** -40        # float64 data: a weighted sum of n <= 384 terms is exact to (n + 2) * 2^-53 relative


def dtype_tol(dtype, scale):
    """Tolerance of the range clause.  The weights are float64 and sum to one within n * 2^-53, the weighted sum is
    formed in float64: relative error below 2^-40 of the largest source value.  float64 data: 2^-40 * scale.
    float32 data: the float64 sum is rounded into the float32 array; a value at most 2^-40 (relative) outside
    [lo, hi] with float32 bounds rounds to lo / hi, so the range holds EXACTLY (and where all sources hold the same
    value v the result is exactly v).  Integer arrays: the float result is truncated into the array: one unit."""
    dt = np.dtype(dtype)
    if dt.kind in "iu":
        return 1.0
    return REL64 * scale if dt == np.float64 else 0.0


def model_tol(dtype, value, scale):
    """|implementation - exact model value|: float64 2^-40 relative to the largest input; float32 additionally
    one rounding into float32 (2^-24 relative to the value); integers one unit."""
    dt = np.dtype(dtype)
    if dt.kind in "iu":
        return 1.0
    return REL64 * scale + (0.0 if dt == np.float64 else 2.0 ** -24 * abs(value))


def oracle_interp(x, y, labels, data, out, dtype, p=P_EXP, krig=KRIG):
    """Property predicate on the implementation's output (no model involved)."""
    bad = []
    lab = np.asarray(labels)
    d = np.array(data, dtype=dtype)
    nc = len(labels)
    if out.shape != d.shape:
        return ["output shape %s differs from input shape %s" % (out.shape, d.shape)]
    isbad = (lab == 1) | (lab == 2)
    if not np.array_equal(out[~isbad].view(np.uint8), d[~isbad].view(np.uint8)):
        bad.append("a channel not labelled dead/noisy was modified")
    scale = max(1.0, float(np.max(np.abs(d), initial=0)))
    tol = dtype_tol(dtype, scale)
    for i in np.flatnonzero(isbad):
        dist = np.hypot(np.asarray(x, dtype=float) - float(x[i]), np.asarray(y, dtype=float) - float(y[i]))
        near = (~isbad) & (dist <= r_keep(p, krig) * (1 + 1e-9))
        surely = (~isbad) & (dist <= r_keep(p, krig) * (1 - 1e-9))
        if not near.any():
            if np.any(out[i] != 0):
                bad.append("isolated bad channel %d is not zeroed" % i)
        elif surely.any():
            lo, hi = d[near].min(axis=0), d[near].max(axis=0)
            if np.any(out[i] < lo - tol) or np.any(out[i] > hi + tol):
                bad.append("repaired channel %d leaves the range of its good/outside neighbours" % i)
    return bad


def oracle_weights(x, y, labels, p=P_EXP, krig=KRIG):
    """Read the linear map off the implementation with identity data: row i of the
    output is the weight vector applied to channel i."""
    bad = []
    nc = len(labels)
    lab = np.asarray(labels)
    isbad = (lab == 1) | (lab == 2)
    with warnings.catch_warnings():
        warnings.simplefilter("ignore")
        kw = {} if (p, krig) == (P_EXP, KRIG) else {"p": p, "kriging_distance_um": krig}
        out = V().interpolate_bad_channels(np.eye(nc), channel_labels=lab.astype(float), x=x, y=y, **kw)
    why = bad_array(out, (nc, nc), np.float64)
    if why:
        raise BadReturn("interpolate_bad_channels returned " + why)
    for i in np.flatnonzero(isbad):
        w = out[i]
        dist = np.hypot(np.asarray(x, dtype=float) - float(x[i]), np.asarray(y, dtype=float) - float(y[i]))
        if np.any(w < 0) or np.any(np.isnan(w)):
            bad.append("negative or NaN weight for channel %d" % i)
        if np.any(w[isbad] != 0):
            bad.append("channel %d is repaired from a dead/noisy channel" % i)
        if np.any(w[dist > r_keep(p, krig) * (1 + 1e-9)] != 0):
            bad.append("channel %d is repaired from a channel beyond the kriging range" % i)
        s = float(w.sum())
        has = bool(((~isbad) & (dist <= r_keep(p, krig) * (1 - 1e-9))).any())
        if has and abs(s - 1) > 1e-12:
            bad.append("weights of channel %d sum to %.6g, not 1" % (i, s))
        if not has and not (abs(s - 1) <= 1e-12 or s == 0):
            bad.append("weights of channel %d sum to %.6g" % (i, s))
    for i in np.flatnonzero(~isbad):
        e = np.zeros(nc)
        e[i] = 1
        if not np.array_equal(out[i], e):
            bad.append("channel %d (not dead/noisy) is not passed through" % i)
    srcs = [[int(j) for j in np.flatnonzero(out[i] != 0)] for i in np.flatnonzero(isbad)]
    return bad, srcs


def check_weight_cut(ctx, name, x, y, seen):
    """Hypothesis `weight_by_distance` of theorems 10/11 on this geometry: the raw weight of the source's
    expression is >= 0 and is < 0.005 exactly when the (integer) squared distance exceeds R2 = 5201."""
    key = (x.tobytes(), y.tobytes())
    if key in seen:
        return
    seen.add(key)
    xi, yi = [int(v) for v in x], [int(round(float(v))) for v in y]
    if any(float(a) != b for a, b in zip(y, yi)):
        return
    for i in range(len(xi)):
        w = raw_weights(x, y, i)
        d2 = np.array([(a - xi[i]) ** 2 + (b - yi[i]) ** 2 for a, b in zip(xi, yi)])
        if np.any(w < 0) or not np.array_equal(w < 0.005, d2 > R2):
            ctx.disagree("raw weights do not cross 0.005 at squared distance %d on geometry %s" % (R2, name),
                         {"op": "weight-cut", "geom": name, "channel": i}, {"op": "geo"})
            return


def enc_interp(x, y, labels, data_int, kd, p=P_EXP, krig=KRIG):
    nc = len(labels)
    ns = len(data_int[0]) if nc else 0
    inp = [1, nc, ns, kd] + [int(l) for l in labels]
    bads = [i for i, l in enumerate(labels) if l in (1, 2)]
    inp.append(len(bads))
    for i in bads:
        for w in raw_weights(x, y, i, p, krig):
            inp.extend(dy(w))
    for row in data_int:
        inp.extend(int(v) for v in row)
    return inp


def compare_interp(model_out, out, labels, scale, dtype):
    """model floor(v*2^32) vs implementation floats. Returns None or a message."""
    flat = np.asarray(out, dtype=np.float64).reshape(-1)
    if len(model_out) != flat.size:
        return "model output has %d values, implementation %d" % (len(model_out), flat.size)
    ns = out.shape[1] if out.ndim == 2 else 0
    for k, (mv, iv) in enumerate(zip(model_out, flat)):
        r = k // ns if ns else 0
        if labels[r] in (1, 2):
            if not (abs(mv / OUT_SCALE - iv) <= model_tol(dtype, mv / OUT_SCALE, scale) + 2.0 / OUT_SCALE):
                return "row %d sample %d: model %.12g, implementation %.12g" % (r, k % ns, mv / OUT_SCALE, iv)
        else:
            if iv * OUT_SCALE != mv:
                return "untouched row %d sample %d: model %r/2^32, implementation %r" % (r, k % ns, mv, iv)
    return None


def kernel_runs(inputs):
    """Evaluate `run` on each flat input with the kernel (vm_compute); list of int lists."""
    if not inputs:
        return []
    outs = []
    shard = 40
    for s in range(0, len(inputs), shard):
        txt = HEADER + "\nOpen Scope Z_scope.\nSet Printing Width 1000000.\nSet Printing Depth 1000000.\n"
        for inp in inputs[s:s + shard]:
            txt += "Eval vm_compute in run %s.\n" % common.czlist(inp)
        res = common.coq_run_file(PROP, txt)
        blocks = re.findall(r"=\s*(\[.*?\]|nil)\s*:\s*list", res, re.S)
        if len(blocks) != len(inputs[s:s + shard]):
            raise RuntimeError("cannot parse kernel output: " + res[-1500:])
        for b in blocks:
            outs.append([] if b == "nil" else [int(v) for v in re.findall(r"-?\d+", b)])
    return outs


class Stats:
    def __init__(self):
        self.evals = 0
        self.nontrivial = set()
        self.dist = {}
        self.samples = []

    def count(self, k, n=1):
        self.dist[k] = self.dist.get(k, 0) + n


def part_interp(ctx, st, model):
    rng = ctx.rng
    hs = headers()
    cases = []          # dict(name,x,y,labels,data_int,kd,dtype,label_float)

    def add(name, x, y, labels, ns=None, dtype=None, kd=None):
        nc = len(labels)
        ns = ns if ns is not None else rng.choice([1, 2, 3])
        kd_given = kd
        kd = kd if kd is not None else rng.choice([0, 0, 0, 3])
        data = [[rng.choice([0, 1, -1, 500, -500, rng.randrange(-500, 501), rng.randrange(-500, 501)])
                 for _ in range(ns)] for _ in range(nc)]
        common_mode = False
        if rng.random() < 0.2:
            # common-mode samples: every channel reads the same value (transient on all channels, all at the rail),
            # or a large offset with one unit of noise: the admissible range is a single value / one float32 ulp
            for t in range(ns):
                v = rng.choice([1, 3, -7, 500, 12345, 8388607, -8388607, 16777215, 5000001, rng.randrange(1, 10 ** 7)])
                if dtype == "int16":
                    v = max(-30000, min(30000, v))
                jit = rng.random() < 0.3
                for j in range(nc):
                    if labels[j] not in (1, 2):
                        data[j][t] = v - (rng.randrange(2) if jit else 0)
            if kd_given is None:
                kd = rng.choice([0, 0, 10, 23])
            common_mode = True
        cases.append({"geom": name, "x": x, "y": y, "labels": list(labels), "data_int": data, "kd": kd,
                      "dtype": dtype or "float64", "label_float": rng.random() < 0.5,
                      "layout": rng.choice(["C", "C", "C", "F", "view", "floatxy"]),
                      # the decay exponent and the kriging distance are parameters of the function
                      "p": P_EXP if rng.random() < 0.88 else rng.choice([0.5, 1.0, 2.0, 1.3]),
                      "krig": KRIG if rng.random() < 0.88 else rng.choice([10, 40, 20.5, 20]),
                      "common_mode": common_mode})

    # (a) every label vector over {0,1,2,3} on small probes
    nmax_exh = 7 if ctx.thorough() else 5
    for nc in range(1, 8):
        geoms = small_geometries(rng, hs, nc)
        if nc <= nmax_exh:
            if not ctx.thorough() and nc == 5:
                geoms = geoms[:1] + rng.sample(geoms[1:], 2)
            if ctx.thorough() and nc == 7:
                geoms = geoms[:2] + rng.sample(geoms[2:], 2)
            for (name, x, y) in geoms:
                for code in range(4 ** nc):
                    add(name, x, y, [(code >> (2 * j)) & 3 for j in range(nc)])
            st.count("geometries_with_exhaustive_label_space_nc%d" % nc, len(geoms))
        else:
            for (name, x, y) in geoms:
                for _ in range(120 if ctx.thorough() else 60):
                    add(name, x, y, [rng.choice([0, 0, 1, 2, 3]) for _ in range(nc)])
    # (b) 384-channel probes, the four trace headers
    n384 = 40 if ctx.thorough() else 6
    for name, (x, y) in hs.items():
        for j in range(n384):
            add(name, x, y, label_vectors_384(rng), ns=rng.choice([1, 2, 4]),
                dtype=["float64", "float64", "float32", "int16", "float64", "int32"][j % 6], kd=0)
    # float32 and integer-typed data on a few small ones (an integer array receives the truncated float result)
    for c in rng.sample(cases[:2000], 200):
        c2 = dict(c)
        c2["dtype"] = "float32"
        cases.append(c2)
    for c in rng.sample(cases[:2000], 300):
        c2 = dict(c)
        c2["dtype"] = rng.choice(["int32", "int64"] if c.get("common_mode") else ["int16", "int32", "int64"])
        c2["kd"] = 0
        cases.append(c2)

    # float32 (the dtype spikeglx.Reader delivers) on common-mode samples, small probes and the 384-channel headers
    cm = [c for c in cases if c.get("common_mode") and c["dtype"] == "float64"]
    for c in rng.sample(cm, min(len(cm), 400)) + [c for c in cm if len(c["labels"]) == 384]:
        c2 = dict(c)
        c2["dtype"] = "float32"
        cases.append(c2)
    inputs, outs, keep = [], [], []
    weight_checked = set()
    cut_checked = set()
    geo_in, geo_out, geo_desc = [], [], []
    for c in cases:
        x, y, labels = c["x"], c["y"], c["labels"]
        scale_f = 2.0 ** (-c["kd"])
        data = [[v * scale_f for v in row] for row in c["data_int"]]
        d = describe_interp(c)
        try:
            out = impl_interp(x, y, labels, data, c["dtype"], c["label_float"], c["layout"], c["p"], c["krig"])
        except Exception as e:
            ctx.fail(str(e) if isinstance(e, BadReturn) else "interpolate_bad_channels raised %r" % (e,), d,
                     {"op": "interp", "kind": "exception"})
            continue
        default_par = (c["p"], c["krig"]) == (P_EXP, KRIG)
        for b in oracle_interp(x, y, labels, data, out, c["dtype"], c["p"], c["krig"]):
            ctx.fail(b, d, {"op": "interp", "kind": b.split()[0]})
        key = (c["geom"], tuple(labels), x.tobytes(), y.tobytes(), c["p"], c["krig"])
        if key not in weight_checked:
            weight_checked.add(key)
            try:
                wbad, srcs = oracle_weights(x, y, labels, c["p"], c["krig"])
                for b in wbad:
                    ctx.fail(b, d, {"op": "interp", "kind": "weights"})
                if c["geom"] == "NP2_4shank" and default_par:
                    far = far_sources_4shank(labels, srcs)
                    if far:
                        ctx.fail("4-shank header: channel %d (shank %d) is repaired from channel %d on shank %d, "
                                 "%d um away (the header's x is local to each shank)" % far, d,
                                 {"op": "interp", "kind": "nearby", "geom": "NP2_4shank"})
                # geometry model (op 5): the channels each dead/noisy channel is repaired from, read off the
                # implementation with identity data, against {not dead/noisy, squared distance <= 5201}
                if srcs and default_par and all(float(v) == int(v) for v in y):
                    check_weight_cut(ctx, c["geom"], x, y, cut_checked)
                    geo_in.append([5, len(labels)] + [int(l) for l in labels] + [int(v) for v in x] +
                                  [int(v) for v in y])
                    geo_out.append([v for sl in srcs for v in [len(sl)] + sl])
                    geo_desc.append({"op": "geo", "geom": c["geom"], "x": [int(v) for v in x],
                                     "y": [float(v) for v in y], "labels": list(labels)})
                    st.count("geo_source_sets")
            except Exception as e:
                ctx.fail("interpolate_bad_channels raised %r on identity data" % (e,), d,
                         {"op": "interp", "kind": "exception"})
            st.evals += 1
        inputs.append(enc_interp(x, y, labels, c["data_int"], c["kd"], c["p"], c["krig"]))
        if not default_par:
            st.count("interp_nondefault_p_or_kriging")
        outs.append(out)
        keep.append(c)
        st.evals += 1
        nbad = sum(l in (1, 2) for l in labels)
        st.count("interp_nc%s" % (len(labels) if len(labels) < 384 else "384:" + c["geom"]))
        st.count("interp_" + c["dtype"])
        st.count("interp_layout_" + c["layout"])
        if c.get("common_mode"):
            st.count("interp_common_mode_" + c["dtype"])
        if nbad:
            st.nontrivial.add(("interp", key[0], key[1], key[2], key[3]))
            st.count("interp_with_bad")
            if nbad == len(labels):
                st.count("interp_all_bad")
            if labels[0] in (1, 2) or labels[-1] in (1, 2):
                st.count("interp_bad_at_probe_end")
            if any(a in (1, 2) and b in (1, 2) for a, b in zip(labels, labels[1:])):
                st.count("interp_adjacent_bad_cluster")
    common.correspondence(ctx, PROP, HEADER, geo_in, geo_out, lambda i: geo_desc[i], n_kernel=30, shard=15)
    ctx.coverage["geo_model_evaluations"] = len(geo_in)
    mouts = model.run_many(inputs, nproc=4)
    for c, mo, out in zip(keep, mouts, outs):
        scale = max(1.0, max((abs(v) for r in c["data_int"] for v in r), default=0) * 2.0 ** (-c["kd"]))
        msg = compare_interp(mo, out, c["labels"], scale, c["dtype"])
        if msg:
            ctx.disagree("interpolate_bad_channels vs model: " + msg, describe_interp(c), {"op": "interp"})
    # kernel re-evaluation of a sample of small cases
    small = [i for i, c in enumerate(keep) if len(inputs[i]) < 400]
    pick = small[:10] + rng.sample(small, min(len(small), 50))
    kout = kernel_runs([inputs[i] for i in pick])
    for i, ko in zip(pick, kout):
        if ko != mouts[i]:
            ctx.disagree("kernel-evaluated model differs from the extracted model", describe_interp(keep[i]),
                         {"op": "interp"})
    ctx.coverage["interp_model_evaluations_extracted"] = len(inputs)
    ctx.coverage["interp_model_evaluations_kernel"] = len(pick)
    for c in (keep[5:6] + keep[len(keep) // 2:len(keep) // 2 + 1]):
        d = describe_interp(c)
        if len(d["labels"]) > 12:
            d = {"op": "interp", "geom": d["geom"], "nc": len(d["labels"]),
                 "bad_channels": [i for i, l in enumerate(d["labels"]) if l in (1, 2)][:20], "dtype": d["dtype"]}
        st.samples.append(d)

    destripe_4shank(ctx, st)
    # (c) implementation-only stream: non-finite values must not leak from channels that are not sources
    for name, (x, y) in hs.items():
        for _ in range(6 if ctx.thorough() else 2):
            labels = label_vectors_384(rng)
            lab = np.asarray(labels)
            isbad = (lab == 1) | (lab == 2)
            if not isbad.any() or isbad.all():
                continue
            d0 = np.array([[float(rng.randrange(-500, 501)) for _ in range(3)] for _ in range(384)])
            far = np.ones(384, dtype=bool)
            for i in np.flatnonzero(isbad):
                far &= np.hypot(x - x[i], y - y[i]) > R_KEEP * 1.01
            poison = np.flatnonzero(far & ~isbad)
            d1 = d0.copy()
            d1[isbad] = np.nan                     # the bad rows themselves hold garbage
            if poison.size:
                d1[rng.choice(list(poison))] = np.inf
            dd = {"op": "interp-nonfinite", "geom": name, "labels": labels}
            try:
                with warnings.catch_warnings():
                    warnings.simplefilter("ignore")
                    o0 = V().interpolate_bad_channels(d0.copy(), np.asarray(labels, dtype=float), x, y)
                    o1 = V().interpolate_bad_channels(d1.copy(), np.asarray(labels, dtype=float), x, y)
                for o in (o0, o1):
                    why = bad_array(o, d0.shape, d0.dtype)
                    if why:
                        raise BadReturn("interpolate_bad_channels returned " + why)
            except Exception as e:
                ctx.fail("interpolate_bad_channels raised %r" % (e,), dd, {"op": "interp", "kind": "exception"})
                continue
            if not np.array_equal(o0[isbad], o1[isbad]):
                ctx.fail("repaired channels depend on the content of dead/noisy or far-away channels", dd,
                         {"op": "interp", "kind": "nonfinite"})
            st.evals += 1
            st.count("interp_nonfinite_stream")


def describe_interp(c):
    return {"op": "interp", "geom": c["geom"], "x": [int(v) for v in c["x"]], "y": [float(v) for v in c["y"]],
            "labels": c["labels"], "data_int": c["data_int"], "kd": c["kd"], "dtype": c["dtype"],
            "label_float": c["label_float"], "layout": c.get("layout", "C"), "p": c.get("p", P_EXP),
            "krig": c.get("krig", KRIG)}


# ---------------------------------------------------------------------------
# synthetic recordings
# ---------------------------------------------------------------------------
def background(seed, nc, ns, fs, common_amp=20e-6, indep=5e-6):
    """Coherent background: one band-limited common signal on every channel plus weak independent noise."""
    rs = np.random.default_rng(seed)
    lo = 300 if fs > 2600 else 2
    hi = min(5000, fs / 2 * 0.5)
    sos = scipy.signal.butter(3, [lo / fs * 2, hi / fs * 2], btype="bandpass", output="sos")
    c = scipy.signal.sosfiltfilt(sos, rs.standard_normal(ns + 2000))[1000:-1000]
    c = c / np.std(c) * common_amp
    return np.tile(c, (nc, 1)) + rs.standard_normal((nc, ns)) * indep, rs


# ---------------------------------------------------------------------------
# recommendation block of detect_bad_channels
# ---------------------------------------------------------------------------
def enc_rule(nc, fs, user_psd, sim, feats):
    fm, fk = dy(fs)
    inp = [2, nc, fm, fk]
    inp += [0, 0, 0] if user_psd is None else [1] + list(dy(user_psd))
    inp += list(dy(sim[0])) + list(dy(sim[1]))
    for key in ("xcor_hf", "xcor_lf", "psd_hf"):
        for v in np.asarray(feats[key], dtype=np.float64):
            inp += feat_triple(v)
    return inp


def random_recording(rng, k):
    """Small structured recordings: blocks without the common signal anywhere (also at the top),
    silent channels, noisy channels, anti-phase channels, constant reference (NaN features)."""
    fs = rng.choice([30000, 30000, 30000, 2500, 2600, 2601, 2599.5])
    nc = rng.choice([1, 2, 3, 5, 11, 12, 13, 24, 32, 48, 64, 96])
    ns = rng.choice([256, 512, 1024, 2048])
    x, rs = background(rng.randrange(1 << 30), nc, ns, fs, indep=rng.choice([3e-6, 5e-6, 5e-6, 8e-6, 8e-6, 60e-6]))
    kind = rng.random()
    if kind < 0.05:
        x[:] = 0                                            # flat: reference has no energy -> NaN
    nb = rng.choice([0, 1, 1, 2, 3])
    for _ in range(nb):                                     # incoherent blocks, some ending at the last channel
        size = rng.choice([1, 2, 3, 6, 7, 12, rng.randrange(1, max(2, nc // 2))])
        start = rng.choice([nc - size, nc - size, nc - size - 1, 0, rng.randrange(0, nc)])
        a, b = max(0, start), min(nc, start + size)
        if b > a:
            x[a:b] = rs.standard_normal((b - a, ns)) * rng.choice([5e-6, 20e-6])
    for _ in range(rng.choice([0, 1, 2, 4])):
        i = rng.randrange(nc)
        f = rng.random()
        if f < 0.35:
            x[i] = 0
        elif f < 0.7:
            x[i] += rs.standard_normal(ns) * rng.choice([30e-6, 100e-6, 400e-6])
        elif f < 0.85:
            x[i] = -x[i]
        else:
            x[i] = x[i] * rng.choice([0.3, 3.0])
    return x, fs


def part_rule(ctx, st, model):
    rng = ctx.rng
    n = 600 if ctx.thorough() else 110
    inputs, outs, descs = [], [], []
    label_hist = {0: 0, 1: 0, 2: 0, 3: 0}
    ends = {"recordings": 0, "xcor_hf_first_and_last_exactly_zero": 0}
    def handle(nc, fs, seed_desc, up, sim, lab, feats, steered):
        lab = np.asarray(lab)
        if lab.shape != (nc,) or not np.all(np.isin(lab, [0, 1, 2, 3])):
            ctx.fail("labels are not a vector over {0,1,2,3}", seed_desc, {"op": "rule", "kind": "range"})
            return
        inputs.append(enc_rule(nc, fs, up, sim, feats))
        outs.append([int(v) for v in lab])
        descs.append({"op": "rule", "nc": nc, "fs": fs, "psd_hf_threshold": up, "similarity_threshold": list(sim),
                      "xcor_hf": [float(v) for v in feats["xcor_hf"]],
                      "xcor_lf": [float(v) for v in feats["xcor_lf"]],
                      "psd_hf": [float(v) for v in feats["psd_hf"]], "labels": [int(v) for v in lab]})
        for v in lab:
            label_hist[int(v)] += 1
        if nc >= 1 and not steered:
            ends["recordings"] += 1
            ends["xcor_hf_first_and_last_exactly_zero"] += int(float(feats["xcor_hf"][0]) == 0.0 and
                                                               float(feats["xcor_hf"][-1]) == 0.0)
        # oracle on the implementation alone: precedence noisy (2) over dead (1) over the rest
        with np.errstate(invalid="ignore"):
            hfv = np.asarray(feats["xcor_hf"], dtype=float)
            psdv = np.asarray(feats["psd_hf"], dtype=float)
            thr_psd = up if up is not None else (0.02 if fs > 2600 else 1.4)
            noisy = (psdv > thr_psd) | (hfv > sim[1])
            dead = (sim[0] > hfv) & ~noisy
        if np.any(lab[noisy] != 2) or np.any(lab[dead] != 1) or np.any(np.isin(lab[~noisy & ~dead], [1, 2])):
            ctx.fail("labels 1/2 do not follow the thresholds with precedence noisy over dead", descs[-1],
                     {"op": "rule", "kind": "precedence"})
        # label 3 exactly on the run of channels below -0.75 that ends at the last channel (minus dead/noisy)
        with np.errstate(invalid="ignore"):
            lf = np.asarray(feats["xcor_lf"], dtype=float)
            below = lf < -0.75
        run_start = nc
        while run_start > 0 and below[run_start - 1]:
            run_start -= 1
        want3 = [i for i in range(run_start, nc) if not noisy[i] and not dead[i]]
        if [int(i) for i in np.flatnonzero(lab == 3)] != want3:
            ctx.fail("label 3 is not exactly the block of channels below -0.75 that ends at the last channel",
                     descs[-1], {"op": "rule", "kind": "top_block"})
        st.evals += 1
        st.count("rule_band_%s" % ("ap" if fs > 2600 else "lf"))
        st.count("rule_user_thresholds" if up is not None else "rule_default_thresholds")
        if steered:
            st.count("rule_steered_features")
        if len(set(int(v) for v in lab)) > 1:
            st.nontrivial.add(("rule", tuple(int(v) for v in lab), nc, fs, up))

    for k in range(n):
        x, fs = random_recording(rng, k)
        nc = x.shape[0]
        seed_desc = {"op": "rule", "nc": nc, "ns": x.shape[1], "fs": fs}
        calls = [(None, None)]
        try:
            with warnings.catch_warnings():
                warnings.simplefilter("ignore")
                lab0, f0 = call_detect(x, fs)
                # thresholds placed exactly on feature values of this recording (ties of the comparisons)
                hf = np.asarray(f0["xcor_hf"], dtype=float)
                psd = np.asarray(f0["psd_hf"], dtype=float)
                fin = hf[np.isfinite(hf)]
                pfin = psd[np.isfinite(psd)]
                res = [(None, (-0.5, 1), lab0, f0)]
                if fin.size and pfin.size:
                    for _ in range(2):
                        sim = (float(rng.choice(list(fin))), float(rng.choice(list(fin))))
                        up = float(rng.choice(list(pfin)))
                        l1, f1 = call_detect(x, fs, similarity_threshold=sim, psd_hf_threshold=up)
                        res.append((up, sim, l1, f1))
        except Exception as e:
            ctx.fail(explain(e, "detect_bad_channels"), dict(seed_desc, x=x.tolist() if x.size < 4000 else None),
                     {"op": "rule", "kind": "exception"})
            continue
        for (up, sim, lab, feats) in res:
            handle(nc, fs, seed_desc, up, sim, lab, feats, False)
    # display=True draws a figure and must not change what is returned
    try:
        import matplotlib
        matplotlib.use("Agg")
        import matplotlib.pyplot as plt
    except Exception:
        plt = None
    ctx.coverage["display_path_driven"] = plt is not None
    if plt is not None:
        x, fs = background(77, 24, 1024, 30000)[0], 30000
        x[3] = 0
        dd = {"op": "rule-display", "nc": 24, "ns": 1024, "fs": fs}
        try:
            with warnings.catch_warnings():
                warnings.simplefilter("ignore")
                la, fa = call_detect(x, fs)
                lb, fb = call_detect(x, fs, display=True)
            plt.close("all")
            if not np.array_equal(la, lb) or any(not np.array_equal(fa[k], fb[k], equal_nan=True)
                                                 for k in ("xcor_hf", "xcor_lf", "psd_hf")):
                ctx.fail("display=True changes the labels or features", dd, {"op": "rule", "kind": "display"})
            st.evals += 1
            st.count("rule_display_true")
        except Exception as e:
            ctx.fail(explain(e, "detect_bad_channels(display=True)"), dd, {"op": "rule", "kind": "exception"})
    # steered features: scipy.signal.medfilt is replaced, for the duration of the call, by a stub that makes the
    # detrended coherence (xcor_hf) and the coherence trend (xcor_lf + 1) take prescribed values, so that the
    # recommendation block sees every pattern of runs / gaps / ties / NaN - the rule code itself is the real one
    import scipy.signal as _ss
    HFV = [-1.0, -0.5, 0.0, 0.0, 0.0, 1.0, 2.0, float("nan")]
    TRV = [0.0, 0.0, 1.0, 1.0, 0.25, 0.2499, 0.2501, float("nan")]

    def steered(x, fs, hf_des, tr_des, **kw):
        orig = _ss.medfilt
        cnt = [0]

        def stub(v, k):
            cnt[0] += 1
            v = np.asarray(v, dtype=float)
            out = np.zeros(v.size)
            if cnt[0] == 1:
                out[6:v.size - 6] = v[6:v.size - 6] - hf_des
            else:
                out[6:v.size - 6] = tr_des
            return out
        _ss.medfilt = stub
        try:
            with warnings.catch_warnings():
                warnings.simplefilter("ignore")
                return call_detect(x, fs, **kw)
        finally:
            _ss.medfilt = orig

    plans = []
    for nc in range(1, (11 if ctx.thorough() else 9)):
        for code in range(2 ** nc):          # every below/above pattern of the trend
            plans.append((nc, [0.0] * nc, [0.0 if (code >> j) & 1 else 1.0 for j in range(nc)]))
    for _ in range(3000 if ctx.thorough() else 500):
        nc = rng.choice([2, 3, 5, 8, 12, 13, 30])
        plans.append((nc, [rng.choice(HFV) for _ in range(nc)],
                      [rng.choice(TRV) for _ in range(nc)] if rng.random() < 0.5 else
                      [rng.choice([1.0, 1.0, 0.25])] * (nc - (nc // 2)) + [rng.choice(TRV[:2] + TRV[4:]) for _ in range(nc // 2)]))
    base = {}
    for (nc, hf_des, tr_des) in plans:
        fs = rng.choice([30000, 30000, 2500])
        if (nc, fs) not in base:
            base[(nc, fs)] = background(1234 + nc, nc, 128, fs)[0]
        x = base[(nc, fs)]
        seed_desc = {"op": "rule-steered", "nc": nc, "fs": fs, "hf": hf_des, "trend": tr_des}
        kw = {}
        if rng.random() < 0.3:
            kw = {"similarity_threshold": (rng.choice([-0.5, -1.0, 0.0]), rng.choice([1, 1.0, 2.0])),
                  "psd_hf_threshold": rng.choice([0.02, 1.4, 1e-9, 1e9])}
        try:
            lab, feats = steered(x, fs, np.array(hf_des), np.array(tr_des), **kw)
        except Exception as e:
            ctx.fail(explain(e, "detect_bad_channels"), seed_desc, {"op": "rule", "kind": "exception"})
            continue
        handle(nc, fs, seed_desc, kw.get("psd_hf_threshold"), kw.get("similarity_threshold", (-0.5, 1)), lab, feats, True)
    common.correspondence(ctx, PROP, HEADER, inputs, outs, lambda i: descs[i], n_kernel=16, shard=8)
    ctx.coverage["rule_label_histogram"] = label_hist
    ctx.measurements["detrended_coherence_at_probe_ends"] = ends
    if descs:
        d = dict(descs[len(descs) // 3])
        for key in ("xcor_hf", "xcor_lf", "psd_hf"):
            d[key] = [round(v, 4) for v in d[key][:8]]
        d["labels"] = d["labels"][:40]
        st.samples.append(d)


# ---------------------------------------------------------------------------
# detect_bad_channels_cbin
# ---------------------------------------------------------------------------
def sglx_meta(kind, sites, ns, fs=30000):
    """SpikeGLX meta text of an imec AP file with len(sites) channels + 1 sync; sites[c] = (shank, col, row) of the
    channel stored at position c on disk."""
    nch = len(sites)
    if kind == "NP2.4":
        ptype, vmax, maxint, shape = 24, 0.5, 8192, "(4,2,640)"
        imro = "(24,%d)" % nch + "".join("(%d %d 0 0 %d)" % (c, s[0], s[2] * 2 + s[1]) for c, s in enumerate(sites))
    elif kind == "NP2.1":
        ptype, vmax, maxint, shape = 21, 0.5, 8192, "(1,2,640)"
        imro = "(21,%d)" % nch + "".join("(%d 0 0 %d)" % (c, s[2] * 2 + s[1]) for c, s in enumerate(sites))
    else:
        ptype, vmax, maxint, shape = 1100, 0.6, 512, "(1,8,48)"
        imro = "(0,%d)" % nch + "".join("(%d 0 0 500 250 1)" % c for c in range(nch))
    shmap = shape + "".join("(%d:%d:%d:1)" % s for s in sites)
    chmap = "(%d,0,1)" % nch + "".join("(AP%d;%d:%d)" % (c, c, c) for c in range(nch)) + "(SY0;%d:%d)" % (nch, nch)
    meta = {"acqApLfSy": "%d,0,1" % nch, "appVersion": "20201103", "fileSizeBytes": ns * (nch + 1) * 2,
            "fileTimeSecs": ns / fs, "firstSample": 0, "imAiRangeMax": vmax, "imAiRangeMin": -vmax,
            "imDatPrb_pn": "NP2010", "imDatPrb_type": ptype, "imMaxInt": maxint, "imSampRate": fs,
            "nSavedChans": nch + 1, "snsApLfSy": "%d,0,1" % nch, "snsSaveChanSubset": "0:%d" % nch,
            "typeThis": "imec", "~imroTbl": imro, "~snsChanMap": chmap, "~snsShankMap": shmap}
    return "".join("%s=%s\n" % kv for kv in meta.items())


# recordings whose disk order differs from the sorted order: 4 shanks interleaved in blocks of 16 (hStripe-like),
# single shank with the two halves swapped, NPultra with the sites visited in steps of 5
SORT_SITES = {
    "NP2.4": [([0, 1, 0, 1, 2, 3, 2, 3][c // 16], c % 2, (c % 16) // 2 + 8 * [0, 0, 1, 1, 0, 0, 1, 1][c // 16])
              for c in range(128)],
    "NP2.1": [(0, c % 2, ((c + 48) % 96) // 2) for c in range(96)],
    "NPultra": [(0, (c * 5) % 8, ((c * 5) % 96) // 8) for c in range(96)],
}


def np_mode(col):
    vals, counts = np.unique(np.asarray(col), return_counts=True)
    return int(vals[np.argmax(counts)])       # argmax takes the first = smallest value among ties


def part_mode(ctx, st, model):
    import spikeglx
    rng = ctx.rng
    voltage = V()
    tmp = common.tmpdir("C15_")
    inputs, outs, descs = [], [], []
    try:
        # (a) aggregation on prescribed per-batch labels (detect_bad_channels replaced by a stub)
        nfile = 12 if ctx.thorough() else 4
        for fidx in range(nfile):
            nc = rng.choice([1, 2, 5, 16, 33])
            nsync = rng.choice([0, 1])
            fs = 30000
            ns = rng.choice([12000, 30000, 45000])
            arr = np.zeros((ns, nc + nsync), dtype=np.int16)
            p = tmp / ("f%d.bin" % fidx)
            arr.tofile(p)
            sr = spikeglx.Reader(p, nc=nc + nsync, ns=ns, fs=fs, nsync=nsync)
            for rep in range(60 if ctx.thorough() else 25):
                nb = rng.choice([1, 2, 3, 4, 5, 10, 10, rng.randrange(1, 13)])
                style = rng.random()
                if style < 0.4:
                    batches = [[rng.randrange(4) for _ in range(nc)] for _ in range(nb)]
                elif style < 0.8:     # mostly agreeing batches with a few dissenters; exact ties when nb is even
                    base = [rng.randrange(4) for _ in range(nc)]
                    batches = [[(b if rng.random() < 0.55 else rng.randrange(4)) for b in base] for _ in range(nb)]
                elif style < 0.9:
                    a, b = rng.randrange(4), rng.randrange(4)
                    batches = [[(a if (k + c) % 2 else b) for c in range(nc)] for k in range(nb)]
                else:    # each channel takes three different labels, none with a strict majority
                    nb = rng.choice([3, 4, 5, 6, 7, 9, 10])
                    cols = []
                    for c in range(nc):
                        tri = rng.sample(range(4), 3)
                        q, r = divmod(nb, 3)
                        col = tri[0:1] * (q + (r > 0)) + tri[1:2] * (q + (r > 1)) + tri[2:3] * q
                        rng.shuffle(col)
                        cols.append(col)
                    batches = [[cols[c][k] for c in range(nc)] for k in range(nb)]
                    st.count("mode_three_labels_no_majority")
                calls = []

                def stub(raw, fs, _b=batches, _c=calls, **kw):
                    _c.append(raw.shape)
                    k = len(_c) - 1
                    return np.array(_b[k], dtype=float), {"f": np.zeros(len(_b[k]))}
                orig = voltage.detect_bad_channels
                voltage.detect_bad_channels = stub
                dur = rng.choice([None, None, 0.3, 0.05, 0.1, 0.25] + ([0.5] if ns >= 30000 else []))
                d = {"op": "mode", "nc": nc, "nsync": nsync, "ns": ns, "n_batches": nb, "batches": batches,
                     "batch_duration": dur}
                kwd = {} if dur is None else {"batch_duration": dur}
                try:
                    flags = call_cbin(sr, nc, n_batches=nb, **kwd)
                except Exception as e:
                    ctx.fail(explain(e, "detect_bad_channels_cbin"), d, {"op": "mode", "kind": "exception"})
                    continue
                finally:
                    voltage.detect_bad_channels = orig
                want = [np_mode([b[c] for b in batches]) for c in range(nc)]
                du = 0.3 if dur is None else dur
                widths = [min(ns, int((t0 + du) * fs)) - int(t0 * fs) for t0 in np.linspace(0, ns / fs - du, nb)]
                if len(calls) != nb or any(s[0] != nc for s in calls) or [s[1] for s in calls] != widths:
                    ctx.fail("detect_bad_channels_cbin did not label n_batches evenly spaced batches of batch_duration "
                             "seconds of the nc data channels", d, {"op": "mode", "kind": "batches"})
                if dur is not None:
                    st.count("mode_batch_duration_%s" % dur)
                if flags.shape != (nc,) or [int(v) for v in flags] != want:
                    ctx.fail("file labels are not the per-channel mode over the batches", d,
                             {"op": "mode", "kind": "mode"})
                    continue
                inputs.append([3, nc, nb] + [v for b in batches for v in b])
                outs.append([int(v) for v in flags])
                descs.append(d)
                st.evals += 1
                st.count("mode_stubbed")
                tie = any(sorted(np.unique([b[c] for b in batches], return_counts=True)[1])[-2:][0] ==
                          max(np.unique([b[c] for b in batches], return_counts=True)[1])
                          for c in range(nc) if len(set(b[c] for b in batches)) > 1)
                if tie:
                    st.count("mode_with_tie")
                if nb > 1 and any(len(set(b[c] for b in batches)) > 1 for c in range(nc)):
                    st.nontrivial.add(("mode", nc, nb, tuple(tuple(b) for b in batches)))
            sr.close()
        # (b) a real file: labels of the file == mode of the labels of evenly spaced batches
        nreal = 3 if ctx.thorough() else 1
        for ridx in range(nreal):
            nc, fs = 48, 30000
            ns = rng.choice([30000, 36000])
            x, rs = background(1000 + ridx, nc, ns, fs)
            x[5] = 0
            x[20] += rs.standard_normal(ns) * 100e-6
            x[nc - 6:] = rs.standard_normal((6, ns)) * 5e-6
            # a channel that is silent only in part of the file: batches disagree
            x[30, : ns // 3] = 0
            s2v = 2.34375e-06
            arr = np.c_[np.round(x.T / s2v), np.zeros((ns, 1))].astype(np.int16)
            p = tmp / ("real%d.bin" % ridx)
            arr.tofile(p)
            sr = spikeglx.Reader(p, nc=nc + 1, ns=ns, fs=fs, nsync=1)
            nb = rng.choice([5, 10])
            seen = []
            orig = voltage.detect_bad_channels

            def spy(raw, fs, _s=seen, **kw):
                r = orig(raw, fs, **kw)
                _s.append((np.array(raw), np.array(r[0])))
                return r
            voltage.detect_bad_channels = spy
            dur = rng.choice([0.3, 0.2])
            d = {"op": "mode-real", "nc": nc, "ns": ns, "n_batches": nb, "seed": 1000 + ridx, "batch_duration": dur}
            try:
                with warnings.catch_warnings():
                    warnings.simplefilter("ignore")
                    flags = call_cbin(sr, nc, n_batches=nb, **({} if dur == 0.3 else {"batch_duration": dur}))
            except Exception as e:
                ctx.fail(explain(e, "detect_bad_channels_cbin"), d, {"op": "mode", "kind": "exception"})
                continue
            finally:
                voltage.detect_bad_channels = orig
            # independent batch placement: evenly spaced starts over [0, rl - batch_duration]
            ok_b = len(seen) == nb
            per_batch = []
            try:
                for k, t0 in enumerate(np.linspace(0, ns / fs - dur, nb)):
                    a, b = int(t0 * fs), int((t0 + dur) * fs)
                    ref = sr[a:b, :nc].T
                    with warnings.catch_warnings():
                        warnings.simplefilter("ignore")
                        lk, _ = call_detect(ref, fs, fn=orig)
                    per_batch.append([int(v) for v in lk])
                    if ok_b and not (seen[k][0].shape == ref.shape and np.array_equal(seen[k][0], ref)):
                        ok_b = False
            except Exception as e:
                ctx.fail("detect_bad_channels raised %r on a batch of the file" % (e,), d,
                         {"op": "mode", "kind": "exception"})
                continue
            if not ok_b:
                ctx.fail("batches are not the n_batches evenly spaced batch_duration excerpts of the data channels", d,
                         {"op": "mode", "kind": "batches"})
            want = [np_mode([b[c] for b in per_batch]) for c in range(nc)]
            if flags.shape != (nc,) or [int(v) for v in flags] != want:
                ctx.fail("file labels are not the per-channel mode over the batches", dict(d, per_batch=per_batch),
                         {"op": "mode", "kind": "mode"})
            else:
                inputs.append([3, nc, nb] + [v for b in per_batch for v in b])
                outs.append([int(v) for v in flags])
                descs.append(dict(d, batches=per_batch))
            expect = {5: 1, 20: 2}
            expect.update({c: 3 for c in range(nc - 6, nc)})
            got = {c: int(v) for c, v in enumerate(flags) if v != 0 and c != 30}
            ctx.measurements["cbin_file_%d_labels" % ridx] = {"expected": expect, "got": got}
            if got != expect:
                ctx.fail("file with a dead, a noisy and 6 outside channels is labelled %s" % got, d,
                         {"op": "mode", "kind": "detect_file"})
            st.evals += 1
            st.count("mode_real_file")
            st.nontrivial.add(("mode-real", ridx, nb))
            sr.close()
        # (c) files with meta-data whose on-disk channel order is NOT the sorted (shank, row, col) order the Reader
        #     presents: given as a path (str / Path) and as a Reader, the labels are indexed in sorted order and are
        #     the per-channel mode of detect_bad_channels over the sorted-order batches
        kinds = ["NP2.4", "NP2.1", "NPultra"]
        for kind in kinds:
            sites = SORT_SITES[kind]
            nc, fs, ns = len(sites), 30000, 30000
            nb = rng.choice([3, 4, 5])
            fbin = tmp / kind.replace(".", "") / "rec_g0_t0.imec0.ap.bin"
            fbin.parent.mkdir()
            fbin.with_suffix(".meta").write_text(sglx_meta(kind, sites, ns, fs))
            np.zeros((4, nc + 1), dtype=np.int16).tofile(fbin)
            d = {"op": "mode-file-order", "kind": kind, "nc": nc, "ns": ns, "n_batches": nb}
            try:
                sr0 = spikeglx.Reader(fbin, ignore_warnings=True)
                order = np.asarray(sr0.raw_channel_order)[:nc]
                s2v = np.asarray(sr0.sample2volts)[:nc]
                sr0.close()
            except Exception as e:
                ctx.disagree("cannot open the synthetic %s recording: %r" % (kind, e), d, {"op": "mode"})
                continue
            if np.array_equal(order, np.arange(nc)):
                ctx.disagree("the synthetic %s recording is not permuted on disk" % kind, d, {"op": "mode"})
                continue
            x, rs = background(2000 + len(kind), nc, ns, fs)           # channels in SORTED order
            pd, pn, ntop = nc // 5, nc // 2, 6
            x[pd] = 0
            x[pn] += rs.standard_normal(ns) * 100e-6
            x[nc - ntop:] = rs.standard_normal((ntop, ns)) * 5e-6
            raw = np.zeros((ns, nc + 1), dtype=np.int16)
            raw[:, order] = np.round(x.T / s2v[order]).astype(np.int16)
            raw.tofile(fbin)
            try:
                with warnings.catch_warnings():
                    warnings.simplefilter("ignore")
                    sr = spikeglx.Reader(fbin)
                    per_batch = []
                    for t0 in np.linspace(0, ns / fs - 0.3, nb):
                        lk, _ = call_detect(sr[int(t0 * fs):int((t0 + 0.3) * fs), :nc].T, fs)
                        per_batch.append([int(v) for v in lk])
                    sr.close()
                    want = [np_mode([b[c] for b in per_batch]) for c in range(nc)]
                    got = {}
                    args = [("path", fbin), ("str", str(fbin)), ("Reader", spikeglx.Reader(fbin))]
                    if kind == "NP2.4":        # the same recording mtscomp-compressed (.cbin + .ch next to the .meta)
                        srz = spikeglx.Reader(fbin)
                        fz = srz.compress_file(keep_original=True)
                        srz.close()
                        args.append(("cbin path", fz))
                    for how, arg in args:
                        got[how] = [int(v) for v in call_cbin(arg, nc, n_batches=nb)]
                        if how == "Reader":
                            arg.close()
            except Exception as e:
                ctx.fail("detect_bad_channels_cbin raised %r on a %s file" % (e, kind), d,
                         {"op": "mode", "kind": "exception"})
                continue
            for how, g in got.items():
                if g != want:
                    diff = [c for c in range(min(len(g), nc)) if g[c] != want[c]][:12]
                    ctx.fail("file labels (file given as %s, %s channel order permuted on disk) are not the per-channel "
                             "mode over the sorted-order batches; first differing channels %s" % (how, kind, diff),
                             dict(d, given_as=how, got=g, mode_over_batches=want), {"op": "mode", "kind": "file_order"})
            expect = {pd: 1, pn: 2}
            expect.update({c: 3 for c in range(nc - ntop, nc)})
            seen_lab = {c: v for c, v in enumerate(want) if v != 0}
            ctx.measurements["cbin_%s_permuted_file_labels" % kind] = {"expected": expect, "mode_over_batches": seen_lab}
            if seen_lab != expect:
                ctx.fail("%s file with a dead, a noisy and %d outside channels (sorted positions) is labelled %s"
                         % (kind, ntop, seen_lab), d, {"op": "mode", "kind": "detect_file"})
            inputs.append([3, nc, nb] + [v for b in per_batch for v in b])
            outs.append(got["path"])
            descs.append(dict(d, batches=per_batch))
            st.evals += len(got)
            st.count("mode_permuted_file_" + kind)
            if "cbin path" in got:
                st.count("mode_compressed_cbin_file")
            st.nontrivial.add(("mode-file-order", kind, nb))
    finally:
        import shutil
        shutil.rmtree(tmp, ignore_errors=True)
    common.correspondence(ctx, PROP, HEADER, inputs, outs, lambda i: descs[i], n_kernel=20, shard=10)
    if descs:
        st.samples.append({k: (v if k != "batches" else [b[:12] for b in v[:6]]) for k, v in descs[0].items()})


# ---------------------------------------------------------------------------
# measured: injected faults on a coherent background are found (statistical; not a theorem)
# ---------------------------------------------------------------------------
def part_detect(ctx, st):
    rng = ctx.rng
    fs, nc, ns = 30000, 384, 9000
    seeds = [11, 12, 13] if ctx.thorough() else [11]
    worst = {"dead_xcor_hf_max": -9.0, "clear_xcor_hf_min": 9.0, "noisy_psd_min": 9e9, "clear_psd_max": 0.0,
             "outside_xcor_lf_max": -9.0, "brain_xcor_lf_min": 9.0}

    def check(x, expect, d, tags):
        try:
            with warnings.catch_warnings():
                warnings.simplefilter("ignore")
                lab, f = call_detect(x, fs)
        except Exception as e:
            ctx.fail(explain(e, "detect_bad_channels"), d, dict(tags, kind="exception"))
            return
        st.evals += 1
        got = {int(i): int(lab[i]) for i in np.flatnonzero(lab)}
        hf, lf, psd = f["xcor_hf"], f["xcor_lf"], f["psd_hf"]
        clear = np.array([i not in expect for i in range(nc)])
        for i, l in expect.items():
            if l == 1 and tags.get("where") != "probe_end":      # the probe ends are finding F-C15-b
                worst["dead_xcor_hf_max"] = max(worst["dead_xcor_hf_max"], float(hf[i]))
            if l == 2:
                worst["noisy_psd_min"] = min(worst["noisy_psd_min"], float(psd[i]))
            if l == 3:
                worst["outside_xcor_lf_max"] = max(worst["outside_xcor_lf_max"], float(lf[i]))
        if got == expect:
            worst["clear_xcor_hf_min"] = min(worst["clear_xcor_hf_min"], float(hf[clear].min()))
            worst["clear_psd_max"] = max(worst["clear_psd_max"], float(psd[clear].max()))
            brain = np.array([expect.get(i) != 3 for i in range(nc)])
            worst["brain_xcor_lf_min"] = min(worst["brain_xcor_lf_min"], float(lf[brain & clear].min()))
        else:
            ctx.fail("injected faults %s are labelled %s" % (
                {k: expect[k] for k in list(expect)[:6]}, {k: got[k] for k in list(got)[:8]}),
                dict(d, expected=expect, got=got), tags)
        st.count("detect_" + tags["fault"])
        st.nontrivial.add(("detect", json.dumps(d, sort_keys=True)))

    for seed in seeds:
        x0, rs = background(seed, nc, ns, fs)
        check(x0, {}, {"op": "detect", "seed": seed, "fault": "none"}, {"op": "detect", "fault": "none", "where": "-"})
        if ctx.thorough():      # every position for the first seed, every 4th (and both ends) for the others
            pos = list(range(nc)) if seed == seeds[0] else sorted(set(range(0, nc, 4)) | {1, nc - 2, nc - 1})
        else:
            pos = sorted({0, 1, 2, 6, 190, 378, 382, 383} | {rng.randrange(nc) for _ in range(3)})
        for p in pos:
            where = "probe_end" if p in (0, nc - 1) else "inside"
            x = x0.copy()
            x[p] = 0
            check(x, {p: 1}, {"op": "detect", "seed": seed, "fault": "dead", "position": p},
                  {"op": "detect", "fault": "dead", "where": where})
            x = x0.copy()
            x[p] += rs.standard_normal(ns) * 100e-6
            check(x, {p: 2}, {"op": "detect", "seed": seed, "fault": "noisy", "position": p},
                  {"op": "detect", "fault": "noisy", "where": where})
        sizes = list(range(0, 41)) if ctx.thorough() else [0, 1, 2, 3, 4, 5, 6, 11, 12, 25, 40]
        for k in sizes:
            x = x0.copy()
            if k:
                x[nc - k:] = rs.standard_normal((k, ns)) * 5e-6
            check(x, {i: 3 for i in range(nc - k, nc)},
                  {"op": "detect", "seed": seed, "fault": "outside", "top_block": k},
                  {"op": "detect", "fault": "outside", "where": "top"})
        # all three together, apart from each other
        for _ in range(8 if ctx.thorough() else 3):
            k = rng.randrange(0, 41)
            pd = rng.randrange(1, nc - k - 30)
            pn = rng.choice([q for q in range(0, nc - k - 12) if abs(q - pd) > 12])
            x = x0.copy()
            x[pd] = 0
            x[pn] += rs.standard_normal(ns) * 100e-6
            if k:
                x[nc - k:] = rs.standard_normal((k, ns)) * 5e-6
            e = {pd: 1, pn: 2}
            e.update({i: 3 for i in range(nc - k, nc)})
            check(x, e, {"op": "detect", "seed": seed, "fault": "combined", "dead": pd, "noisy": pn, "top_block": k},
                  {"op": "detect", "fault": "combined", "where": "inside"})
    ctx.measurements["detection_margins"] = dict(
        worst, thresholds={"dead: xcor_hf <": -0.5, "noisy: psd_hf >": 0.02, "outside: xcor_lf <": -0.75},
        note="synthetic AP recordings 384 x 9000 @ 30 kHz: 20 uV common band-limited signal + 5 uV independent "
             "noise; dead = zeros, noisy = +100 uV white noise, outside = 5 uV independent noise only")


# ---------------------------------------------------------------------------
# detrend (nested in detect_bad_channels): model vs the real nested function
# ---------------------------------------------------------------------------
def nested_function(fn, name):
    """The function object of a def nested in fn, when it needs nothing from fn's frame."""
    import types
    for c in fn.__code__.co_consts:
        if isinstance(c, types.CodeType) and c.co_name == name and not c.co_freevars:
            return types.FunctionType(c, fn.__globals__, name)
    return None


def part_detrend(ctx, st):
    rng = ctx.rng
    det = nested_function(V().detect_bad_channels, "detrend")
    ctx.coverage["detrend_nested_function_reachable"] = det is not None
    if det is None:          # a refactoring moved it: the theorem about the probe ends is then tied to the code
        return               # only by the measured xcor_hf[0] == xcor_hf[-1] == 0 (part_rule)
    inputs, outs, descs = [], [], []
    for k in range(1500 if ctx.thorough() else 300):
        n = k + 1 if k < 30 else rng.choice([rng.randrange(1, 14), rng.randrange(1, 60), 384])
        style = rng.random()
        if style < 0.4:
            x = [rng.randrange(-3, 4) for _ in range(n)]             # many ties
        elif style < 0.7:
            x = [rng.randrange(-1000, 1001) for _ in range(n)]
        else:                                                       # coherent probe with a few silent channels
            x = [1000] * n
            for _ in range(rng.randrange(0, 5)):
                x[rng.choice([0, n - 1, rng.randrange(n)])] = 0
        d = {"op": "detrend", "x": x}
        try:
            out = np.asarray(det(np.array(x, dtype=np.float64), 11), dtype=np.float64)
        except Exception as e:
            ctx.disagree("detrend raised %r" % (e,), d, {"op": "detrend"})
            continue
        if out.shape != (n,) or not np.all(out == np.round(out)):
            ctx.disagree("detrend output is not an integer vector of the input length", d, {"op": "detrend"})
            continue
        inputs.append([4, n] + x)
        outs.append([int(v) * OUT_SCALE for v in out])
        descs.append(d)
        st.evals += 1
        st.count("detrend")
        if len(set(x)) > 1:
            st.nontrivial.add(("detrend", tuple(x)))
    common.correspondence(ctx, PROP, HEADER, inputs, outs, lambda i: descs[i], n_kernel=24, shard=12)
    if descs:
        st.samples.append({"op": "detrend", "x": descs[3]["x"], "detrended": [v // OUT_SCALE for v in outs[3]]})


def check_constants(ctx):
    for name, (v, m, k) in CONSTS.items():
        if dy(v) != (m, k):
            ctx.disagree("constant %s of coq/C15/Run.v is not the float64 %r" % (name, v), {"op": "const", "name": name})
    if abs(R_KEEP - 72.13) > 0.01:
        ctx.disagree("kriging range constant", {"op": "const", "name": "R_KEEP"})


def real_obligations(ctx):
    """The two theorems of coq/C15/PropsReal.v (real-number weight, coq-interval): counted as obligations, their
    axioms checked against REAL_AXIOMS.  In the thorough tier coqchk re-checks IBL.C15.RealW and IBL.C15.PropsReal
    with -norec, i.e. the installed third-party libraries they import (Interval, Flocq, Coquelicot, Bignums, the
    Reals) are taken as compiled - re-checking them takes more than half an hour and is not about this property."""
    names = common.theorem_names(common.COQ / PROP / "PropsReal.v")
    ctx.coverage["obligations"] = ctx.coverage.get("obligations", 0) + len(names)
    if ctx.broken_proofs:
        return
    try:
        ass = common.print_assumptions(PROP, "PropsReal")
    except RuntimeError as e:
        ctx.broken_proofs.append({"theorem": "PropsReal", "why": str(e)[-1500:]})
        return
    ok = 0
    for n in names:
        ax = ass.get(n)
        if ax is None:
            ctx.broken_proofs.append({"theorem": n, "why": "no Print Assumptions output"})
            continue
        ctx.theorems[n] = ax if ax else "Closed under the global context"
        extra = [a for a in ax if a not in REAL_AXIOMS]
        if extra:
            ctx.broken_proofs.append({"theorem": n, "why": "unlisted axioms: %s" % extra})
        else:
            ok += 1
    if ctx.thorough() and not os.environ.get("IBLNPX_NO_COQCHK"):
        try:
            rc, out = common.sh(["timeout", "900", "coqchk", "-silent", "-o", "-Q", ".", "IBL",
                                 "-norec", "IBL.C15.RealW", "-norec", "IBL.C15.PropsReal"], cwd=common.COQ, timeout=960)
        except Exception as e:
            rc, out = 124, repr(e)
        ctx.coverage.setdefault("coqchk", {})["RealW+PropsReal (-norec)"] = {
            "rc": rc, "note": "imported third-party libraries (Interval, Flocq, Coquelicot, Bignums, Reals) admitted as installed"}
        if rc != 0:
            ctx.broken_proofs.append({"theorem": "coqchk -norec IBL.C15.RealW IBL.C15.PropsReal", "why": out[-1500:]})
            ok = 0
    ctx.coverage["discharged"] = ctx.coverage.get("discharged", 0) + ok


def run(ctx):
    common.proof_obligations(ctx, whitelist=[], modules=("Props",),
                             make_targets=["C15/Props.vo", "C15/PropsReal.vo", "C15/Run.vo"])
    real_obligations(ctx)
    check_constants(ctx)
    st = Stats()
    model = common.Extracted(PROP)
    for name, part, args in (("interp", part_interp, (ctx, st, model)), ("rule", part_rule, (ctx, st, model)),
                             ("mode", part_mode, (ctx, st, model)), ("detrend", part_detrend, (ctx, st)),
                             ("detect", part_detect, (ctx, st))):
        try:
            part(*args)
        except Exception as e:     # last line of defence: an observation the harness cannot even canonicalise
            import traceback
            ctx.disagree("the %s part of the check could not interpret the implementation's behaviour: %r"
                         % (name, e), {"op": "harness-" + name, "traceback": traceback.format_exc()[-1500:]},
                         {"op": name})
    return common.finish(
        ctx, TRUSTED,
        rule="interp: every label vector over {0,1,2,3} on probes of 1..5 (quick) / 1..7 (thorough) channels in up to "
             "11 geometries (NP1/NP2/NPultra prefixes, lines of pitch 20/72/73/80 um, coincident+far sites, random, duplicate sites) plus "
             "random clustered label vectors on the four 384-channel trace headers, small integer/dyadic data, float64 "
             "and float32; each run through interpolate_bad_channels, the property oracle (untouched rows bit-identical, "
             "range of neighbours, zero when isolated, weights read off with identity data) and the Qc model; "
             "non-trivial = at least one dead/noisy channel, distinct by (geometry, label vector). rule: structured "
             "small recordings through detect_bad_channels with default and tie-placed thresholds, features fed to the "
             "model; non-trivial = more than one label value. mode: stubbed per-batch labels and real files through "
             "detect_bad_channels_cbin; non-trivial = batches disagree on some channel. detrend: integer vectors (ties, "
             "silent ends) through the nested detrend(); non-trivial = not constant. detect: measured fault injection",
        samples=st.samples, evaluations=st.evals, distinct_nontrivial=len(st.nontrivial),
        extra={"input_distribution": st.dist, "exhaustive": False},
        assumptions=["exact arithmetic (theorems) vs float64 rounding (implementation): compared to 1e-9 relative",
                     "detection of injected faults is measured on synthetic recordings, not proved"])


# ---------------------------------------------------------------------------
def replay(ctx, data):
    inp = data.get("input") or (data.get("correspondence_disagreements") or [{}])[0].get("input")
    if not inp:
        print(json.dumps(data, indent=1)[:3000])
        return 1
    op = inp.get("op")
    print("replaying", op)
    if op == "interp":
        x, y = np.array(inp["x"], dtype=np.int64), np.array(inp["y"], dtype=np.float64)
        sc = 2.0 ** (-inp["kd"])
        dat = [[v * sc for v in r] for r in inp["data_int"]]
        pp, kk = inp.get("p", P_EXP), inp.get("krig", KRIG)
        out = impl_interp(x, y, inp["labels"], dat, inp["dtype"], inp["label_float"], inp.get("layout", "C"), pp, kk)
        bad = oracle_interp(x, y, inp["labels"], dat, out, inp["dtype"], pp, kk) + \
            oracle_weights(x, y, inp["labels"], pp, kk)[0]
        print("labels:", inp["labels"])
        print("implementation output:", out.tolist() if out.size < 200 else out.shape)
        print("property clauses failing on the implementation:", bad)
        mo = common.Extracted(PROP).run_many([enc_interp(x, y, inp["labels"], inp["data_int"], inp["kd"], pp, kk)],
                                             nproc=1)[0]
        scale = max(1.0, max((abs(v) for r in inp["data_int"] for v in r), default=0) * sc)
        msg = compare_interp(mo, out, inp["labels"], scale, inp["dtype"])
        print("model output:", [v / OUT_SCALE for v in mo][:200])
        print("model vs implementation:", msg or "agree")
        return 1 if (bad or msg) else 0
    if op == "rule":
        feats = {k: np.array(inp[k], dtype=float) for k in ("xcor_hf", "xcor_lf", "psd_hf")}
        e = enc_rule(inp["nc"], inp["fs"], inp["psd_hf_threshold"], tuple(inp["similarity_threshold"]), feats)
        mo = common.Extracted(PROP).run_many([e], nproc=1)[0]
        print("implementation labels:", inp["labels"])
        print("model labels         :", mo)
        return 1 if mo != inp["labels"] else 0
    if op == "mode":
        mo = common.Extracted(PROP).run_many([[3, inp["nc"], inp["n_batches"]] +
                                              [v for b in inp["batches"] for v in b]], nproc=1)[0]
        want = [np_mode([b[c] for b in inp["batches"]]) for c in range(inp["nc"])]
        print("per-batch labels:", inp["batches"])
        print("mode (numpy):", want, " model:", mo)
        print("re-run the check to see the implementation's value (needs the stubbed batches)")
        return 1
    if op == "geo":
        x, y = np.array(inp["x"], dtype=np.int64), np.array(inp["y"], dtype=np.float64)
        wbad, srcs = oracle_weights(x, y, inp["labels"])
        mo = common.Extracted(PROP).run_many([[5, len(inp["labels"])] + inp["labels"] + inp["x"] +
                                              [int(v) for v in inp["y"]]], nproc=1)[0]
        print("labels:", inp["labels"])
        print("sources per dead/noisy channel, implementation:", srcs[:20])
        print("model (count, channels ...):", mo[:200])
        return 1 if (wbad or [v for sl in srcs for v in [len(sl)] + sl] != mo) else 0
    if op == "detrend":
        det = nested_function(V().detect_bad_channels, "detrend")
        out = det(np.array(inp["x"], dtype=np.float64), 11)
        mo = common.Extracted(PROP).run_many([[4, len(inp["x"])] + inp["x"]], nproc=1)[0]
        print("x:", inp["x"])
        print("implementation detrend:", out.tolist())
        print("model detrend         :", [v / OUT_SCALE for v in mo])
        return 1 if [int(v) * OUT_SCALE for v in out] != mo else 0
    if op == "detect":
        fs, nc, ns = 30000, 384, 9000
        x, _ = background(inp["seed"], nc, ns, fs)
        rs = np.random.default_rng(4242)          # the injected noise is redrawn (the fault classes have wide margins)
        fault = inp.get("fault")
        expect = {}
        if fault in ("dead", "combined"):
            p = inp["position"] if fault == "dead" else inp["dead"]
            x[p] = 0
            expect[p] = 1
        if fault in ("noisy", "combined"):
            p = inp["position"] if fault == "noisy" else inp["noisy"]
            x[p] += rs.standard_normal(ns) * 100e-6
            expect[p] = 2
        if fault in ("outside", "combined") and inp.get("top_block"):
            k = inp["top_block"]
            x[nc - k:] = rs.standard_normal((k, ns)) * 5e-6
            expect.update({i: 3 for i in range(nc - k, nc)})
        lab, f = call_detect(x, fs)
        got = {int(i): int(lab[i]) for i in np.flatnonzero(lab)}
        print("fault:", {k: v for k, v in inp.items() if k not in ("expected", "got")})
        print("expected labels:", expect)
        print("labels now     :", got, " (during the check:", inp.get("got"), ")")
        for p in list(expect)[:3]:
            print("channel %d: xcor_hf %.4f xcor_lf %.4f psd_hf %.4g" % (p, f["xcor_hf"][p], f["xcor_lf"][p], f["psd_hf"][p]))
        return 0 if got == expect else 1
    print(json.dumps(inp, indent=1)[:3000])
    return 1
