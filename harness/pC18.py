"""C18 — spectral helpers (ibldsp.fourier, utils.fcn_cosine): proofs in coq/C18,
correspondence and property oracle against the real functions."""
import bisect
import json
import math
import signal
import threading
import traceback

import numpy as np

import common

PROP = "C18"
HEADER = "From Coq Require Import ZArith List.\nImport ListNotations.\nFrom IBL.C18 Require Import Run."
TOL = 1e-9
TRUSTED = [
    "Coq 8.16.1 kernel + vm_compute (no native_compute); C18 theorems over Z / lists / abstract rings and fields: "
    "Closed under the global context; C18_cosine_monotone (Reals): the standard library's classical-reals axioms only",
    "hand-written model coq/C18/Model.v (+ ModelR.v for the real-valued taper) of ibldsp.fourier.{ns_optim_fft, convolve, "
    "fscale, freduce, fexpand, _freq_vector/_freq_filter, dft} and utils.fcn_cosine, tied to /repo/src by this run's correspondence",
    "np.fft.{fft,ifft,rfft,irfft} compute the DFT sums with an exact primitive root of unity (section hypotheses "
    "om^N = 1, om^m <> 1 for 0<m<N, N invertible); 'explicit dft = FFT' is therefore validated numerically, not proved",
    "rfft/irfft(n=ns) of real data = half of fft/ifft (Hermitian symmetry; proved for the model's freduce/fexpand, "
    "assumed for NumPy's routines)",
    "float64 rounding: implementation outputs on integer inputs are compared after rounding, within 1e-9*scale",
    "harness/pC18.py generators, canonicalisers and oracles",
    "extraction (Require Extraction, ExtrOcamlBasic only; Z, positive kept inductive), harness/driver.ml, ocamlfind "
    "ocamlopt; a sample of the same cases is re-evaluated by the kernel (vm_compute)",
]

# every 3-smooth number below 2^62 (brute-force reference for ns_optim_fft)
SMOOTH = sorted(2 ** a * 3 ** b for a in range(63) for b in range(40) if 2 ** a * 3 ** b < 2 ** 62)
TABLE = sorted({2 ** a * 3 ** b for a in range(25) for b in range(15)})
B_LIMIT = max(t for t in TABLE if t < 3 ** 15)          # 14155776: below it every smooth number is in the table


class ImplError(Exception):
    """the implementation did something no caller can live with: raised a non-Exception, hung, returned None / a
    list / a non-numeric array, or modified an argument in place"""


def _summ(a):
    if isinstance(a, np.ndarray):
        small = a.size <= 300 and a.dtype.kind in "fiub"
        return {"shape": list(a.shape), "dtype": str(a.dtype), "data": a.tolist() if small else None}
    if isinstance(a, (np.generic,)):
        return a.item() if a.dtype.kind in "fiub" else repr(a)
    if isinstance(a, (int, float, str, bool, type(None))):
        return a
    if isinstance(a, (list, tuple)) and len(a) <= 8:
        return [_summ(v) for v in a]
    return repr(a)[:80]


def _alarm(signum, frame):
    raise ImplError("call did not return within %d s" % Guard.TIMEOUT)


def guarded_call(name, fn, a, k):
    """call fn(*a, **k); every outcome other than 'returns a numeric array/scalar (or raises an ordinary
    Exception) and leaves its arguments alone' becomes an ImplError (an Exception), which every call site
    reports as a failing input"""
    args = list(a) + list(k.values())
    snap = [(i, x, x.copy()) for i, x in enumerate(args) if isinstance(x, np.ndarray)]
    Guard.last_call = {"op": "call", "fn": name, "args": [_summ(x) for x in a], "kwargs": {q: _summ(v) for q, v in k.items()}}
    if name in Guard.hung:
        raise ImplError("%s not called again: an earlier call did not return within %d s" % (name, Guard.TIMEOUT))
    use_alarm = threading.current_thread() is threading.main_thread()
    if use_alarm:
        old = signal.signal(signal.SIGALRM, _alarm)
        signal.setitimer(signal.ITIMER_REAL, Guard.TIMEOUT)
    try:
        r = fn(*a, **k)
    except ImplError:
        Guard.hung.add(name)                        # raised by the watchdog
        raise
    except Exception:
        raise
    except BaseException as e:                      # SystemExit, KeyboardInterrupt, GeneratorExit raised by the code
        raise ImplError("%s raised %r" % (name, e))
    finally:
        if use_alarm:
            signal.setitimer(signal.ITIMER_REAL, 0)
            signal.signal(signal.SIGALRM, old)
    for i, x, c in snap:
        same = x.shape == c.shape and x.dtype == c.dtype and bool(np.array_equal(x, c, equal_nan=x.dtype.kind in "fc"))
        if not same:
            raise ImplError("%s modified its argument %d in place" % (name, i))
    if name == "fcn_cosine":
        if not callable(r):
            raise ImplError("fcn_cosine returned %s instead of a function" % type(r).__name__)
        return lambda *aa, **kk: guarded_call("fcn_cosine(bounds)", r, aa, kk)
    if not isinstance(r, (np.ndarray, np.generic, int, float, complex)) or isinstance(r, bool):
        raise ImplError("%s returned %s instead of an array" % (name, type(r).__name__))
    if isinstance(r, (np.ndarray, np.generic)) and r.dtype.kind not in "fciub":
        raise ImplError("%s returned an array of dtype %s" % (name, r.dtype))
    return r


class Guard:
    TIMEOUT = 60
    last_call = None
    hung = set()

    def __init__(self, mod):
        self._mod = mod

    def __getattr__(self, name):
        obj = getattr(self._mod, name)
        if name.startswith("__") or not callable(obj) or isinstance(obj, type):
            return obj
        return lambda *a, **k: guarded_call(name, obj, a, k)


def f_mod():
    return F()


def F():
    from ibldsp import fourier
    return Guard(fourier)


def U():
    from ibldsp import utils
    return Guard(utils)


class Cases:
    """integer-exact correspondence cases"""

    def __init__(self):
        self.inp, self.out, self.desc = [], [], []
        self.dist = {}
        self.nontrivial = set()
        self.evals = 0
        self.seen9 = set()

    def add(self, inp, out, desc):
        self.inp.append([int(v) for v in inp])
        self.out.append([int(v) for v in out])
        self.desc.append(desc)

    def count(self, key, n=1):
        self.dist[key] = self.dist.get(key, 0) + n


def as_dtype(a, dtype, noncontig=False):
    """integer-valued array -> the requested dtype, optionally as a non-contiguous view (same values)"""
    a = np.asarray(a).astype(dtype)
    if noncontig:
        big = np.zeros(a.shape[:-1] + (2 * a.shape[-1],), dtype=a.dtype)
        big[..., ::2] = a
        a = big[..., ::2]
        if a.ndim > 1:                      # and permuted strides on the leading axes
            a = np.ascontiguousarray(np.swapaxes(a, 0, -1)).swapaxes(0, -1)
    return a


DTYPES = ["float64", "float32", "int64", "int32", "int16", "uint8"]


def near_int(a, scale, tol=None):
    """(rounded ints, ok) — ok iff every entry is within TOL*scale of an integer and real"""
    a = np.asarray(a)
    if np.iscomplexobj(a):
        if np.max(np.abs(a.imag), initial=0) > TOL * scale:
            return None, False
        a = a.real
    if not np.all(np.isfinite(a)):
        return None, False
    r = np.round(a)
    return r.astype(np.int64), bool(np.max(np.abs(a - r), initial=0) <= (tol or TOL) * scale)


# ---------------------------------------------------------------------------
# ns_optim_fft
# ---------------------------------------------------------------------------
def part_ns_optim(ctx, cs):
    f = F()
    ns = set()
    top = 200000
    if ctx.thorough():
        ns.update(range(-3, top + 1))
    else:
        ns.update(range(-3, 20001))
        off = ctx.rng.randrange(17)
        ns.update(range(20001 + off, top + 1, 17))
    for t in TABLE:
        ns.update((t - 1, t, t + 1))
    for _ in range(3000 if ctx.thorough() else 600):
        ns.add(ctx.rng.randrange(1, B_LIMIT + 1))
        ns.add(ctx.rng.randrange(1, TABLE[-1] + 1000))
    ns.update((B_LIMIT - 1, B_LIMIT, B_LIMIT + 1, 3 ** 15 - 1, 3 ** 15, 3 ** 15 + 1, TABLE[-1] + 1, TABLE[-1] + 2))
    for n in sorted(ns):
        d = {"op": "ns_optim_fft", "n": n}
        try:
            m = int(f.ns_optim_fft(n))
            out = [1, m]
        except IndexError:
            m = None
            out = [0]
        except Exception as e:
            ctx.fail("ns_optim_fft raised %r" % (e,), d, {"op": "ns_optim_fft", "kind": "exception"})
            continue
        cs.add([1, n], out, d)
        cs.evals += 1
        if 1 <= n <= B_LIMIT:
            ref = SMOOTH[bisect.bisect_left(SMOOTH, n)]
            if m != ref:
                ctx.fail("ns_optim_fft(%d) = %s, the smallest 2^a 3^b >= n is %d" % (n, m, ref), d,
                         {"op": "ns_optim_fft", "kind": "not-smallest"})
            cs.count("ns_optim_in_domain")
            if m != n:
                cs.nontrivial.add(("ns", n))
        else:
            cs.count("ns_optim_outside_domain")


# ---------------------------------------------------------------------------
# convolve
# ---------------------------------------------------------------------------
def direct_full(x, w):
    """textbook linear convolution of integer sequences, exact (python ints via int64)"""
    return np.convolve(np.asarray(x, dtype=np.int64), np.asarray(w, dtype=np.int64))


def direct_rows(xb, wb):
    """direct convolution of each row pair; unit-impulse rows are done by placement (exact, vectorised)"""
    rows, nsx = xb.shape
    nsw = wb.shape[1]
    if rows > 4 and np.all((xb == 0) | (xb == 1)) and np.all(xb.sum(axis=1) == 1):
        out = np.zeros((rows, nsx + nsw - 1), dtype=np.int64)
        pos = np.argmax(xb, axis=1)
        out[np.arange(rows)[:, None], pos[:, None] + np.arange(nsw)[None, :]] = wb
        return out
    return np.stack([direct_full(xb[i], wb[i]) for i in range(rows)])


DT_CODE = {"float32": 0, "float64": 1}


def conv_operand(a, dtype, den, noncontig):
    """integer array a -> a/den in the requested dtype (den > 1 only with float dtypes; dyadic, hence exact)"""
    if den == 1:
        return as_dtype(a, dtype, noncontig)
    return as_dtype(np.asarray(a, dtype=np.float64) / den, dtype, noncontig)


def conv_check(ctx, cs, x, w, tag, model=True, dtype="float64", wdtype=None, noncontig=False, xden=1, wden=1):
    """x: int array (..., nsx); w: int array (..., nsw) broadcastable on the leading axes.  The operands passed
    to the implementation are x/xden and w/wden (dyadic denominators: exact), the result is compared after
    multiplication by xden*wden with the exact integer convolution of x and w."""
    f = F()
    nsx, nsw = x.shape[-1], w.shape[-1]
    wdtype = wdtype or dtype
    tol = 1e-4 if "float32" in (dtype, wdtype) else TOL          # single precision transform for float32 data
    d = {"op": "convolve", "x": x.tolist(), "w": w.tolist(), "kind": tag, "dtype": dtype, "wdtype": wdtype,
         "noncontig": noncontig, "xden": xden, "wden": wden}
    tags = {"op": "convolve", "nsx_plus_nsw_pow3": int(f_is_pow3(smooth_ge(nsx + nsw)))}
    lead = np.broadcast_shapes(x.shape[:-1], w.shape[:-1])
    xb = np.broadcast_to(x, lead + (nsx,)).reshape(-1, nsx)
    wb = np.broadcast_to(w, lead + (nsw,)).reshape(-1, nsw)
    res = {}
    for mode in ("full", "same"):
        try:
            c = f.convolve(conv_operand(x, dtype, xden, noncontig), conv_operand(w, wdtype, wden, noncontig), mode=mode)
        except Exception as e:
            ctx.fail("convolve(mode=%s) raised %r" % (mode, e), d, dict(tags, kind="exception", mode=mode))
            return
        c = np.asarray(c)
        exp_dt = "float32" if (dtype, wdtype) == ("float32", "float32") else "float64"     # = model op 9
        if str(c.dtype) != exp_dt:
            ctx.fail("convolve(%s, %s) returned dtype %s; the result is computed in the promoted type %s"
                     % (dtype, wdtype, c.dtype, exp_dt), d, dict(tags, kind="dtype", mode=mode))
            return
        c = c.astype(np.float64) * (xden * wden)
        explen = nsx + nsw if mode == "full" else nsx
        if c.shape != lead + (explen,):
            ctx.fail("convolve(mode=%s) returned shape %s, expected %s" % (mode, c.shape, lead + (explen,)),
                     d, dict(tags, kind="shape", mode=mode))
            return
        scale = max(1.0, float(np.abs(xb).sum(axis=-1).max()) * float(np.abs(wb).max()))
        r, ok = near_int(c.reshape(-1, explen), scale, tol)
        if not ok:
            ctx.fail("convolve(mode=%s) of integer sequences is not integer-valued within tolerance*scale" % mode,
                     d, dict(tags, kind="values", mode=mode))
            return
        res[mode] = r
    first = (nsw - 1) // 2
    direct = direct_rows(xb, wb)
    for i in range(xb.shape[0]):
        full = direct[i]
        if not (np.array_equal(res["full"][i, :-1], full) and res["full"][i, -1] == 0):
            ctx.fail("convolve 'full' differs from direct convolution (row %d)" % i, d,
                     dict(tags, kind="values", mode="full"))
            return
        if not np.array_equal(res["same"][i], full[first:first + nsx]):
            ctx.fail("convolve 'same' is not the centred crop of the direct convolution (row %d)" % i, d,
                     dict(tags, kind="values", mode="same"))
            return
    cs.evals += 2 * xb.shape[0]
    cs.count("convolve_rows", xb.shape[0])
    cs.count("convolve_" + tag)
    cs.count("convolve_padded_odd" if smooth_ge(nsx + nsw) % 2 else "convolve_padded_even")
    cs.count("convolve_nsw_even" if nsw % 2 == 0 else "convolve_nsw_odd")
    if nsw > nsx:
        cs.count("convolve_nsw_gt_nsx")
    cs.nontrivial.add(("conv", nsx, nsw, tag))
    key9 = (DT_CODE.get(dtype, 2), DT_CODE.get(wdtype, 2))
    if key9 not in cs.seen9:
        cs.seen9.add(key9)
        cs.add([9, key9[0], key9[1]], [DT_CODE[exp_dt]], {"op": "convolve-dtype", "dtype": dtype, "wdtype": wdtype})
    if model:
        for i in range(xb.shape[0]):
            cs.add([2, nsx, nsw] + xb[i].tolist() + wb[i].tolist(),
                   [1, nsx + nsw] + res["full"][i].tolist() + [1, nsx] + res["same"][i].tolist(),
                   {"op": "convolve", "x": xb[i].tolist(), "w": wb[i].tolist(), "kind": tag})


def smooth_ge(n):
    return SMOOTH[bisect.bisect_left(SMOOTH, n)]


def f_is_pow3(n):
    while n % 3 == 0:
        n //= 3
    return n == 1


def rand_ints(rng, n, lo=-9, hi=9):
    return np.array([rng.randint(lo, hi) for _ in range(n)], dtype=np.int64)


def part_convolve(ctx, cs):
    rng = ctx.rng
    thorough = ctx.thorough()
    # (a) every pair of lengths up to a small bound: generic integer contents, 1-D, through the model
    small = 40 if thorough else 20
    for nsx in range(1, small + 1):
        for nsw in range(1, small + 1):
            conv_check(ctx, cs, rand_ints(rng, nsx), rand_ints(rng, nsw), "generic-1d")
    # (b) full impulse bases for small sizes through the model (x impulses x distinct w; x distinct, w impulses)
    nb = 12 if thorough else 8
    for nsx in range(1, nb + 1):
        for nsw in range(1, nb + 1):
            conv_check(ctx, cs, np.eye(nsx, dtype=np.int64), np.arange(1, nsw + 1, dtype=np.int64), "x-impulse-basis")
            conv_check(ctx, cs, np.arange(1, nsx + 1, dtype=np.int64), np.eye(nsw, dtype=np.int64), "w-impulse-basis")
    # (c) the property's box 1..300 x 1..300: impulse basis in x against a kernel of distinct integers,
    #     oracle on the implementation (all of it in thorough, a stride in quick); a sample through the model
    box = [(a, b) for a in range(1, 301) for b in range(1, 301)]
    if not thorough:
        off = rng.randrange(89)
        box = box[off::89]
    # sums whose padded size is a power of three / of two, and their neighbours, always
    special = set()
    for s in (3, 9, 27, 81, 243, 729, 4, 8, 16, 32, 64, 128, 256, 512, 6, 12, 24, 48, 96, 18, 54, 162, 486):
        for tot in (s - 2, s - 1, s, s + 1, s + 2):
            for _ in range(3 if not thorough else 8):
                a = rng.randrange(1, tot) if tot > 1 else 1
                b = tot - a
                if a >= 1 and b >= 1 and a <= 600 and b <= 600:
                    special.add((a, b))
            if tot >= 2:
                special.add((1, tot - 1))
                special.add((tot - 1, 1))
                special.add((tot // 2, tot - tot // 2))
    pairs = list(dict.fromkeys(box + sorted(special)))
    # the model's circular convolution is cubic in the padded size: only a few large pairs go through it
    big_model = set(rng.sample([p for p in pairs if 250 < p[0] + p[1] <= 760], 3))
    for k, (nsx, nsw) in enumerate(pairs):
        big = nsx * (nsx + nsw) > 40000 and not thorough      # thorough: the full x-impulse basis for every pair
        if big:
            rows = sorted({0, 1, nsx // 2, nsx - 2, nsx - 1} & set(range(nsx)))
            x = np.eye(nsx, dtype=np.int64)[rows]
        else:
            x = np.eye(nsx, dtype=np.int64)
        conv_check(ctx, cs, x, np.arange(1, nsw + 1, dtype=np.int64), "box-x-impulses", model=False)
        # generic contents on the same pair, through the model when affordable
        conv_check(ctx, cs, rand_ints(rng, nsx), rand_ints(rng, nsw), "box-generic",
                   model=(nsx + nsw <= 64) or (k % (300 if thorough else 40) == 0 and nsx + nsw <= 250) or (nsx, nsw) in big_model)
    # (d) leading axes: 2-D x 1-D, 1-D x 2-D, 2-D x 2-D, 3-D x 1-D, 3-D x 3-D (the transform is along the last axis)
    for _ in range(60 if thorough else 20):
        nsx, nsw = rng.randrange(1, 30), rng.randrange(1, 30)
        a, b = rng.randrange(1, 4), rng.randrange(1, 4)
        shapes = [((a, nsx), (nsw,)), ((nsx,), (a, nsw)), ((a, nsx), (a, nsw)), ((a, b, nsx), (nsw,)),
                  ((a, b, nsx), (a, b, nsw)), ((a, b, nsx), (b, nsw))]
        sx, sw = rng.choice(shapes)
        x = rand_ints(rng, int(np.prod(sx))).reshape(sx)
        w = rand_ints(rng, int(np.prod(sw))).reshape(sw)
        conv_check(ctx, cs, x, w, "nd-%dx%d" % (len(sx), len(sw)))
    # (e) representation: float32 / signed / unsigned integer dtypes (mixed between x and w), non-contiguous
    #     views; lengths include padded sizes that are powers of three
    for k in range(120 if thorough else 48):
        nsx, nsw = rng.choice([(rng.randrange(1, 30), rng.randrange(1, 30)), (13, 14), (20, 7), (3, 6), (40, 41), (1, 2)])
        dt, wdt = DTYPES[k % len(DTYPES)], rng.choice(DTYPES)
        lo = 0 if "uint8" in (dt, wdt) else -9
        sx = rng.choice([(nsx,), (2, nsx), (2, 3, nsx)])
        x = rand_ints(rng, int(np.prod(sx)), lo, 9).reshape(sx)
        w = rand_ints(rng, nsw, lo, 9)
        conv_check(ctx, cs, x, w, "dtype-%s" % dt, dtype=dt, wdtype=wdt, noncontig=(k % 3 == 0))
        cs.count("convolve_noncontig" if k % 3 == 0 else "convolve_contig_dtype")
    # (f) dtype promotion: an integer-dtype (or float32) operand with a FRACTIONAL operand of another dtype, both
    #     ways round (raw int16 samples x boxcar-mean / dyadic kernels; fractional signal x integer kernel)
    INTS = ["int16", "int32", "int64", "uint8", "int8"]
    for k in range(90 if thorough else 40):
        nsx, nsw = rng.choice([(rng.randrange(1, 30), rng.randrange(1, 30)), (13, 14), (20, 7), (3, 6), (1, 1), (2, 1)])
        idt = INTS[k % len(INTS)]
        fdt = rng.choice(["float64", "float64", "float32"])
        den = rng.choice([2, 4, 8, 16])
        lo = 0 if idt == "uint8" else -9
        sx = rng.choice([(nsx,), (2, nsx)])
        if k % 2 == 0:      # integer signal, fractional kernel
            conv_check(ctx, cs, rand_ints(rng, int(np.prod(sx)), lo, 9).reshape(sx), rand_ints(rng, nsw, -9, 9),
                       "int-signal-frac-kernel", dtype=idt, wdtype=fdt, wden=den, noncontig=(k % 5 == 0))
        else:               # fractional signal, integer kernel
            conv_check(ctx, cs, rand_ints(rng, int(np.prod(sx)), -9, 9).reshape(sx), rand_ints(rng, nsw, lo, 9),
                       "frac-signal-int-kernel", dtype=fdt, wdtype=idt, xden=den, noncontig=(k % 5 == 0))
    for k in range(30 if thorough else 12):
        # textbook kernels (hanning, boxcar mean, random) in float64 against np.convolve, integer-dtype signals
        nsx, nsw = rng.randrange(2, 60), rng.randrange(2, 26)
        idt = INTS[k % len(INTS)]
        xs = rand_ints(rng, nsx, 0 if idt == "uint8" else -100, 100).astype(idt)
        wk = [np.hanning(nsw), np.ones(nsw) / nsw, np.array([rng.uniform(-1, 1) for _ in range(nsw)])][k % 3]
        d = {"op": "convolve-float-kernel", "x": xs.tolist(), "xdtype": idt, "w": wk.tolist()}
        ref = np.convolve(xs.astype(np.float64), wk)
        first = (nsw - 1) // 2
        try:
            cf = np.asarray(f_mod().convolve(xs, wk, mode="full"))
            csame = np.asarray(f_mod().convolve(xs, wk, mode="same"))
        except Exception as e:
            ctx.fail("convolve(integer signal, float kernel) raised %r" % (e,), d, {"op": "convolve", "kind": "exception"})
            continue
        tolv = TOL * max(1.0, float(np.abs(xs.astype(float)).sum()))
        if cf.shape != (nsx + nsw,) or np.max(np.abs(cf[:-1] - ref)) > tolv or abs(cf[-1]) > tolv:
            ctx.fail("convolve 'full' of an integer-dtype signal with a float kernel differs from np.convolve in float64",
                     d, {"op": "convolve", "kind": "values", "mode": "full", "mixed": "int-x-float"})
        elif csame.shape != (nsx,) or np.max(np.abs(csame - ref[first:first + nsx])) > tolv:
            ctx.fail("convolve 'same' of an integer-dtype signal with a float kernel differs from np.convolve in float64",
                     d, {"op": "convolve", "kind": "values", "mode": "same", "mixed": "int-x-float"})
        cs.evals += 2
        cs.count("convolve_int_signal_float_kernel")


# ---------------------------------------------------------------------------
# fscale
# ---------------------------------------------------------------------------
def part_fscale(ctx, cs):
    f = F()
    rng = ctx.rng
    lens = list(range(1, 301)) + [rng.randrange(301, 5001) for _ in range(20)] + [rng.randrange(301, 100000) for _ in range(20)] + [2 ** 16, 3 ** 9, 30000, 30001]
    for ns in lens:
        for one_sided in (False, True):
            si = rng.choice([1, 0.5, 0.002, 1 / 30000, 1 / 2500, 3.0])
            d = {"op": "fscale", "ns": ns, "si": si, "one_sided": one_sided}
            try:
                ns_in = rng.choice([int, np.int64, np.int32])(ns)
                fs = np.asarray(f.fscale(ns_in, si, one_sided=one_sided), dtype=np.float64)
            except Exception as e:
                ctx.fail("fscale raised %r" % (e,), d, {"op": "fscale", "kind": "exception"})
                continue
            bins, ok = near_int(fs * ns * si, max(1.0, ns))
            if fs.ndim != 1 or not ok:
                ctx.fail("fscale values are not multiples of 1/(ns*si)", d, {"op": "fscale", "kind": "values"})
                continue
            # oracle: DFT bin frequencies, Nyquist counted positive
            n_exp = ns // 2 + 1 if one_sided else ns
            exp = np.array([i if i <= ns // 2 else i - ns for i in range(n_exp)], dtype=np.int64)
            if bins.shape != exp.shape or not np.array_equal(bins, exp):
                ctx.fail("fscale differs from the DFT bin frequencies", d, {"op": "fscale", "kind": "bins"})
            ref = np.fft.rfftfreq(ns, si) if one_sided else np.abs(np.fft.fftfreq(ns, si))
            if fs.shape == ref.shape and not np.allclose(np.abs(fs), ref, rtol=1e-9, atol=0):
                ctx.fail("fscale magnitudes differ from numpy's fftfreq", d, {"op": "fscale", "kind": "fftfreq"})
            if ns <= 5000:
                cs.add([3, ns, int(one_sided)], [len(bins)] + bins.tolist(), d)
            cs.evals += 1
            cs.count("fscale_odd" if ns % 2 else "fscale_even")
            if ns > 2:
                cs.nontrivial.add(("fscale", ns, one_sided))


# ---------------------------------------------------------------------------
# freduce / fexpand
# ---------------------------------------------------------------------------
def gauss(rng, shape, real=False):
    n = int(np.prod(shape))
    re = rand_ints(rng, n).astype(np.float64)
    im = np.zeros(n) if real else rand_ints(rng, n).astype(np.float64)
    return (re + 1j * im).reshape(shape)


def flat_c(v):
    out = []
    for z in v:
        out += [int(round(z.real)), int(round(z.imag))]
    return out


def fibres(a, axis):
    a = np.moveaxis(np.asarray(a), axis, -1)
    return a.reshape(-1, a.shape[-1])


def part_half(ctx, cs):
    f = F()
    rng = ctx.rng
    # (a) 1-D, every length 1..300 (both parities), Gaussian-integer contents: model correspondence
    lens = list(range(0, 301)) if ctx.thorough() else list(range(0, 80)) + sorted(rng.sample(range(80, 301), 40)) + [243, 256, 257, 299, 300]
    for n in lens:
        X = gauss(rng, (n,))
        d = {"op": "freduce", "x": flat_c(X), "shape": [n], "axis": 0}
        try:
            r = np.asarray(f.freduce(X))
            if r.ndim != 1:
                ctx.fail("freduce of a 1-D array returned shape %s" % (r.shape,), d, {"op": "freduce", "kind": "shape"})
                continue
            cs.add([4, n] + flat_c(X), [1, len(r)] + flat_c(r), d)
            if n == 0:
                ctx.fail("freduce of an empty axis returned", d, {"op": "freduce", "kind": "empty"})
        except IndexError:
            cs.add([4, n] + flat_c(X), [0], d)
            r = None
        except Exception as e:
            ctx.fail("freduce raised %r" % (e,), d, {"op": "freduce", "kind": "exception"})
            continue
        cs.evals += 1
        if n >= 1 and (r is None or len(r) != n // 2 + 1 or not np.array_equal(r, X[:n // 2 + 1])):
            ctx.fail("freduce is not the first n//2+1 coefficients", d, {"op": "freduce", "kind": "values"})
        if n < 1:
            continue
        # fexpand with every plausible ns around 2*len-2 .. 2*len, incl. wrong ones (IndexError class)
        H = gauss(rng, (n,))
        for ns in sorted({2 * n - 3, 2 * n - 2, 2 * n - 1, 2 * n, 2 * n + 1, 2 * n + 2, 1, 0, n}):
            if ns < 0:
                continue
            d = {"op": "fexpand", "x": flat_c(H), "shape": [n], "axis": 0, "ns": ns}
            try:
                e = np.asarray(f.fexpand(H, ns))
                if e.ndim != 1:
                    ctx.fail("fexpand of a 1-D array returned shape %s" % (e.shape,), d, {"op": "fexpand", "kind": "shape"})
                    continue
                out = [1, len(e)] + flat_c(e)
            except IndexError:
                out = [0]
                e = None
            except Exception as ex:
                ctx.fail("fexpand raised %r" % (ex,), d, {"op": "fexpand", "kind": "exception"})
                continue
            cs.add([5, ns, n] + flat_c(H), out, d)
            cs.evals += 1
            cs.count("fexpand_indexerror" if e is None else "fexpand_ok")
            if ns >= 1 and ns // 2 + 1 == n:
                # freduce o fexpand = id for the matching length, result has ns entries
                if e is None or len(e) != ns:
                    ctx.fail("fexpand(x, ns) does not have ns entries", d, {"op": "fexpand", "kind": "length"})
                else:
                    back = np.asarray(f.freduce(e))
                    if not np.array_equal(back, H):
                        ctx.fail("freduce(fexpand(x, ns)) != x", d, {"op": "fexpand", "kind": "inverse"})
                    cs.nontrivial.add(("fexpand", ns))
    # (b) spectra of real signals: fexpand(freduce(X), ns) == X, for every length and every axis of 1-3-D arrays
    shapes = [(n,) for n in range(1, 301 if ctx.thorough() else 120)]
    for _ in range(150 if ctx.thorough() else 50):
        nd = rng.choice([2, 3])
        shapes.append(tuple(rng.randrange(1, 14) for _ in range(nd)))
    for shp in shapes:
        for axis in range(len(shp)):
            ns = shp[axis]
            x = rand_ints(rng, int(np.prod(shp))).reshape(shp).astype(np.float64)
            X = np.fft.fft(x, axis=axis)
            d = {"op": "half-roundtrip", "x": x.astype(int).tolist(), "axis": axis}
            tags = {"op": "half-roundtrip", "parity": ns % 2}
            try:
                ax = axis if (len(shp) > 1 or rng.random() < 0.5) else None
                if ax is not None and rng.random() < 0.3:
                    ax = axis - len(shp)            # negative axis numbers name the same axes
                Hh = f.freduce(X, axis=ax)
                E = f.fexpand(Hh, ns, axis=ax)
            except Exception as e:
                ctx.fail("freduce/fexpand raised %r on the spectrum of a real signal" % (e,), d, dict(tags, kind="exception"))
                continue
            scale = max(1.0, float(np.abs(x).sum()))
            if E.shape != X.shape or np.max(np.abs(E - X)) > TOL * scale:
                ctx.fail("fexpand(freduce(X), ns) != X for the spectrum of a real signal", d, dict(tags, kind="values"))
                continue
            back = np.fft.ifft(E, axis=axis)
            if np.max(np.abs(back - x)) > TOL * scale:
                ctx.fail("ifft(fexpand(freduce(fft(x)))) != x", d, dict(tags, kind="roundtrip"))
            cs.evals += 1
            cs.count("half_roundtrip_odd" if ns % 2 else "half_roundtrip_even")
            cs.count("half_roundtrip_%dd" % len(shp))
            # Gaussian-integer array, same shape and axis: each fibre through the model
            if len(shp) > 1:
                G = gauss(rng, shp)
                rep = rng.choice(["c128", "c64", "noncontig", "npaxis", "int"])
                axp = axis
                if rep == "c64":
                    G = G.astype(np.complex64)              # small integers: exact in single precision
                elif rep == "noncontig":
                    G = np.ascontiguousarray(np.swapaxes(G, 0, -1)).swapaxes(0, -1)
                elif rep == "npaxis":
                    axp = rng.choice([np.int64, np.int32, np.intp])(axis)
                elif rep == "int":
                    G = G.real.astype(rng.choice([np.int64, np.int32, np.int16]))
                cs.count("half_rep_" + rep)
                try:
                    r = f.freduce(G, axis=axp)
                    e = f.fexpand(r, ns if rep != "npaxis" else np.int64(ns), axis=axp)
                except Exception as ex:
                    ctx.fail("freduce/fexpand raised %r" % (ex,), {"op": "freduce-nd", "shape": list(shp), "axis": axis},
                             {"op": "freduce", "kind": "exception"})
                    continue
                for g, rr, ee in zip(fibres(G, axis), fibres(r, axis), fibres(e, axis)):
                    cs.add([4, ns] + flat_c(g), [1, len(rr)] + flat_c(rr),
                           {"op": "freduce", "x": flat_c(g), "shape": [ns], "axis": 0})
                    cs.add([5, ns, len(rr)] + flat_c(rr), [1, len(ee)] + flat_c(ee),
                           {"op": "fexpand", "x": flat_c(rr), "shape": [len(rr)], "axis": 0, "ns": ns})
                    cs.evals += 2


# ---------------------------------------------------------------------------
# explicit DFTs
# ---------------------------------------------------------------------------
def part_dft(ctx, cs):
    f = F()
    rng = ctx.rng
    shapes = [(n,) for n in range(1, 65)] + [(243,), (256,), (257,), (300,)]
    for _ in range(120 if ctx.thorough() else 40):
        shapes.append(tuple(rng.randrange(1, 13) for _ in range(rng.choice([2, 3]))))
    for shp in shapes:
        for axis in range(len(shp)):
            for cplx in (False, True):
                x = gauss(rng, shp, real=not cplx)
                if cplx and rng.random() < 0.3:
                    x = x.real + 0j          # complex dtype, no imaginary part: treated as real by the code
                is_c = bool(np.any(np.iscomplex(x)))
                ns = shp[axis]
                d = {"op": "dft", "x": flat_c(x.reshape(-1)), "shape": list(shp), "axis": axis}
                xin = x
                rep = rng.choice(["plain", "plain", "f32", "int", "noncontig", "npaxis"])
                if rep == "f32":
                    xin = x.astype(np.complex64) if is_c else x.real.astype(np.float32)
                elif rep == "int" and not is_c:
                    xin = x.real.astype(rng.choice([np.int64, np.int32, np.int16]))
                elif rep == "noncontig" and len(shp) > 1:
                    xin = np.ascontiguousarray(np.swapaxes(x, 0, -1)).swapaxes(0, -1)
                axp = (axis - len(shp)) if rng.random() < 0.3 else axis
                if rep == "npaxis":
                    axp = rng.choice([np.int64, np.int32])(axp)
                cs.count("dft_rep_" + rep)
                try:
                    X = np.asarray(f.dft(xin, axis=axp))
                except Exception as e:
                    ctx.fail("dft raised %r" % (e,), d, {"op": "dft", "kind": "exception"})
                    continue
                ref = np.fft.fft(x, axis=axis) if is_c else np.fft.rfft(x.real, axis=axis)
                scale = max(1.0, float(np.abs(x).sum()))
                if X.shape != ref.shape or np.max(np.abs(X - ref)) > TOL * scale:
                    ctx.fail("explicit dft differs from the FFT", d, {"op": "dft", "kind": "values", "complex": is_c})
                    continue
                cs.add([7, ns, int(is_c)], [X.shape[axis]], d)
                cs.evals += 1
                cs.count("dft_%dd" % len(shp))
                if ns > 2:
                    cs.nontrivial.add(("dft", shp, axis, is_c))
    # dft2 on a regular grid equals the 2-D FFT
    for _ in range(30 if ctx.thorough() else 10):
        n0, n1, nt = rng.randrange(1, 9), rng.randrange(1, 9), rng.randrange(1, 5)
        x = rand_ints(rng, n0 * n1 * nt).reshape(n0 * n1, nt).astype(np.float64)
        r, c = [v.flatten() for v in np.meshgrid(np.arange(n0) / n0, np.arange(n1) / n1, indexing="ij")]
        d = {"op": "dft2", "x": x.astype(int).tolist(), "n0": n0, "n1": n1}
        try:
            X = f.dft2(x, r, c, n0, n1)
        except Exception as e:
            ctx.fail("dft2 raised %r" % (e,), d, {"op": "dft2", "kind": "exception"})
            continue
        ref = np.fft.fft(np.fft.fft(x.reshape(n0, n1, nt), axis=0), axis=1)
        if X.shape != ref.shape or np.max(np.abs(X - ref)) > TOL * max(1.0, float(np.abs(x).sum())):
            ctx.fail("dft2 on a regular grid differs from the 2-D FFT", d, {"op": "dft2", "kind": "values"})
        cs.evals += 1
        cs.count("dft2")



# ---------------------------------------------------------------------------
# public parameters that the other parts leave at their defaults
#   dft(x, xscale, axis, kscale): xscale, kscale        dft2(x, r, c, nk, nl): irregular r, c; nk, nl != grid
#   fexpand(x, ns=1): default ns                          (convolve / fcn_cosine gpu=True need cupy: not run)
# ---------------------------------------------------------------------------
def part_params(ctx, cs):
    f, rng = F(), ctx.rng
    for it in range(120 if ctx.thorough() else 48):
        nd = rng.choice([1, 1, 2, 3])
        shp = [rng.randrange(1, 6) for _ in range(nd)]
        axis = rng.randrange(nd)
        ns = rng.choice([1, 2, 3, 4, 5, 7, 8, 9, 12, 16, 27])
        shp[axis] = ns
        cplx = rng.random() < 0.4
        x = gauss(rng, shp, real=not cplx)
        kind = ["centred", "negative", "subset", "permutation", "upper-half", "repeat", "beyond", "single", "prefix"][it % 9]
        full = list(range(ns))
        ks = {"centred": list(range(-(ns // 2), ns - ns // 2)), "negative": [-k for k in range(1, ns + 1)],
              "subset": sorted(rng.sample(full, max(1, ns // 2))), "permutation": rng.sample(full, ns),
              "upper-half": list(range(ns // 2, ns)), "repeat": [rng.randrange(ns) for _ in range(ns + 2)],
              "beyond": [ns, ns + 1, 2 * ns + 1, -ns - 1], "single": [rng.randrange(-ns, 2 * ns)],
              "prefix": list(range(max(1, ns - 1)))}[kind]
        xs_kind = rng.choice(["default", "arange", "shifted", "permuted"])
        xscale = {"default": None, "arange": np.arange(ns), "shifted": np.arange(ns) + rng.randrange(-3, 4),
                  "permuted": np.array(rng.sample(full, ns))}[xs_kind]
        kdt = rng.choice([np.int64, np.int32, np.float64])
        d = {"op": "dft-kscale", "x": flat_c(x.reshape(-1)), "shape": shp, "axis": axis, "kscale": ks, "kind": kind,
             "xscale": None if xscale is None else xscale.tolist()}
        tags = {"op": "dft", "kind": "kscale-" + kind, "xscale": xs_kind}
        kw = {} if xscale is None else {"xscale": xscale}
        try:
            X = np.asarray(f.dft(x if cplx else x.real, axis=axis, kscale=np.array(ks, dtype=kdt), **kw))
        except Exception as e:
            ctx.fail("dft(kscale=%s bins) raised %r" % (kind, e), d, dict(tags, err="exception"))
            continue
        # textbook: X[j] = sum_n x[n] exp(-2 pi i xscale[n] k_j / ns) along the axis
        xsc = np.arange(ns) if xscale is None else xscale
        E = np.exp(-2j * np.pi / ns * np.outer(np.array(ks, dtype=float), xsc))
        ref = np.moveaxis(np.tensordot(E, np.moveaxis(x, axis, 0), axes=(1, 0)), 0, axis)
        scale = max(1.0, float(np.abs(x).sum()))
        if X.shape != ref.shape or np.max(np.abs(X - ref)) > TOL * scale * (1 + max(abs(k) for k in ks)):
            ctx.fail("dft at the requested bins (%s kscale) differs from sum_n x[n] exp(-2 pi i n k / ns)" % kind, d, tags)
            continue
        if xs_kind in ("default", "arange"):
            fx = np.take(np.fft.fft(x, axis=axis), [k % ns for k in ks], axis=axis)
            if np.max(np.abs(X - fx)) > TOL * scale * (1 + max(abs(k) for k in ks)):
                ctx.fail("dft at the requested bins (%s kscale) differs from the FFT at those bins" % kind, d, tags)
        cs.add([10, ns, int(bool(np.any(np.iscomplex(x)))), len(ks)], [X.shape[axis]], d)
        cs.evals += 1
        cs.count("dft_kscale_" + kind)
        cs.count("dft_xscale_" + xs_kind)
        cs.nontrivial.add(("dftk", it))
    # dft2: irregular positions, output sizes different from the grid
    for it in range(40 if ctx.thorough() else 16):
        nrc, nt = rng.randrange(1, 12), rng.randrange(1, 4)
        nk, nl = rng.randrange(1, 6), rng.randrange(1, 6)
        x = rand_ints(rng, nrc * nt).reshape(nrc, nt).astype(np.float64)
        den = rng.choice([1, 2, 4, 5, 8])
        r = np.array([rng.randrange(0, 2 * den) for _ in range(nrc)]) / den
        c = np.array([rng.randrange(-den, den) for _ in range(nrc)]) / den
        d = {"op": "dft2-irregular", "x": x.astype(int).tolist(), "r": r.tolist(), "c": c.tolist(), "nk": nk, "nl": nl}
        try:
            X = np.asarray(f.dft2(x, r, c, nk, nl))
        except Exception as e:
            ctx.fail("dft2 raised %r" % (e,), d, {"op": "dft2", "kind": "exception"})
            continue
        kk, ll = np.meshgrid(np.arange(nk), np.arange(nl), indexing="ij")
        E = np.exp(-2j * np.pi * (kk[..., None] * r[None, None, :] + ll[..., None] * c[None, None, :]))
        ref = np.tensordot(E, x, axes=(2, 0))
        if X.shape != (nk, nl, nt) or np.max(np.abs(X - ref)) > TOL * max(1.0, float(np.abs(x).sum())) * (nk + nl):
            ctx.fail("dft2 differs from sum_p x[p] exp(-2 pi i (k r_p + l c_p))", d, {"op": "dft2", "kind": "irregular"})
        cs.evals += 1
        cs.count("dft2_irregular")
    # string-valued options: convolve(mode=...) and _freq_filter / _freq_vector(typ=...), incl. strings that are
    # not options (convolve then returns None, the filters raise) — through the model's mode_class / typ_class
    raw = f._mod                      # unguarded: returning None is the behaviour under test here
    for mode in ("full", "same", "valid", "FULL", "Same", "", "full "):
        for (nsx, nsw) in ((3, 2), (13, 14), (1, 1)):
            x, w = rand_ints(rng, nsx), rand_ints(rng, nsw)
            d = {"op": "convolve-mode", "x": x.tolist(), "w": w.tolist(), "mode": mode}
            try:
                c = raw.convolve(x.astype(float), w.astype(float), mode=mode)
                if c is None:
                    out = [2]
                else:
                    r, ok = near_int(np.asarray(c), max(1.0, float(np.abs(x).sum() * np.abs(w).max())))
                    if not ok or r.ndim != 1:
                        ctx.fail("convolve(mode=%r) is not integer-valued on integer input" % mode, d, {"op": "convolve", "kind": "mode"})
                        continue
                    out = [1, len(r)] + r.tolist()
            except Exception:
                out = [0]
            if mode in ("full", "same") and out[0] != 1:
                ctx.fail("convolve(mode=%r) did not return an array" % mode, d, {"op": "convolve", "kind": "mode"})
            cs.add([12, nsx, nsw, len(mode)] + [ord(ch) for ch in mode] + x.tolist() + w.tolist(), out, d)
            cs.add([11, 1] + [ord(ch) for ch in mode], [{"full": 0, "same": 1}.get(mode, 2)], d)
            cs.evals += 1
            cs.count("convolve_mode_" + ("option" if mode in ("full", "same") else "other"))
    for typ in ("lp", "hp", "bp", "lowpass", "highpass", "LP", "Hp", "HighPass", "LOWPASS", "lOwPaSs", "BP", "Bp",
                "bandpass", "foo", "", "hp ", "l p", "hpp"):
        for ns in (1, 2, 9, 16):
            si, bf = 1.0, [0.1, 0.3, 0.2, 0.45]
            imp = np.zeros(ns)
            imp[0] = 1.0
            d = {"op": "filter-typ", "typ": typ, "ns": ns, "b": bf}
            tb1 = textbook_response(ns, si, bf[0], bf[1])
            cand = {0: tb1, 1: 1.0 - tb1, 2: tb1 * (1.0 - textbook_response(ns, si, bf[2], bf[3]))}
            try:
                h = raw._freq_filter(imp.copy(), si, bf if typ == "bp" else bf[0:2], typ=typ)
                H = np.fft.fft(np.asarray(h)) if h is not None and np.shape(h) == (ns,) else None
                code = next((k for k in (2, 0, 1) if H is not None and np.max(np.abs(H - cand[k])) <= 1e-9
                             and (k == 2) == (typ == "bp")), None)
                if code is None and H is not None:
                    code = next((k for k in (0, 1, 2) if np.max(np.abs(H - cand[k])) <= 1e-9), -1)
            except Exception:
                code = 3
            if code in (None, -1):
                ctx.disagree("_freq_filter(typ=%r) returned something that is neither the hp, lp nor bp response" % typ, d)
                continue
            if ns >= 9:                 # for ns <= 2 several responses coincide
                cs.add([11, 0] + [ord(ch) for ch in typ], [code], d)
            want = {"lp": 1, "hp": 0, "bp": 2}.get(typ)
            if want is not None and code != want and ns >= 9:
                ctx.fail("_freq_filter(typ=%r) does not apply the %s response" % (typ, typ), d, {"op": "filter", "kind": "typ"})
            cs.evals += 1
            cs.count("filter_typ_" + ("option" if code != 3 else "rejected"))
    fv = np.arange(6) / 10.0
    for typ, exp in (("hp", 0), ("highpass", 0), ("HP", 0), ("lp", 1), ("LowPass", 1), ("bp", None), ("x", None)):
        try:
            v = raw._freq_vector(fv, [0.1, 0.3], typ=typ)
        except Exception as e:
            ctx.fail("_freq_vector(typ=%r) raised %r" % (typ, e), {"op": "freq_vector", "typ": typ}, {"op": "filter", "kind": "freq_vector"})
            continue
        tbv = (1 - np.cos(np.pi * np.clip((fv - 0.1) / 0.2, 0, 1))) / 2
        okv = (v is None) if exp is None else (v is not None and np.max(np.abs(np.asarray(v) - (tbv if exp == 0 else 1 - tbv))) < 1e-12)
        if not okv:
            (ctx.disagree if exp is None else ctx.fail)("_freq_vector(typ=%r) is not the %s" % (typ, "documented None" if exp is None else "taper"),
                                                        {"op": "freq_vector", "typ": typ}, {"op": "filter", "kind": "freq_vector"})
        cs.evals += 1
    # gpu=True branches of convolve / fcn_cosine with a NumPy stand-in registered as `cupy` for the duration of
    # these calls only (cupy is not installed): same array API, so the result must equal the gpu=False result
    import sys as _sys
    import types as _types
    had = _sys.modules.get("cupy")
    if had is None:
        stub = _types.ModuleType("cupy")
        for nm in ("concatenate", "zeros", "real", "floor", "ceil", "cos", "pi", "fft"):
            setattr(stub, nm, getattr(np, nm))
        _sys.modules["cupy"] = stub
        try:
            for (nsx, nsw) in ((5, 4), (13, 14), (7, 1)):
                x, w = rand_ints(rng, nsx).astype(float), rand_ints(rng, nsw).astype(float)
                d = {"op": "convolve-gpu-standin", "x": x.tolist(), "w": w.tolist()}
                for mode in ("full", "same"):
                    try:
                        a, b_ = np.asarray(f.convolve(x, w, mode=mode, gpu=True)), np.asarray(f.convolve(x, w, mode=mode))
                        if a.shape != b_.shape or np.max(np.abs(a - b_)) > 0:
                            ctx.fail("convolve(gpu=True) with a NumPy stand-in for cupy differs from gpu=False", d,
                                     {"op": "convolve", "kind": "gpu-standin"})
                    except Exception as e:
                        ctx.fail("convolve(gpu=True) with a NumPy stand-in raised %r" % (e,), d, {"op": "convolve", "kind": "gpu-standin"})
                    cs.evals += 1
            xs = np.linspace(-1, 6, 29)
            try:
                a, b_ = np.asarray(U().fcn_cosine([0, 4], gpu=True)(xs.copy())), np.asarray(U().fcn_cosine([0, 4])(xs.copy()))
                if a.shape != b_.shape or np.max(np.abs(a - b_)) > 0:
                    ctx.fail("fcn_cosine(gpu=True) with a NumPy stand-in for cupy differs from gpu=False",
                             {"op": "fcn_cosine", "bounds": [0, 4], "x": xs.tolist()}, {"op": "fcn_cosine", "kind": "gpu-standin"})
            except Exception as e:
                ctx.fail("fcn_cosine(gpu=True) with a NumPy stand-in raised %r" % (e,),
                         {"op": "fcn_cosine", "bounds": [0, 4], "x": xs.tolist()}, {"op": "fcn_cosine", "kind": "gpu-standin"})
            cs.evals += 1
            cs.count("gpu_standin_calls", 7)
        finally:
            del _sys.modules["cupy"]
    # fexpand with its default ns (=1): nothing is mirrored
    for n in (1, 2, 5):
        H = gauss(rng, (n,))
        d = {"op": "fexpand", "x": flat_c(H), "shape": [n], "axis": 0, "ns": 1}
        try:
            e = np.asarray(f.fexpand(H))
            if e.ndim != 1 or not np.array_equal(e, H):
                ctx.fail("fexpand(x) with the default ns is not x", d, {"op": "fexpand", "kind": "default-ns"})
            else:
                cs.add([5, 1, n] + flat_c(H), [1, len(e)] + flat_c(e), d)
        except Exception as ex:
            ctx.fail("fexpand(x) raised %r" % (ex,), d, {"op": "fexpand", "kind": "exception"})
        cs.evals += 1

# ---------------------------------------------------------------------------
# lp / hp / bp and the cosine taper (numeric comparison against the model's symbolic codes)
# ---------------------------------------------------------------------------
def taper_value(kind, num, den):
    if kind == 0:
        return 0.0
    if kind == 1:
        return 1.0
    return (1.0 - math.cos(math.pi * num / den)) / 2.0


def decode_codes(out):
    """model output of op 6 -> list of taper values, or None"""
    if out[0] == 0:
        return None
    n = out[1]
    body = out[2:]
    return [taper_value(*body[3 * i:3 * i + 3]) for i in range(n)]


def rat(rng, choices):
    return rng.choice(choices)


# relative position of the high-pass taper [b0, b1] and the low-pass taper [b2, b3] of a band-pass (b0 < b1, b2 < b3
# always): the response is the PRODUCT hp * lp whatever the ordering
CORNER_CATS = ["disjoint", "touching", "overlapping", "nested-lp-in-hp", "nested-hp-in-lp", "identical", "reversed",
               "overlapping"]


def arrange_corners(q, cat):
    """q: four distinct sorted numbers -> [b0, b1, b2, b3] in the requested configuration"""
    a, b, c, d = q
    return {"disjoint": [a, b, c, d], "touching": [a, b, b, d], "overlapping": [a, c, b, d],
            "nested-lp-in-hp": [a, d, b, c], "nested-hp-in-lp": [b, c, a, d], "identical": [a, c, a, c],
            "reversed": [c, d, a, b]}[cat]


AXIS_COMBOS = [(nd, ax) for nd in (1, 2, 3, 4) for ax in range(nd)]


def part_filters(ctx, cs):
    f = F()
    rng = ctx.rng
    model = common.Extracted(PROP)
    jobs = []
    n_jobs = 400 if ctx.thorough() else 120
    lens = list(range(1, 41)) + [81, 128, 243, 255, 256, 257, 300]
    for j in range(n_jobs):
        ns = lens[j] if j < len(lens) else rng.randrange(1, 301)
        sp, sq = rng.choice([(1, 1), (1, 2), (1, 1000), (1, 30000), (2, 1), (3, 7)])     # si = sp/sq
        fnyq = sq / (2.0 * sp)
        bd = rng.choice([1, 10, 100, 7])
        # corner frequencies as integers over bd, spread over [0, 1.2 * Nyquist], sorted, distinct
        top = max(4, int(1.2 * fnyq * bd))
        cat = CORNER_CATS[j % len(CORNER_CATS)]
        b = arrange_corners(sorted(rng.sample(range(0, top + 1), 4)), cat)
        if rng.random() < 0.4 and ns > 3:
            # corners exactly on bins: f_k = k*sq/(ns*sp)  (boundary of the < and > tests)
            ks = sorted(rng.sample(range(0, ns // 2 + 2), min(4, ns // 2 + 2)))
            if len(ks) == 4:
                bd = ns * sp
                b = [k * sq for k in arrange_corners(ks, cat)]
        cs.count("bp_corners_" + cat)
        jobs.append((ns, sp, sq, bd, b))
    inputs = []
    for (ns, sp, sq, bd, b) in jobs:
        inputs.append([6, ns, sp, sq, bd, b[0], b[1]])
        inputs.append([6, ns, sp, sq, bd, b[2], b[3]])
    outs = model.run_many(inputs)
    kernel_terms = []
    for j, (ns, sp, sq, bd, b) in enumerate(jobs):
        si = sp / sq
        bf = [v / bd for v in b]
        T1, T2 = decode_codes(outs[2 * j]), decode_codes(outs[2 * j + 1])
        d = {"op": "filter", "ns": ns, "sp": sp, "sq": sq, "bd": bd, "b": b}
        if T1 is None or T2 is None or len(T1) != ns or len(T2) != ns:
            ctx.disagree("model response has the wrong length", d)
            continue
        T1, T2 = np.array(T1), np.array(T2)
        resp = {"hp": T1, "lp": 1.0 - T1, "bp": T1 * (1.0 - T2)}
        if j < 40:
            kernel_terms.append(common.flat_cases_term(2 * j, inputs[2 * j], outs[2 * j]))
        # (1) the response itself, read off the public functions on the unit impulse
        imp = np.zeros(ns)
        imp[0] = 1.0
        for typ, fn, bb in (("hp", f.hp, bf[0:2]), ("lp", f.lp, bf[0:2]), ("bp", f.bp, bf)):
            try:
                h = np.asarray(fn(imp.copy(), si, bb))
            except Exception as e:
                ctx.fail("%s raised %r" % (typ, e), d, {"op": "filter", "typ": typ, "kind": "exception"})
                continue
            Himpl = np.fft.fft(h) if h.shape == (ns,) else np.zeros(ns)
            if h.shape != (ns,) or np.max(np.abs(Himpl - resp[typ])) > 1e-9:
                ctx.disagree("frequency response of %s differs from the model's taper codes" % typ, dict(d, typ=typ))
            tb1 = textbook_response(ns, si, bf[0], bf[1])
            tb = {"hp": tb1, "lp": 1.0 - tb1, "bp": tb1 * (1.0 - textbook_response(ns, si, bf[2], bf[3]))}[typ]
            if h.shape != (ns,) or np.max(np.abs(Himpl - tb)) > 1e-9:
                ctx.fail("frequency response of %s is not %s" % (typ, "the product of the high-pass and low-pass cosine tapers"
                                                                 if typ == "bp" else "the cosine taper at k/(ns*si)"),
                         dict(d, typ=typ), {"op": "filter", "typ": typ, "kind": "response"})
            cs.evals += 1
            # monotone response between 0 and 1 over the positive frequencies (hp rising, lp falling)
            hh = Himpl.real[:ns // 2 + 1]
            if typ == "hp" and (np.any(np.diff(hh) < -1e-9) or hh.min() < -1e-9 or hh.max() > 1 + 1e-9):
                ctx.fail("high-pass response is not monotone within [0, 1]", d, {"op": "filter", "typ": typ, "kind": "monotone"})
            if typ == "lp" and (np.any(np.diff(hh) > 1e-9) or hh.min() < -1e-9 or hh.max() > 1 + 1e-9):
                ctx.fail("low-pass response is not monotone within [0, 1]", d, {"op": "filter", "typ": typ, "kind": "monotone"})
        # (2) integer time series, every axis (0..ndim-1) of a 1-4-D array, cycling through all (ndim, axis)
        #     combinations: lp + hp = identity, bp = lp o hp = product response, every fibre along the axis is
        #     the 1-D filter of that fibre, and each output equals ifft(fft(ts) * model response)
        nd, axis = AXIS_COMBOS[j % len(AXIS_COMBOS)]
        other = [1, 2, 3, 4] + ([ns] if ns <= 6 else [])          # incl. lengths 1 and ns next to the filtered axis
        shp = [rng.choice(other) for _ in range(nd)]
        shp[axis] = ns
        while int(np.prod(shp)) > 20000:
            shp[max((k for k in range(nd) if k != axis), key=lambda k: shp[k])] = 1
        ts = rand_ints(rng, int(np.prod(shp))).reshape(shp).astype(np.float64)
        if rng.random() < 0.3:
            ts = np.zeros(shp)
            ts[tuple(rng.randrange(s) for s in shp)] = 1.0          # an impulse somewhere
        dd = dict(d, ts=ts.astype(int).tolist(), axis=axis)
        use_axis = axis if (axis < nd - 1 or rng.random() < 0.5) else None
        rr = rng.random()
        if use_axis is not None and rr < 0.25:
            use_axis = axis - nd                      # negative axis numbers name the same axes
        elif use_axis is not None and rr < 0.45:
            use_axis = rng.choice([np.int64, np.int32, np.intp])(axis)     # axis as a NumPy integer
        dd["axis_passed"] = repr(use_axis)
        tdt = rng.choice(["float64", "float64", "float32", "int64", "int32", "int16"])
        nc = rng.random() < 0.3
        dd["dtype"], dd["noncontig"] = tdt, nc
        tsin = as_dtype(ts, tdt, nc)
        ftol = 1e-4 if tdt == "float32" else TOL
        cs.count("filter_dtype_" + tdt)
        cs.count("filter_noncontig" if nc else "filter_contig")
        try:
            o_lp = np.asarray(f.lp(tsin.copy() if not nc else tsin, si, bf[0:2], axis=use_axis))
            o_hp = np.asarray(f.hp(tsin.copy() if not nc else tsin, si, bf[0:2], axis=use_axis))
            o_bp = np.asarray(f.bp(tsin.copy() if not nc else tsin, si, bf, axis=use_axis))
            o_lp2 = np.asarray(f.lp(np.asarray(f.hp(tsin, si, bf[0:2], axis=use_axis)), si, bf[2:4], axis=use_axis))
        except Exception as e:
            ctx.fail("lp/hp/bp raised %r" % (e,), dd, {"op": "filter", "kind": "exception", "nd": nd})
            continue
        scale = max(1.0, float(np.abs(ts).sum()))
        tags = {"op": "filter", "nd": nd, "last_axis": axis == nd - 1}
        if o_lp.shape != ts.shape or np.max(np.abs(o_lp + o_hp - ts)) > ftol * scale:
            ctx.fail("lp + hp with the same corners is not the identity", dd, dict(tags, kind="lp+hp"))
        if o_bp.shape != ts.shape or np.max(np.abs(o_bp - o_lp2)) > ftol * scale:
            ctx.fail("bp differs from lp(b[2:4]) applied to hp(b[0:2])", dd, dict(tags, kind="bp-product"))
        if nd > 1 and o_lp.shape == ts.shape:
            for a_, b_ in zip(fibres(ts, axis), fibres(o_lp, axis)):
                if np.max(np.abs(np.asarray(f.lp(a_.copy(), si, bf[0:2])) - b_)) > ftol * scale:
                    ctx.fail("lp along axis %d of a %d-D array is not the 1-D filter of each fibre" % (axis, nd),
                             dd, dict(tags, kind="fibre"))
                    break
        S = np.fft.fft(ts, axis=axis)
        bshape = [1] * nd
        bshape[axis] = ns
        for typ, o in (("hp", o_hp), ("lp", o_lp), ("bp", o_bp)):
            ref = np.real(np.fft.ifft(S * resp[typ].reshape(bshape), axis=axis))
            if o.shape != ref.shape or np.max(np.abs(o - ref)) > ftol * scale:
                ctx.disagree("%s output differs from ifft(fft(ts) * model response)" % typ, dict(dd, typ=typ))
        cs.evals += 4
        cs.count("filter_%dd" % nd)
        cs.count("filter_axis_last" if axis == nd - 1 else "filter_axis_inner")
        cs.count("filter_nd%d_axis%d" % (nd, axis))
        cs.count("filter_odd" if ns % 2 else "filter_even")
        if ns > 3:
            cs.nontrivial.add(("filter", j))
    # (3) negative axis numbers name the same axes: lp(ts, axis=-k) must equal lp(ts, axis=ndim-k)
    for nd in (1, 2, 3):
        for k in range(1, nd + 1):
            shp = [rng.randrange(2, 6) for _ in range(nd)]
            ts = rand_ints(rng, int(np.prod(shp))).reshape(shp).astype(np.float64)
            dn = {"op": "filter-negative-axis", "ts": ts.astype(int).tolist(), "axis": -k, "si": 1, "b": [0.1, 0.3]}
            tg = {"op": "filter", "kind": "negative-axis"}
            try:
                o = np.asarray(f.lp(ts.copy(), 1, [0.1, 0.3], axis=-k))
                ref = np.asarray(f.lp(ts.copy(), 1, [0.1, 0.3], axis=nd - k))
                if o.shape != ref.shape or np.max(np.abs(o - ref)) > TOL * max(1.0, float(np.abs(ts).sum())):
                    ctx.fail("lp(ts, axis=%d) on a %d-D array differs from lp(ts, axis=%d) (shape %s vs %s)"
                             % (-k, nd, nd - k, o.shape, ref.shape), dn, tg)
            except Exception as e:
                ctx.fail("lp(ts, axis=%d) on a %d-D array raised %r" % (-k, nd, e), dn, tg)
            cs.evals += 1
            cs.count("filter_negative_axis")
    bad = common.coq_mismatches(PROP, HEADER, kernel_terms) if kernel_terms else []
    for i in bad:
        ctx.disagree("kernel-evaluated taper codes differ from the extracted model", {"op": "filter-codes", "flat": inputs[i]})
    ctx.coverage["filter_model_evaluations_extracted"] = len(inputs)
    ctx.coverage["filter_model_evaluations_kernel"] = len(kernel_terms)


def part_cosine(ctx, cs):
    u = U()
    rng = ctx.rng
    worst = 0.0
    for _ in range(400 if ctx.thorough() else 150):
        b0 = rng.choice([0.0, 1.0, -3.0, 20.0, rng.uniform(-100, 100)])
        b1 = b0 + rng.choice([1.0, 10.0, 1e-3, rng.uniform(1e-3, 200)])
        xs = sorted([b0, b1, b0 - 1e-9, b1 + 1e-9, np.nextafter(b0, -np.inf), np.nextafter(b1, np.inf),
                     (b0 + b1) / 2] + [rng.uniform(b0 - (b1 - b0), b1 + (b1 - b0)) for _ in range(60)])
        xs = np.array(xs)
        d = {"op": "fcn_cosine", "bounds": [b0, b1], "x": xs.tolist()}
        try:
            y = np.asarray(u.fcn_cosine([b0, b1])(xs.copy()))
        except Exception as e:
            ctx.fail("fcn_cosine raised %r" % (e,), d, {"op": "fcn_cosine", "kind": "exception"})
            continue
        ok = (y.shape == xs.shape and np.all(np.diff(y) >= -1e-12) and np.all(y[xs <= b0] == 0)
              and np.all(np.abs(y[xs >= b1] - 1) <= 1e-12) and y.min() >= 0 and y.max() <= 1 + 1e-12
              and abs(y[np.searchsorted(xs, (b0 + b1) / 2)] - 0.5) < 1e-9)
        if not ok:
            ctx.fail("cosine taper is not monotone from 0 to 1 between its bounds", d, {"op": "fcn_cosine", "kind": "monotone"})
        worst = max(worst, float(np.max(-np.diff(y), initial=0)))
        cs.evals += 1
        cs.count("fcn_cosine")
    ctx.measurements["fcn_cosine_largest_decrease_between_sorted_samples"] = worst
    # correspondence with the model's taper codes (Run op 8) on exactly representable arguments, with exact ties
    # x == b0, x == b1 and their neighbours; x passed as float64 / float32 / integer arrays
    model = common.Extracted(PROP)
    jobs = []
    for _ in range(300 if ctx.thorough() else 100):
        den = rng.choice([1, 1, 2, 4, 8, 10, 3])
        b0n = rng.randrange(-50, 50)
        b1n = b0n + rng.randrange(1, 40)
        xs = sorted({b0n - 2, b0n - 1, b0n, b0n + 1, (b0n + b1n) // 2, b1n - 1, b1n, b1n + 1, b1n + 2,
                     rng.randrange(b0n - 5, b1n + 6), rng.randrange(b0n, b1n + 1)})
        jobs.append((den, b0n, b1n, xs))
    inputs = [[8, b0n, b1n, xn] for (den, b0n, b1n, xs) in jobs for xn in xs]
    outs = model.run_many(inputs)
    pos = 0
    for (den, b0n, b1n, xs) in jobs:
        codes = outs[pos:pos + len(xs)]
        pos += len(xs)
        exp = np.array([taper_value(*c) for c in codes])
        xdt = rng.choice(["float64", "float64", "float32", "int64"]) if den == 1 else "float64"
        xarr = (np.array(xs, dtype=np.float64) / den).astype(xdt)
        bounds = rng.choice([list, np.array, tuple])([b0n / den, b1n / den])
        d = {"op": "fcn_cosine-codes", "den": den, "b0n": b0n, "b1n": b1n, "xn": xs, "xdtype": xdt}
        try:
            y = np.asarray(u.fcn_cosine(bounds)(xarr.copy()), dtype=np.float64)
        except Exception as e:
            ctx.fail("fcn_cosine raised %r" % (e,), d, {"op": "fcn_cosine", "kind": "exception", "xdtype": xdt})
            continue
        tol = 1e-6 if xdt == "float32" else 1e-12
        sel = np.ones(len(xs), dtype=bool)
        # textbook definition, computed independently of the model: (1 - cos(pi * clip((x-b0)/(b1-b0), 0, 1))) / 2
        tb = (1.0 - np.cos(np.pi * np.clip((np.array(xs, dtype=np.float64) - b0n) / (b1n - b0n), 0.0, 1.0))) / 2.0
        if y.shape != tb.shape or np.max(np.abs(y - tb), initial=0) > tol:
            ctx.fail("fcn_cosine is not the cosine taper (1 - cos(pi (x-b0)/(b1-b0)))/2 clipped to [0, 1] (x dtype %s)" % xdt,
                     d, {"op": "fcn_cosine", "kind": "textbook", "xdtype": xdt})
        if y.shape != exp.shape or np.max(np.abs(y[sel] - exp[sel]), initial=0) > tol:
            ctx.disagree("fcn_cosine differs from the model's taper code values", d)
        for xn, yv in zip(xs, y):
            if (xn <= b0n and yv != 0.0) or (xn >= b1n and abs(yv - 1.0) > (0 if xdt != "float32" else 1e-6)):
                ctx.fail("fcn_cosine(%s/%s) = %r at or beyond a bound (bounds %s/%s, %s/%s)" % (xn, den, float(yv), b0n, den, b1n, den),
                         d, {"op": "fcn_cosine", "kind": "exact-bound", "xdtype": xdt})
                break
        cs.evals += len(xs)
        cs.count("fcn_cosine_codes", len(xs))
        cs.count("fcn_cosine_x_" + xdt)
        cs.nontrivial.add(("cos", den, b0n, b1n))
    k = min(60, len(inputs))
    bad = common.coq_mismatches(PROP, HEADER, [common.flat_cases_term(i, inputs[i], outs[i]) for i in range(k)])
    for i in bad:
        ctx.disagree("kernel-evaluated taper code differs from the extracted model", {"op": "fcn_cosine-codes", "flat": inputs[i]})
    ctx.coverage["cosine_model_evaluations_extracted"] = len(inputs)



# ---------------------------------------------------------------------------
# call sequences: every function is stateless — the same call must give the same (correct) answer whatever was
# called before; each function is called repeatedly with all arguments but one held fixed
# ---------------------------------------------------------------------------
def textbook_response(ns, si, b0, b1):
    """high-pass cosine-taper response at the DFT bin frequencies k/(ns*si), expanded to ns bins (independent of the model)"""
    fk = np.arange(ns // 2 + 1) / (ns * si)
    t = np.clip((fk - b0) / (b1 - b0), 0.0, 1.0)
    h = (1.0 - np.cos(np.pi * t)) / 2.0
    return np.concatenate((h, h[1:(ns + 1) // 2][::-1]))


SEQ_SI = [(1, 2), (1, 1), (2, 1), (5, 2), (1, 30000)]


def run_filter_sequence(f, ns, ts, bd, b, calls, report):
    """calls: list of [typ, sp, sq]; runs them in order; report(kind, what, index) on every failed clause"""
    bf = [v / bd for v in b]
    got = {}
    scale = max(1.0, float(np.abs(ts).sum()))
    for i, (typ, sp, sq) in enumerate(calls):
        si = sp / sq
        fn, bb = {"lp": (f.lp, bf[0:2]), "hp": (f.hp, bf[0:2]), "bp": (f.bp, bf)}[typ]
        try:
            o = np.asarray(fn(ts.copy(), si, bb))
        except Exception as e:
            report("exception", "%s raised %r" % (typ, e), i)
            return
        H1 = textbook_response(ns, si, bf[0], bf[1])
        H = {"hp": H1, "lp": 1.0 - H1, "bp": H1 * (1.0 - textbook_response(ns, si, bf[2], bf[3]))}[typ]
        ref = np.real(np.fft.ifft(np.fft.fft(ts) * H))
        if o.shape != ref.shape or np.max(np.abs(o - ref)) > TOL * scale:
            report("response", "%s(si=%s/%s) differs from %s sampled at k/(ns*si) (call %d of a sequence varying si)"
                   % (typ, sp, sq, "the product of the high-pass and low-pass cosine tapers" if typ == "bp"
                      else "the cosine-taper response", i), i)
            return
        got[(typ, sp, sq)] = o
        if (("lp", sp, sq) in got) and (("hp", sp, sq) in got) and typ in ("lp", "hp"):
            if np.max(np.abs(got[("lp", sp, sq)] + got[("hp", sp, sq)] - ts)) > TOL * scale:
                report("lp+hp", "lp + hp (si=%s/%s) is not the identity within a sequence varying si" % (sp, sq), i)
                return


def part_sequences(ctx, cs):
    f, u, rng = F(), U(), ctx.rng
    # (1) filters: same (typ, ns, corners), different sampling intervals, interleaved and repeated
    for key in range(14 if ctx.thorough() else 7):
        ns = rng.choice([8, 9, 16, 27, 30, 64, 81, 100])
        bd = 20
        b = arrange_corners(sorted(rng.sample(range(0, 12), 4)), CORNER_CATS[key % len(CORNER_CATS)])
        ts = rand_ints(rng, ns).astype(np.float64)
        calls = [[typ, sp, sq] for (sp, sq) in SEQ_SI for typ in ("lp", "hp", "bp")]
        rng.shuffle(calls)
        calls += [list(c) for c in rng.sample(calls, 5)]            # repeats of earlier calls
        d = {"op": "filter-sequence", "ns": ns, "ts": ts.astype(int).tolist(), "bd": bd, "b": b}

        def report(kind, what, i, d=d, calls=calls):
            ctx.fail(what, dict(d, sequence=calls[:i + 1]), {"op": "filter", "kind": "sequence-" + kind})
        run_filter_sequence(f, ns, ts, bd, b, calls, report)
        cs.evals += len(calls)
        cs.count("filter_sequence_calls", len(calls))
        cs.nontrivial.add(("fseq", key))
    # (2) the other helpers: one argument varied, the others held fixed, each answer checked
    for _ in range(6 if ctx.thorough() else 3):
        ns = rng.randrange(3, 40)
        d = {"op": "sequence", "ns": ns}
        try:
            for si in (1, 0.5, 2.5, 1 / 30000, 1):
                for one_sided in (False, True, False):
                    fs = np.asarray(f.fscale(ns, si, one_sided=one_sided))
                    exp = np.array([i if i <= ns // 2 else i - ns for i in range(ns // 2 + 1 if one_sided else ns)]) / (ns * si)
                    if fs.shape != exp.shape or not np.allclose(fs, exp, rtol=1e-12, atol=0):
                        ctx.fail("fscale(ns=%d, si=%r, one_sided=%r) wrong within a call sequence" % (ns, si, one_sided),
                                 dict(d, fn="fscale", si=si, one_sided=one_sided), {"op": "fscale", "kind": "sequence"})
            nsw = rng.randrange(1, 12)
            x1, x2 = rand_ints(rng, ns), rand_ints(rng, ns)
            w1, w2 = rand_ints(rng, nsw), rand_ints(rng, nsw)
            for (xx, ww) in ((x1, w1), (x1, w2), (x2, w2), (x2, w1), (x1, w1)):
                for mode in ("full", "same", "full"):
                    c = np.asarray(f.convolve(xx.astype(float), ww.astype(float), mode=mode))
                    full = direct_full(xx, ww)
                    exp = np.append(full, 0) if mode == "full" else full[(nsw - 1) // 2:(nsw - 1) // 2 + ns]
                    if c.shape != exp.shape or np.max(np.abs(c - exp)) > TOL * max(1.0, float(np.abs(xx).sum() * np.abs(ww).max())):
                        ctx.fail("convolve wrong within a call sequence (same lengths, other operand varied)",
                                 {"op": "convolve", "x": xx.tolist(), "w": ww.tolist(), "kind": "sequence"},
                                 {"op": "convolve", "kind": "sequence"})
            shp = (rng.randrange(2, 7), rng.randrange(2, 7))
            G1, G2 = gauss(rng, shp), gauss(rng, shp)
            for G in (G1, G2, G1):
                for axis in (0, 1, 0):
                    n = shp[axis]
                    r = np.asarray(f.freduce(G, axis=axis))
                    if not np.array_equal(r, np.take(G, np.arange(n // 2 + 1), axis=axis)):
                        ctx.fail("freduce wrong within a call sequence", dict(d, fn="freduce", shape=list(shp), axis=axis),
                                 {"op": "freduce", "kind": "sequence"})
                    for nsx in (2 * (n // 2 + 1) - 2, 2 * (n // 2 + 1) - 1):
                        e = np.asarray(f.fexpand(r, nsx, axis=axis))
                        tail = np.conj(np.flip(np.take(r, np.arange(1, (nsx + 1) // 2), axis=axis), axis=axis))
                        if not np.array_equal(e, np.concatenate((r, tail), axis=axis)):
                            ctx.fail("fexpand wrong within a call sequence", dict(d, fn="fexpand", shape=list(shp), axis=axis, nsx=nsx),
                                     {"op": "fexpand", "kind": "sequence"})
                    X = np.asarray(f.dft(G, axis=axis))
                    if X.shape != G.shape or np.max(np.abs(X - np.fft.fft(G, axis=axis))) > TOL * float(np.abs(G).sum()):
                        ctx.fail("dft wrong within a call sequence", dict(d, fn="dft", shape=list(shp), axis=axis),
                                 {"op": "dft", "kind": "sequence"})
            xs1, xs2 = np.linspace(-3, 7, 23), np.linspace(0, 4, 23)
            for (bb, xs) in (([0, 4], xs1), ([0, 4], xs2), ([1, 2], xs2), ([1, 2], xs1), ([0, 4], xs1)):
                fun = u.fcn_cosine(bb)
                for _rep in range(2):
                    y = np.asarray(fun(xs.copy()))
                    exp = (1 - np.cos(np.clip((xs - bb[0]) / (bb[1] - bb[0]), 0, 1) * np.pi)) / 2
                    if y.shape != exp.shape or np.max(np.abs(y - exp)) > 1e-12:
                        ctx.fail("fcn_cosine wrong within a call sequence", {"op": "fcn_cosine", "bounds": bb, "x": xs.tolist()},
                                 {"op": "fcn_cosine", "kind": "sequence"})
            for n in (ns, 3 * ns, ns, 1000 + ns, ns):
                if int(f.ns_optim_fft(n)) != smooth_ge(n):
                    ctx.fail("ns_optim_fft wrong within a call sequence", {"op": "ns_optim_fft", "n": n},
                             {"op": "ns_optim_fft", "kind": "sequence"})
        except Exception as e:
            ctx.fail("a helper raised %r within a call sequence" % (e,), d, {"op": "sequence", "kind": "exception"})
        cs.evals += 100
        cs.count("helper_sequences")


# ---------------------------------------------------------------------------
def run(ctx):
    common.proof_obligations(ctx, whitelist=sorted(common.STDLIB_AXIOMS))
    cs = Cases()

    def guarded_part(part):
        # no harness crash, ever: whatever escapes a part (an implementation result that breaks a canonicaliser,
        # an ImplError at a call site without its own handler) is reported as a failing input = the last call made
        try:
            part(ctx, cs)
        except BaseException as e:
            tb = traceback.extract_tb(e.__traceback__)
            where = "%s:%d" % (tb[-1].name, tb[-1].lineno) if tb else "?"
            ctx.fail("%s: the result of %s could not be used as the documented array (%r at %s)"
                     % (part.__name__, (Guard.last_call or {}).get("fn"), e, where),
                     Guard.last_call or {"op": "call", "fn": None}, {"op": part.__name__, "kind": "unusable-result"})

    for part in (part_ns_optim, part_convolve, part_fscale, part_half, part_dft, part_params):
        guarded_part(part)
    common.correspondence(ctx, PROP, HEADER, cs.inp, cs.out, lambda i: cs.desc[i], n_kernel=80, shard=40)
    # call sequences before the single-call filter cases: nothing may depend on call history
    for part in (part_sequences, part_filters, part_cosine):
        guarded_part(part)
    cs.dist["model_cases_integer_exact"] = len(cs.inp)
    pick = [i for i in range(0, len(cs.inp), max(1, len(cs.inp) // 7)) if len(cs.inp[i]) + len(cs.out[i]) < 60][:8]
    samples = [{"input": cs.inp[i], "implementation_output": cs.out[i], "op": cs.desc[i]["op"]} for i in pick]
    return common.finish(
        ctx, TRUSTED,
        rule="real functions of ibldsp.fourier / utils on structured inputs: ns_optim_fft on every n up to a bound, around "
             "every table entry and at random up to the table's end vs brute force; convolve (full, same) on integer "
             "sequences for every pair of lengths of a small box (generic contents and full impulse bases, through the "
             "model), the 300x300 box (x impulse basis against a kernel of distinct integers; all pairs in thorough, a "
             "1-in-89 stride plus every sum around powers of two/three in quick) vs exact direct convolution, 1-3-D "
             "leading axes; fscale for every ns 1..300; freduce/fexpand on Gaussian-integer vectors of every length, on "
             "spectra of real signals along every axis of 1-3-D arrays; dft/dft2 vs FFT on every axis; lp/hp/bp "
             "responses read off the unit impulse vs the model's taper codes, lp+hp=id, bp=lp o hp on 1-3-D integer "
             "series; fcn_cosine monotone on sorted samples. evaluations = implementation calls checked; non-trivial "
             "= distinct (operation, lengths/shape) with more than one window of work (result differs from the "
             "argument / length > 2)",
        samples=samples, evaluations=cs.evals, distinct_nontrivial=len(cs.nontrivial),
        extra={"input_distribution": cs.dist, "exhaustive": False,
               "ns_optim_domain_bound": B_LIMIT},
        assumptions=["np.fft computes the exact DFT sums up to float64 rounding (tolerance 1e-9*scale)",
                     "ns_optim_fft is claimed minimal only for n <= %d (first 3-smooth number missing from the table is 3^15)" % B_LIMIT])


# ---------------------------------------------------------------------------
def replay(ctx, data):
    inp = data.get("input") or (data.get("correspondence_disagreements") or [{}])[0].get("input")
    if not inp:
        print(json.dumps(data, indent=1)[:3000])
        return 1
    print("replaying:", json.dumps(inp)[:600])
    sub = common.Ctx(PROP, "quick", data.get("seed", 0))
    cs = Cases()
    f = F()
    op = inp.get("op")
    try:
        if op == "ns_optim_fft":
            n = inp["n"]
            try:
                m = int(f.ns_optim_fft(n))
                out = [1, m]
            except IndexError:
                m, out = None, [0]
            print("implementation:", m, " brute force:", SMOOTH[bisect.bisect_left(SMOOTH, n)] if n >= 1 else None)
            if 1 <= n <= B_LIMIT and m != SMOOTH[bisect.bisect_left(SMOOTH, n)]:
                sub.fail("not the smallest", inp)
            cs.add([1, n], out, inp)
        elif op == "convolve":
            x, w = np.array(inp["x"], dtype=np.int64), np.array(inp["w"], dtype=np.int64)
            for mode in ("full", "same"):
                try:
                    print("implementation %s:" % mode,
                          np.asarray(f.convolve(conv_operand(x, inp.get("dtype", "float64"), inp.get("xden", 1), inp.get("noncontig", False)),
                                                conv_operand(w, inp.get("wdtype", "float64"), inp.get("wden", 1), inp.get("noncontig", False)),
                                                mode=mode)).round(6).tolist()[:40])
                except Exception as e:
                    print("implementation %s raised %r" % (mode, e))
            if x.ndim == 1 and w.ndim == 1:
                print("direct convolution:", direct_full(x, w).tolist()[:40])
            conv_check(sub, cs, x, w, inp.get("kind", "replay"), dtype=inp.get("dtype", "float64"),
                       wdtype=inp.get("wdtype"), noncontig=inp.get("noncontig", False),
                       xden=inp.get("xden", 1), wden=inp.get("wden", 1))
        elif op == "convolve-float-kernel":
            xs, wk = np.array(inp["x"], dtype=inp["xdtype"]), np.array(inp["w"], dtype=np.float64)
            ref = np.convolve(xs.astype(np.float64), wk)
            cf = np.asarray(f.convolve(xs, wk, mode="full"))
            print("implementation full:", cf[:12], "\nnp.convolve float64:", ref[:12])
            if cf.shape != (len(xs) + len(wk),) or np.max(np.abs(cf[:-1] - ref)) > TOL * max(1.0, float(np.abs(xs.astype(float)).sum())):
                sub.fail("differs from np.convolve", inp)
        elif op == "fscale":
            fs = f.fscale(inp["ns"], inp["si"], one_sided=inp["one_sided"])
            print("implementation:", np.asarray(fs)[:20])
            bins, ok = near_int(np.asarray(fs) * inp["ns"] * inp["si"], max(1.0, inp["ns"]))
            exp = [i if i <= inp["ns"] // 2 else i - inp["ns"] for i in range(len(fs))]
            if not ok or bins.tolist() != exp or len(fs) != (inp["ns"] // 2 + 1 if inp["one_sided"] else inp["ns"]):
                sub.fail("bins", inp)
            else:
                cs.add([3, inp["ns"], int(inp["one_sided"])], [len(bins)] + bins.tolist(), inp)
        elif op in ("freduce", "fexpand"):
            v = np.array(inp["x"], dtype=float).reshape(-1, 2)
            X = v[:, 0] + 1j * v[:, 1]
            try:
                r = f.freduce(X) if op == "freduce" else f.fexpand(X, inp["ns"])
                print("implementation:", r)
                out = [1, len(r)] + flat_c(r)
            except IndexError as e:
                print("implementation raised", repr(e))
                out = [0]
            cs.add(([4, len(X)] if op == "freduce" else [5, inp["ns"], len(X)]) + flat_c(X), out, inp)
            if op == "freduce" and len(X) >= 1 and out[1:] != [len(X) // 2 + 1] + flat_c(X[:len(X) // 2 + 1]):
                sub.fail("freduce", inp)
        elif op == "half-roundtrip":
            x = np.array(inp["x"], dtype=float)
            axis = inp["axis"]
            X = np.fft.fft(x, axis=axis)
            E = f.fexpand(f.freduce(X, axis=axis), x.shape[axis], axis=axis)
            err = float(np.max(np.abs(E - X))) if E.shape == X.shape else None
            print("shape", E.shape, "expected", X.shape, "max |fexpand(freduce(X)) - X| =", err)
            if err is None or err > TOL * max(1.0, float(np.abs(x).sum())):
                sub.fail("roundtrip", inp)
        elif op == "dft":
            v = np.array(inp["x"], dtype=float).reshape(-1, 2)
            x = (v[:, 0] + 1j * v[:, 1]).reshape(inp["shape"])
            X = f.dft(x, axis=inp["axis"])
            is_c = bool(np.any(np.iscomplex(x)))
            ref = np.fft.fft(x, axis=inp["axis"]) if is_c else np.fft.rfft(x.real, axis=inp["axis"])
            print("dft shape", X.shape, "fft shape", ref.shape)
            if X.shape != ref.shape or np.max(np.abs(X - ref)) > TOL * max(1.0, float(np.abs(x).sum())):
                sub.fail("dft", inp)
        elif op == "filter":
            ns, sp, sq, bd, b = inp["ns"], inp["sp"], inp["sq"], inp["bd"], inp["b"]
            si, bf = sp / sq, [v / bd for v in b]
            ts = np.array(inp["ts"], dtype=float) if "ts" in inp else np.eye(1, ns)[0]
            axis = inp.get("axis", ts.ndim - 1)
            o_lp, o_hp = f.lp(ts.copy(), si, bf[0:2], axis=axis), f.hp(ts.copy(), si, bf[0:2], axis=axis)
            o_bp = f.bp(ts.copy(), si, bf, axis=axis)
            e1 = float(np.max(np.abs(o_lp + o_hp - ts)))
            e2 = float(np.max(np.abs(o_bp - f.lp(f.hp(ts.copy(), si, bf[0:2], axis=axis), si, bf[2:4], axis=axis))))
            print("max |lp + hp - ts| =", e1, "  max |bp - lp(hp)| =", e2)
            outs = common.Extracted(PROP).run_many([[6, ns, sp, sq, bd, b[0], b[1]], [6, ns, sp, sq, bd, b[2], b[3]]])
            T1, T2 = np.array(decode_codes(outs[0])), np.array(decode_codes(outs[1]))
            imp = np.eye(1, ns)[0]
            errs = {}
            for typ, fn, bb, R in (("hp", f.hp, bf[0:2], T1), ("lp", f.lp, bf[0:2], 1 - T1), ("bp", f.bp, bf, T1 * (1 - T2))):
                errs[typ] = float(np.max(np.abs(np.fft.fft(fn(imp.copy(), si, bb)) - R)))
            print("max |response(impl) - response(model)|:", errs)
            scale = max(1.0, float(np.abs(ts).sum()))
            if e1 > TOL * scale or e2 > TOL * scale:
                sub.fail("filter identities", inp)
            if max(errs.values()) > 1e-9:
                sub.disagree("response", inp)
        elif op == "dft-kscale":
            v = np.array(inp["x"], dtype=float).reshape(-1, 2)
            x = (v[:, 0] + 1j * v[:, 1]).reshape(inp["shape"])
            if not np.any(np.iscomplex(x)):
                x = x.real
            ks, axis = inp["kscale"], inp["axis"]
            ns = x.shape[axis]
            xsc = np.arange(ns) if inp.get("xscale") is None else np.array(inp["xscale"])
            kw = {} if inp.get("xscale") is None else {"xscale": xsc}
            X = np.asarray(f.dft(x, axis=axis, kscale=np.array(ks), **kw))
            E = np.exp(-2j * np.pi / ns * np.outer(np.array(ks, dtype=float), xsc))
            ref = np.moveaxis(np.tensordot(E, np.moveaxis(x, axis, 0), axes=(1, 0)), 0, axis)
            print("kscale", ks, "\nimplementation:", np.round(X, 6).reshape(-1)[:8], "\ntextbook:      ", np.round(ref, 6).reshape(-1)[:8])
            if X.shape != ref.shape or np.max(np.abs(X - ref)) > 1e-6 * max(1.0, float(np.abs(x).sum())):
                sub.fail("dft at requested bins", inp)
        elif op == "dft2-irregular":
            x, r, c = np.array(inp["x"], dtype=float), np.array(inp["r"]), np.array(inp["c"])
            X = np.asarray(f.dft2(x, r, c, inp["nk"], inp["nl"]))
            kk, ll = np.meshgrid(np.arange(inp["nk"]), np.arange(inp["nl"]), indexing="ij")
            ref = np.tensordot(np.exp(-2j * np.pi * (kk[..., None] * r + ll[..., None] * c)), x, axes=(2, 0))
            print("max |dft2 - textbook| =", float(np.max(np.abs(X - ref))) if X.shape == ref.shape else "shape %s" % (X.shape,))
            if X.shape != ref.shape or np.max(np.abs(X - ref)) > 1e-6 * max(1.0, float(np.abs(x).sum())):
                sub.fail("dft2", inp)
        elif op == "filter-sequence":
            ts = np.array(inp["ts"], dtype=float)

            def report(kind, what, i):
                print("call %d %s: %s" % (i, inp["sequence"][i], what))
                sub.fail(what, inp)
            run_filter_sequence(f, inp["ns"], ts, inp["bd"], inp["b"], inp["sequence"], report)
            print("sequence of %d calls re-executed" % len(inp["sequence"]))
        elif op == "call":
            def back(v):
                return np.array(v["data"], dtype=v["dtype"]).reshape(v["shape"]) if isinstance(v, dict) and v.get("data") is not None else v
            mod = f if hasattr(f._mod, inp["fn"]) else U()
            try:
                r = getattr(mod, inp["fn"])(*[back(v) for v in inp["args"]], **{q: back(v) for q, v in inp["kwargs"].items()})
                print("implementation returned", type(r).__name__, getattr(r, "shape", None), getattr(r, "dtype", None))
            except Exception as e:
                print("implementation:", repr(e))
                sub.fail(repr(e), inp)
        elif op == "filter-negative-axis":
            ts = np.array(inp["ts"], dtype=float)
            o = np.asarray(f.lp(ts.copy(), inp["si"], inp["b"], axis=inp["axis"]))
            ref = np.asarray(f.lp(ts.copy(), inp["si"], inp["b"], axis=ts.ndim + inp["axis"]))
            print("lp(axis=%d) shape %s; lp(axis=%d) shape %s" % (inp["axis"], o.shape, ts.ndim + inp["axis"], ref.shape))
            if o.shape != ref.shape or np.max(np.abs(o - ref)) > TOL * max(1.0, float(np.abs(ts).sum())):
                sub.fail("negative axis", inp)
        elif op == "fcn_cosine-codes":
            den, b0n, b1n, xs = inp["den"], inp["b0n"], inp["b1n"], inp["xn"]
            outs = common.Extracted(PROP).run_many([[8, b0n, b1n, xn] for xn in xs])
            exp = np.array([taper_value(*c) for c in outs])
            y = np.asarray(U().fcn_cosine([b0n / den, b1n / den])((np.array(xs, dtype=float) / den).astype(inp.get("xdtype", "float64"))), dtype=float)
            print("x*den:", xs, "\nimplementation:", y.tolist(), "\nmodel:", exp.tolist())
            if np.max(np.abs(y - exp)) > 1e-6:
                sub.disagree("codes", inp)
            if any((xn <= b0n and yv != 0.0) or (xn >= b1n and abs(yv - 1.0) > 1e-6) for xn, yv in zip(xs, y)):
                sub.fail("exact bound", inp)
            tb = (1.0 - np.cos(np.pi * np.clip((np.array(xs, dtype=float) - b0n) / (b1n - b0n), 0.0, 1.0))) / 2.0
            if y.shape != tb.shape or np.max(np.abs(y - tb)) > 1e-6:
                sub.fail("not the cosine taper", inp)
        elif op == "fcn_cosine":
            xs = np.array(inp["x"])
            y = U().fcn_cosine(inp["bounds"])(xs.copy())
            print("min diff of outputs on sorted inputs:", float(np.min(np.diff(y))), "range", float(y.min()), float(y.max()))
            if np.any(np.diff(y) < -1e-12) or y.min() < 0 or y.max() > 1 + 1e-12:
                sub.fail("monotone", inp)
        else:
            print("unknown replay kind", op)
            return 1
    except Exception as e:
        print("implementation raised:", repr(e))
        return 1
    ids = []
    if cs.inp:
        ids = common.coq_mismatches(PROP, HEADER, [common.flat_cases_term(i, cs.inp[i], cs.out[i])
                                                   for i in range(len(cs.inp))])
        print("kernel-evaluated model agrees with implementation:", not ids)
    print("property clauses failing on the implementation:", [x["what"] for x in sub.oracle_failures])
    return 1 if (sub.oracle_failures or sub.disagreements or ids) else 0
